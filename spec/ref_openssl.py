"""Independent oracle: the OpenSSL libcrypto that CPython's hashlib is linked against, reached through ctypes (EVP
interface, `legacy` + `default` providers).  Used for the primitives whose standard tables cannot be derived from
first principles (CAST-128, RC2) and as a second oracle for DES/3DES, Blowfish, RC4, MD4, AES, ChaCha20.
`available()` is False when libcrypto or the legacy provider cannot be loaded; callers then fall back to the
published vectors in ref_vectors and say so in their bound description."""
import ctypes
import ctypes.util

_lib = None
_err = None
_legacy = False

EVP_CTRL_SET_RC2_KEY_BITS = 0x3


def _load():
    global _lib, _err, _legacy
    if _lib is not None or _err is not None:
        return
    try:
        name = ctypes.util.find_library('crypto') or 'libcrypto.so.3'
        lib = ctypes.CDLL(name)
        vp, ci, cp = ctypes.c_void_p, ctypes.c_int, ctypes.c_char_p
        lib.OSSL_PROVIDER_load.restype = vp
        lib.OSSL_PROVIDER_load.argtypes = [vp, cp]
        lib.EVP_CIPHER_fetch.restype = vp
        lib.EVP_CIPHER_fetch.argtypes = [vp, cp, cp]
        lib.EVP_MD_fetch.restype = vp
        lib.EVP_MD_fetch.argtypes = [vp, cp, cp]
        lib.EVP_CIPHER_CTX_new.restype = vp
        lib.EVP_CIPHER_CTX_free.argtypes = [vp]
        lib.EVP_CipherInit_ex.argtypes = [vp, vp, vp, cp, cp, ci]
        lib.EVP_CIPHER_CTX_set_key_length.argtypes = [vp, ci]
        lib.EVP_CIPHER_CTX_set_padding.argtypes = [vp, ci]
        lib.EVP_CIPHER_CTX_ctrl.argtypes = [vp, ci, ci, vp]
        lib.EVP_CipherUpdate.argtypes = [vp, cp, ctypes.POINTER(ci), cp, ci]
        lib.EVP_CipherFinal_ex.argtypes = [vp, cp, ctypes.POINTER(ci)]
        lib.EVP_Digest.argtypes = [cp, ctypes.c_size_t, cp, ctypes.POINTER(ctypes.c_uint), vp, vp]
        _legacy = bool(lib.OSSL_PROVIDER_load(None, b'legacy'))
        if not lib.OSSL_PROVIDER_load(None, b'default'):
            raise OSError('default provider not loadable')
        _lib = lib
    except Exception as ex:      # noqa
        _err = str(ex)


_ciphers = {}
_mds = {}


def _cipher(name):
    _load()
    if _lib is None:
        return None
    if name not in _ciphers:
        _ciphers[name] = _lib.EVP_CIPHER_fetch(None, name.encode(), None)
    return _ciphers[name]


def has_cipher(name):
    return bool(_cipher(name))


def has_digest(name):
    _load()
    if _lib is None:
        return False
    if name not in _mds:
        _mds[name] = _lib.EVP_MD_fetch(None, name.encode(), None)
    return bool(_mds[name])


def available():
    _load()
    return _lib is not None


def version():
    _load()
    if _lib is None:
        return 'unavailable: %s' % _err
    _lib.OpenSSL_version.restype = ctypes.c_char_p
    return _lib.OpenSSL_version(0).decode() + (' +legacy' if _legacy else ' (no legacy provider)')


def crypt(name, key, data, enc=True, iv=None, rc2_bits=None):
    """one-shot EVP cipher call without padding; variable key length and RC2 effective bits supported"""
    c = _cipher(name)
    if not c:
        raise RuntimeError('OpenSSL cipher %s not available' % name)
    ctx = _lib.EVP_CIPHER_CTX_new()
    try:
        if _lib.EVP_CipherInit_ex(ctx, c, None, None, None, 1 if enc else 0) != 1:
            raise RuntimeError('EVP_CipherInit_ex(1)')
        if _lib.EVP_CIPHER_CTX_set_key_length(ctx, len(key)) <= 0:
            raise ValueError('OpenSSL refuses key length %d for %s' % (len(key), name))
        if rc2_bits is not None:
            if _lib.EVP_CIPHER_CTX_ctrl(ctx, EVP_CTRL_SET_RC2_KEY_BITS, rc2_bits, None) <= 0:
                raise ValueError('OpenSSL refuses RC2 effective bits %d' % rc2_bits)
        if _lib.EVP_CipherInit_ex(ctx, None, None, bytes(key), None if iv is None else bytes(iv), 1 if enc else 0) != 1:
            raise RuntimeError('EVP_CipherInit_ex(2)')
        _lib.EVP_CIPHER_CTX_set_padding(ctx, 0)
        out = ctypes.create_string_buffer(len(data) + 64)
        n = ctypes.c_int(0)
        if _lib.EVP_CipherUpdate(ctx, out, ctypes.byref(n), bytes(data), len(data)) != 1:
            raise RuntimeError('EVP_CipherUpdate')
        tot = n.value
        tail = ctypes.create_string_buffer(64)
        if _lib.EVP_CipherFinal_ex(ctx, tail, ctypes.byref(n)) != 1:
            raise RuntimeError('EVP_CipherFinal_ex')
        return out.raw[:tot] + tail.raw[:n.value]
    finally:
        _lib.EVP_CIPHER_CTX_free(ctx)


def digest(name, data):
    if not has_digest(name):
        raise RuntimeError('OpenSSL digest %s not available' % name)
    out = ctypes.create_string_buffer(64)
    n = ctypes.c_uint(0)
    if _lib.EVP_Digest(bytes(data), len(data), out, ctypes.byref(n), _mds[name], None) != 1:
        raise RuntimeError('EVP_Digest')
    return out.raw[:n.value]


def selftest():
    if not available():
        return 'unavailable'
    h = bytes.fromhex
    assert crypt('AES-128-ECB', bytes(16), bytes(16)).hex() == '66e94bd4ef8a2c3b884cfa59ca342b2e'
    res = {'AES': True}
    if has_cipher('DES-ECB'):
        assert crypt('DES-ECB', h('133457799BBCDFF1'), h('0123456789ABCDEF')).hex() == '85e813540f0ab405'
        res['DES'] = True
    if has_cipher('CAST5-ECB'):
        assert crypt('CAST5-ECB', h('0123456712345678234567893456789A'), h('0123456789ABCDEF')).hex() == '238b4fe5847e44b2'
        assert crypt('CAST5-ECB', h('01234567123456782345'), h('0123456789ABCDEF')).hex() == 'eb6a711a2c02271b'
        assert crypt('CAST5-ECB', h('0123456712'), h('0123456789ABCDEF')).hex() == '7ac816d16e9b302e'
        assert crypt('CAST5-ECB', h('0123456712'), h('7ac816d16e9b302e'), enc=False).hex() == '0123456789abcdef'
        res['CAST5'] = True
    if has_cipher('RC2-ECB'):
        assert crypt('RC2-ECB', h('88bca90e90875a7f0f79c384627bafb2'), bytes(8), rc2_bits=64).hex() == '1a807d272bbe5db1'
        assert crypt('RC2-ECB', h('88bca90e90875a7f0f79c384627bafb2'), bytes(8), rc2_bits=128).hex() == '2269552ab0f85ca6'
        assert crypt('RC2-ECB', h('88'), bytes(8), rc2_bits=64).hex() == '61a8a244adacccf0'
        res['RC2'] = True
    if has_cipher('BF-ECB'):
        assert crypt('BF-ECB', bytes(8), bytes(8)).hex() == '4ef997456198dd78'
        res['BF'] = True
    if has_cipher('RC4'):
        assert crypt('RC4', b'Key', b'Plaintext').hex() == 'bbf316e8d940af0ad3'
        res['RC4'] = True
    if has_digest('MD4'):
        assert digest('MD4', b'abc').hex() == 'a448017aaf21d8525fc10ae87aa6729d'
        res['MD4'] = True
    res['MD2'] = has_digest('MD2')
    return res
