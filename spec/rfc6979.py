"""RFC 6979 (deterministic DSA / ECDSA), sections 2.3 (bit string <-> integer conversions) and 3.2 (generation of k).

  qlen = bit length of q, rlen = 8 * ceil(qlen / 8), blen = 8 * len(b)
  HMAC_K(V) is uninterpreted: hmac(alg, K, V), hlen octets long
"""
from spec import rfc8017

SIG = {
    'hmac': {'sort': 'bytes', 'uf': True, 'facts': ['len(result) == rfc8017.hlen(alg)']},
    'bits2int': 'int', 'int2octets': 'bytes', 'bits2octets': 'bytes', 'generate_k': 'int',
    # step h, see gen_k_from / unfold below
    'gen_k_from': {'sort': 'int', 'uf': True},
    'unfold': {'sort': 'bool', 'uf': True, 'facts': [
        'result',
        'gen_k_from(alg, K, V, T, q, qlen, rlen8) == ite(len(T) < rlen8, '
        'gen_k_from(alg, K, hmac(alg, K, V), T + hmac(alg, K, V), q, qlen, rlen8), '
        'ite(0 < bits2int(T, qlen) and bits2int(T, qlen) < q, bits2int(T, qlen), '
        'gen_k_from(alg, hmac(alg, K, V + b"\\x00"), hmac(alg, hmac(alg, K, V + b"\\x00"), V), b"", q, qlen, rlen8)))']},
}


def hmac(alg, key, data):
    """HMAC (RFC 2104) with the hash function `alg` (ghost id): uninterpreted here; C03 proves Crypto.Hash.HMAC"""
    pass


def bits2int(b, qlen):
    """2.3.2: the blen-bit sequence is truncated to its leftmost qlen bits when qlen < blen (otherwise zero-padded on the
    left, which does not change the value), then read as a big-endian integer"""
    if 8 * len(b) > qlen:
        return be(b) >> (8 * len(b) - qlen)
    return be(b)


def int2octets(x, rlen8):
    """2.3.3: I2OSP(x, rlen/8) for 0 <= x < q  (rlen8 = rlen / 8 = ceil(qlen / 8))"""
    return i2osp(x, rlen8)


def bits2octets(b, q, qlen, rlen8):
    """2.3.4: z1 = bits2int(b); z2 = z1 mod q computed as z1 - q when z1 >= q (z1 < 2^qlen < 2q); int2octets(z2)"""
    z1 = bits2int(b, qlen)
    if z1 < q:
        return int2octets(z1, rlen8)
    return int2octets(z1 - q, rlen8)


# ---- 3.2 steps b-g: the initial (K, V) pair.  x = int2octets(private key), h = bits2octets(H(m))

def k_d(alg, hlen_, x, h):
    """K after step d:  K = HMAC_K0(V0 || 0x00 || x || h), K0 = 0x00 * hlen, V0 = 0x01 * hlen"""
    return hmac(alg, rep(b'\x00', hlen_), rep(b'\x01', hlen_) + b'\x00' + x + h)


def v_e(alg, hlen_, x, h):
    """V after step e:  V = HMAC_K(V0)"""
    return hmac(alg, k_d(alg, hlen_, x, h), rep(b'\x01', hlen_))


def k_f(alg, hlen_, x, h):
    """K after step f:  K = HMAC_K(V || 0x01 || x || h)"""
    return hmac(alg, k_d(alg, hlen_, x, h), v_e(alg, hlen_, x, h) + b'\x01' + x + h)


def v_g(alg, hlen_, x, h):
    """V after step g:  V = HMAC_K(V)"""
    return hmac(alg, k_f(alg, hlen_, x, h), v_e(alg, hlen_, x, h))


# ---- 3.2 step h: the candidate loop as a tail-recursive function of the state (K, V, T)
#   h.1  T = empty          h.2  while tlen < qlen: V = HMAC_K(V); T = T || V       (the library compares octet counts:
#        len(T) < rlen8 = ceil(qlen/8), the same condition because each V has whole octets)
#   h.3  k = bits2int(T); if 1 <= k <= q-1 return k; else K = HMAC_K(V || 0x00), V = HMAC_K(V), and start again at h.1
# gen_k_from is an uninterpreted symbol; its defining equation (a tail-recursive equation always has a solution, so it is a
# conservative definition) is made available ONE GROUND INSTANCE AT A TIME: unfold(state) is the constant true and its
# mention in a clause adds the equation for exactly that state (DESIGN 2.6: lemma instances are named at program points).


def unfold(alg, K, V, T, q, qlen, rlen8):
    pass


def gen_k_from(alg, K, V, T, q, qlen, rlen8):
    pass


def generate_k(alg, hlen_, x, h1, q, qlen, rlen8):
    """3.2 a-h: h1 = H(m) (step a is the caller's), x the private key"""
    xo = int2octets(x, rlen8)
    ho = bits2octets(h1, q, qlen, rlen8)
    return gen_k_from(alg, k_f(alg, hlen_, xo, ho), v_g(alg, hlen_, xo, ho), b'', q, qlen, rlen8)
