"""RFC 8017 (PKCS #1 v2.2), written from the standard.  Hash and (where a caller supplies one) MGF are uninterpreted.

  Hash(alg, data)   the hash function selected by the ghost algorithm id `alg`; hLen = hlen(alg) octets
  xor(a, b)         byte-wise exclusive or of two strings of equal length (uninterpreted; only its length is known)
  octets(n)         k, the length in octets of the modulus n (RFC 8017 section 2: 2^(8(k-1)) <= n < 2^(8k))
  OidStr            model of a hash object's `oid` attribute (dotted-decimal str): only ==, !=, in, startswith exist
  oid_der(id)       DER encoding (tag 0x06, length, content) of the OBJECT IDENTIFIER with ghost id `id`

Sections below are owned by different proofs; keep additions inside the section they belong to.
"""
from spec import mathint

SIG = {
    'Hash': {'sort': 'bytes', 'uf': True, 'facts': ['len(result) == hlen(alg)']},
    'hlen': {'sort': 'int', 'uf': True, 'facts': ['result >= 1']},
    'xor': {'sort': 'bytes', 'uf': True, 'facts': ['len(result) == len(a)']},
    'oid_is': {'sort': 'bool', 'uf': True},
    'oid_startswith': {'sort': 'bool', 'uf': True},
    'oid_der': {'sort': 'bytes', 'uf': True, 'facts': ['len(result) >= 3']},
    # X.690 8.1.3: number of octets of the long-form length n (the minimum k with n < 256^k), and the definite minimal length octets
    'len_octets': {'sort': 'int', 'uf': True, 'facts': ['result >= 1', 'n < pow2(8 * result)', 'ite(result == 1, True, n >= pow2(8 * (result - 1)))']},
    'der_len': 'bytes',
    'octets': {'sort': 'int', 'facts': ['result >= 1']},      # fact proved from the definition: unit enc.pkcs1v15.spec_lemmas
    # ---- section EMSA-PKCS1-v1_5 / RSAES-PKCS1-v1_5 (sig_rsa.py, pkcs1_enc.py)
    'null_required': 'bool', 'emsa_pkcs1_v15_fits': 'bool', 'emsa_pkcs1_v15': 'bytes',
    # size fact used where digest_info is opaque: leaving out the two octets 05 00 never makes the DER encoding longer (the
    # number of definite-form length octets is monotone in the content length, X.690 8.1.3)
    'digest_info': {'sort': 'bytes', 'facts': ['len(result) <= len(digest_info(oid, True, h))']},
    'rsassa_pkcs1_v15_em': 'bytes', 'rsassa_pkcs1_v15_valid': 'bool', 'rsadp_crt_blinded': 'int',
    # PS of RSAES-PKCS1-v1_5 as drawn from the caller's byte source: the non-zero octets among the one-octet draws
    # number c0, c0+1, ..., c1-1 of the tape, in order (definition by recursion on c1; conservative)
    'nonzero_draws': {'sort': 'bytes', 'uf': True,
                      'facts': ['any((c1 > c0, result == b""))',
                                'any((c1 <= c0, result == nonzero_draws(c0, c1 - 1) + ite(rnd_tape(c1 - 1) == bytes(1), b"", rnd_tape(c1 - 1))))']},
    'eme_pkcs1_v15': 'bytes', 'eme_pkcs1_v15_ok': 'bool', 'eme_pkcs1_v15_msg': 'bytes',
    # the two facts below are what the proofs that keep these functions opaque need of their definitions; they are PROVED from the
    # definitions by unit enc.pkcs1v15.spec_lemmas (contracts/pkcs1_enc.py), not trusted  (any/all: the strict forms of or/and)
    'eme_pkcs1_v15_sep': {'sort': 'int', 'facts': ['any((result == -1, all((10 <= result, result < len(em)))))']},
    'eme_pkcs1_v15_padded': {'sort': 'bool', 'facts': ['any((not result, eme_pkcs1_v15_sep(em) >= 10))']},
    'pkcs1_decode_bad_args': 'bool',
    # ---- section MGF1 / EMSA-PSS / RSAES-OAEP (sig_pss.py, enc_oaep.py)
    # (facts are written with ite() instead of ==> / and: a fact is evaluated at every application, connectives fork the evaluation)
    'MGF': {'sort': 'bytes', 'uf': True, 'facts': ['len(result) == ite(length >= 0, length, len(result))']},
    'mgf1_T': {'sort': 'bytes', 'uf': True,
               'facts': ['result == ite(blocks <= 0, b"", mgf1_T(alg, seed, blocks - 1) + Hash(alg, seed + i2osp(blocks - 1, 4)))']},
    'mgf1': {'sort': 'bytes',
             'facts': ['len(result) == ite(0 <= maskLen, ite(maskLen <= 4294967296 * hlen(alg), maskLen, len(result)), len(result))']},
    'first_nonzero': {'sort': 'int', 'uf': True,
                      'facts': ['0 <= result', 'result <= len(s)', 's.startswith(rep(bytes(1), result))',
                                'ite(result < len(s), nth(s, result), 1) != 0']},
    'emsa_pss_ok': 'bool', 'emsa_pss_consistent': 'bool', 'emsa_pss_em': 'bytes', 'oaep_ok': 'bool', 'oaep_em': 'bytes', 'oaep_message': 'bytes', 'oaep_decode_c': 'int',
}


def Hash(alg, data):
    pass


def hlen(alg):
    pass


def xor(a, b):
    pass


def oid_is(g_id, literal):
    """the OID string with ghost id g_id equals the given literal"""
    pass


def oid_startswith(g_id, prefix):
    pass


def oid_der(g_id):
    pass


def octets(n):
    """k = ceil(bit length of n / 8), n >= 1"""
    return (mathint.size_in_bits(n) - 1) // 8 + 1


def len_octets(n):
    """the minimum number k >= 1 of octets with n < 256^k"""
    pass


def der_len(n):
    """X.690 8.1.3.3-8.1.3.5 with 10.1 (DER): the definite form with the minimum number of length octets, n >= 0:
    one octet n for n <= 127, otherwise 0x80 + k followed by the k = len_octets(n) octets of n, big endian"""
    if n < 128:
        return bytes([n])
    return bytes([128 + len_octets(n)]) + i2osp(n, len_octets(n))


class OidStr(object):

    def __eq__(self, other):
        if isinstance(other, OidStr):
            return self.g_id == other.g_id
        if isinstance(other, str):
            return oid_is(self.g_id, other)
        return False

    def __ne__(self, other):
        return not self.__eq__(other)

    def startswith(self, prefix):
        return oid_startswith(self.g_id, prefix)


# ================================================================ section EMSA-PKCS1-v1_5 / RSAES-PKCS1-v1_5 (sig_rsa.py, pkcs1_enc.py)
from spec import der


def null_required(oid):
    """the hash is one of the MD family, arc {iso(1) member-body(2) us(840) rsadsi(113549) digestAlgorithm(2)} (id-md2 = ...2.2,
    id-md5 = ...2.5; RFC 8017 B.1): their AlgorithmIdentifier always carries NULL parameters.  For the SHA families the
    parameters may be absent or NULL and 'implementations MUST accept both' (B.1)"""
    return oid_startswith(oid, '1.2.840.113549.2.')


def digest_info(oid, with_null, h):
    """T of RFC 8017 9.2 step 2: DER of  DigestInfo ::= SEQUENCE { digestAlgorithm AlgorithmIdentifier, digest OCTET STRING }
    with AlgorithmIdentifier ::= SEQUENCE { algorithm OBJECT IDENTIFIER, parameters NULL OPTIONAL }  (A.2.4);
    X.690: SEQUENCE = 30 L content, OCTET STRING = 04 L content, NULL = 05 00, L = definite minimal length octets"""
    if with_null:
        algo_content = oid_der(oid) + b'\x05\x00'
    else:
        algo_content = oid_der(oid)
    algo = b'\x30' + der_len(len(algo_content)) + algo_content
    digest = b'\x04' + der_len(len(h)) + h
    return b'\x30' + der_len(len(algo) + len(digest)) + algo + digest


def emsa_pkcs1_v15_fits(t, emLen):
    """9.2 step 3: emLen < tLen + 11 is the error 'intended encoded message length too short'"""
    return emLen >= len(t) + 11


def emsa_pkcs1_v15(t, emLen):
    """9.2 steps 4-5: EM = 0x00 || 0x01 || PS || 0x00 || T,  PS = emLen - tLen - 3 octets 0xff (at least 8)"""
    return b'\x00\x01' + rep(b'\xff', emLen - len(t) - 3) + b'\x00' + t


def rsassa_pkcs1_v15_em(k, oid, h):
    """8.2.1 step 1 with H = Hash(M) given: EM = EMSA-PKCS1-V1_5-ENCODE(M, k); the DigestInfo of a signature always carries
    NULL parameters (B.1, 'Exception')"""
    return emsa_pkcs1_v15(digest_info(oid, True, h), k)


def rsassa_pkcs1_v15_valid(n, e, S, oid, h):
    """8.2.2 RSASSA-PKCS1-V1_5-VERIFY((n, e), M, S) outputs 'valid signature' (H = Hash(M) given)"""
    k = octets(n)
    if len(S) != k:                                     # step 1
        return False
    s = be(S)                                           # step 2a
    if not (0 <= s and s < n):                          # step 2b RSAVP1: 'signature representative out of range'
        return False
    m = pow(s, e, n)
    if m >= pow2(8 * k):                                # step 2c I2OSP: 'integer too large' (cannot occur: m < n < 256^k)
        return False
    em = i2osp(m, k)
    t1 = digest_info(oid, True, h)
    t2 = digest_info(oid, False, h)                     # B.1: the same AlgorithmIdentifier without the parameters field
    return all((emsa_pkcs1_v15_fits(t1, k),             # step 3: else 'RSA modulus too short'
                any((em == emsa_pkcs1_v15(t1, k),       # step 4
                     all((not null_required(oid), emsa_pkcs1_v15_fits(t2, k), em == emsa_pkcs1_v15(t2, k)))))))


def rsadp_crt_blinded(c, r, n, e, p, q, dp, dq, u):
    """the library's blinded private operation before unblinding: c' = c r^e mod n;  m1 = c'^dP mod p,  m2 = c'^dQ mod q,
    h = (m2 - m1) u mod q  (u = p^-1 mod q),  m' = m1 + p h   (RFC 8017 5.1.2 step 2.b with the roles of p and q exchanged).
    Under the key invariants m' == c'^d mod n == (c^d mod n) r mod n -- that identity is NOT proved by the contracts that
    mention this function (blinded CRT algebra: assumed, DESIGN C07 P1)"""
    cp = (c * pow(r, e, n)) % n
    m1 = pow(cp, dp, p)
    m2 = pow(cp, dq, q)
    h = ((m2 - m1) * u) % q
    return h * p + m1


def nonzero_draws(c0, c1):
    pass


def eme_pkcs1_v15(ps, m):
    """7.2.1 step 2b: EM = 0x00 || 0x02 || PS || 0x00 || M"""
    return b'\x00\x02' + ps + b'\x00' + m


def eme_pkcs1_v15_sep(em):
    """index of the 0x00 octet that ends PS when PS has its minimum length of 8 non-zero octets: the first zero octet at an
    index >= 10; -1 if there is none"""
    j = em[10:].find(b'\x00')
    if j < 0:
        return -1
    return 10 + j


def eme_pkcs1_v15_padded(em):
    """7.2.2 step 3: EM == 0x00 || 0x02 || PS || 0x00 || M with PS non-zero octets, len(PS) >= 8"""
    if len(em) < 11:
        return False
    if em[0] != 0 or em[1] != 2:
        return False
    if em[2] == 0 or em[3] == 0 or em[4] == 0 or em[5] == 0 or em[6] == 0 or em[7] == 0 or em[8] == 0 or em[9] == 0:
        return False                                    # a zero octet here would end a PS of fewer than 8 octets
    return eme_pkcs1_v15_sep(em) >= 0                   # else no octet 0x00 separates PS from M


def eme_pkcs1_v15_ok(em, expected):
    """... plus the library's convention that a non-zero `expected` is the only acceptable length of M"""
    return all((eme_pkcs1_v15_padded(em), any((expected == 0, len(em) - 1 - eme_pkcs1_v15_sep(em) == expected))))


def eme_pkcs1_v15_msg(em):
    """M of an EM that satisfies eme_pkcs1_v15_ok"""
    return em[eme_pkcs1_v15_sep(em) + 1:]


def pkcs1_decode_bad_args(n, ls, expected):
    """the argument refusals of the C function pkcs1_decode (DESIGN C07; src/pkcs1_decode.c proves them under C07/C17):
    n = len(em) = len(output), ls = len(sentinel), expected as the size_t the C function receives"""
    return any((n < 12, ls > n, all((expected > 0, expected > n - 11))))


# ================================================================ section MGF1 / EMSA-PSS / RSAES-OAEP (sig_pss.py, enc_oaep.py)


def ceil8(bits):
    """ceil(bits / 8)"""
    if bits % 8 == 0:
        return bits // 8
    return bits // 8 + 1


def ceil_div(a, b):
    """ceil(a / b) for a >= 0, b >= 1: the smallest integer c with c * b >= a"""
    q = a // b
    if q * b == a:
        return q
    return q + 1


def MGF(g_id, seed, length):
    """a caller-supplied mask generation function (ghost id g_id): some fixed function of (seed, length) that returns
    `length` octets (the documented interface of `mask_func` / `mgfunc`); nothing else is known about it"""
    pass


def mgf1_T(alg, seed, blocks):
    """RFC 8017 B.2.1 step 3: the string T after `blocks` iterations,
         T(0) = empty,   T(j + 1) = T(j) || Hash(mgfSeed || C),  C = I2OSP(j, 4)
    The recursion is kept as an uninterpreted symbol; its defining equation is the SIG fact (DEFINITIONAL: it is the
    recursive definition itself, instantiated at the applications that occur in a proof)."""
    pass


def mgf1(alg, seed, maskLen):
    """MGF1 (RFC 8017 B.2.1) with the hash function `alg`, for 0 <= maskLen <= 2^32 hLen (step 1: longer masks are an error,
    "mask too long"): the leading maskLen octets of T after ceil(maskLen / hLen) iterations (steps 3 and 4).
    The SIG length fact is a consequence of the definition proved with the contract of pss.MGF1 (clause `len`)."""
    return mgf1_T(alg, seed, ceil_div(maskLen, hlen(alg)))[:maskLen]


def left_mask(z):
    """the octet whose leftmost z bits are one and whose other bits are zero (z = 8 emLen - emBits in 0..7): 256 - 2^(8 - z)"""
    if z < 4:
        if z < 2:
            if z == 0:
                return 0
            return 128
        if z == 2:
            return 192
        return 224
    if z < 6:
        if z == 4:
            return 240
        return 248
    if z == 6:
        return 252
    return 254


def clear_left(x, m):
    """the octet string x (non-empty) with those bits of its leftmost octet set to zero that are one in the octet m
    (m = left_mask(z): "set the leftmost z bits of the leftmost octet to zero")"""
    return bytes([nth(x, 0) & ~m]) + x[1:]


def emsa_pss_H(alg, mHash, salt):
    """RFC 8017 9.1.1 steps 5-6 / 9.1.2 steps 12-13:  H = Hash(M'),  M' = (0x)00 00 00 00 00 00 00 00 || mHash || salt"""
    return Hash(alg, rep(bytes(1), 8) + mHash + salt)


def emsa_pss_em(alg, hLen, mHash, emBits, salt, dbMask):
    """EMSA-PSS-ENCODE, RFC 8017 9.1.1 steps 5-12, for a hash function `alg` with output length hLen, a hash value mHash,
    a salt, and dbMask = MGF(H, emLen - hLen - 1) (the caller supplies the mask because the mask generation function is a
    parameter of the scheme):
       DB = PS || 0x01 || salt, PS = emLen - sLen - hLen - 2 zero octets;  maskedDB = DB xor dbMask with the leftmost
       8 emLen - emBits bits of its leftmost octet set to zero;  EM = maskedDB || H || 0xbc"""
    emLen = ceil8(emBits)
    sLen = len(salt)
    H = emsa_pss_H(alg, mHash, salt)
    DB = rep(bytes(1), emLen - sLen - hLen - 2) + b'\x01' + salt
    maskedDB = clear_left(xor(DB, dbMask), left_mask(8 * emLen - emBits))
    return maskedDB + H + b'\xbc'


def emsa_pss_ok(alg, hLen, mHash, em, emBits, sLen, dbMask):
    """EMSA-PSS-VERIFY outputs "consistent", RFC 8017 9.1.2 steps 3-14, for a hash function `alg` with output length hLen,
    EM an octet string of length emLen = ceil(emBits / 8) (any other length: False, cf. 8.1.2 step 2c) and
    dbMask = MGF(H, emLen - hLen - 1) where H = the hLen octets of EM before the trailer (supplied by the caller, see emsa_pss_em)"""
    emLen = ceil8(emBits)
    if len(em) != emLen:
        return False
    if emLen < hLen + sLen + 2:                                     # step 3
        return False
    return emsa_pss_consistent(alg, hLen, mHash, em, emBits, sLen, dbMask)


def emsa_pss_consistent(alg, hLen, mHash, em, emBits, sLen, dbMask):
    """steps 4-14 of 9.1.2 for an EM of emLen >= hLen + sLen + 2 octets: "consistent" iff none of the steps 4, 6, 10, 14 outputs
    "inconsistent" (written as one conjunction: all([...]) evaluates without forking)"""
    emLen = ceil8(emBits)
    maskedDB = em[:emLen - hLen - 1]                                # step 5: EM = maskedDB || H || 0xbc
    H = em[emLen - hLen - 1:len(em) - 1]
    m = left_mask(8 * emLen - emBits)
    DB = clear_left(xor(maskedDB, dbMask), m)                       # steps 7-9
    salt = DB[len(DB) - sLen:]                                      # step 11: the last sLen octets of DB
    return all([nth(em, len(em) - 1) == 188,                        # step 4: the rightmost octet of EM is 0xbc
                nth(maskedDB, 0) & m == 0,                          # step 6: the leftmost 8 emLen - emBits bits of maskedDB are zero
                DB.startswith(rep(bytes(1), emLen - hLen - sLen - 2) + b'\x01'),   # step 10: DB = PS || 0x01 || salt, PS zero octets
                H == emsa_pss_H(alg, mHash, salt)])                 # steps 12-14


def pss_H(em, emBits, hLen):
    """the field H of an encoded message EM = maskedDB || H || 0xbc (9.1.2 step 5)"""
    return em[ceil8(emBits) - hLen - 1:len(em) - 1]


def pss_mgf(mgfunc, alg, seed, n):
    """the mask generation function of an RSASSA-PSS scheme object: the caller's mask_func (any callable) if one was given,
    MGF1 with the hash function of the message otherwise"""
    if mgfunc is None:
        return mgf1(alg, seed, n)
    return mgfunc(seed, n)


def pss_em(alg, hLen, mHash, modBits, salt, mgfunc):
    """RSASSA-PSS-SIGN step 1 (8.1.1): EM = EMSA-PSS-ENCODE(M, modBits - 1) for the hash value mHash and the given salt"""
    emBits = modBits - 1
    H = emsa_pss_H(alg, mHash, salt)
    return emsa_pss_em(alg, hLen, mHash, emBits, salt, pss_mgf(mgfunc, alg, H, ceil8(emBits) - hLen - 1))


def pss_fault(EM, d, e, n):
    """the library's fault check after RSASP1: s^e mod n != m for m = OS2IP(EM), s = m^d mod n"""
    return be(EM) != pow(pow(be(EM), d, n), e, n)


def pss_signature(EM, d, n, k):
    """RSASSA-PSS-SIGN steps 2a-2c (8.1.1): S = I2OSP(RSASP1(K, OS2IP(EM)), k)"""
    return i2osp(pow(be(EM), d, n), k)


def pss_accepts(alg, hLen, mHash, S, n, e, sLen, mgfunc):
    """RSASSA-PSS-VERIFY (8.1.2) outputs "valid signature": len(S) == k (step 1), s = OS2IP(S) < n (RSAVP1), m = s^e mod n
    < 256^emLen (I2OSP, step 2c), and EMSA-PSS-VERIFY(M, EM = I2OSP(m, emLen), modBits - 1) == "consistent" (steps 3-4)"""
    modBits = mathint.size_in_bits(n)
    emBits = modBits - 1
    emLen = ceil8(emBits)
    if len(S) != (modBits - 1) // 8 + 1:
        return False
    if be(S) >= n:
        return False
    m = pow(be(S), e, n)
    if m >= pow2(8 * emLen):
        return False
    EM = i2osp(m, emLen)
    return emsa_pss_ok(alg, hLen, mHash, EM, emBits, sLen, pss_mgf(mgfunc, alg, pss_H(EM, emBits, hLen), emLen - hLen - 1))


def first_nonzero(s):
    """index of the first non-zero octet of s, len(s) if there is none (uninterpreted; the SIG facts define it:
    0 <= i <= len(s), s starts with i zero octets, and s[i] != 0 when i < len(s))"""
    pass


def oaep_em(lHash, M, k, seed, mgf):
    """EME-OAEP encoding, RFC 8017 7.1.1 step 2 (b-i), for a mask generation function mgf (any callable; hLen = len(lHash)):
       DB = lHash || PS || 0x01 || M with PS = k - mLen - 2 hLen - 2 zero octets,
       dbMask = MGF(seed, k - hLen - 1), maskedDB = DB xor dbMask, seedMask = MGF(maskedDB, hLen), maskedSeed = seed xor seedMask,
       EM = 0x00 || maskedSeed || maskedDB"""
    hLen = len(lHash)
    DB = lHash + rep(bytes(1), k - len(M) - 2 * hLen - 2) + b'\x01' + M
    maskedDB = xor(DB, mgf(seed, k - hLen - 1))
    maskedSeed = xor(seed, mgf(maskedDB, hLen))
    return b'\x00' + maskedSeed + maskedDB


def oaep_db(EM, hLen, mgf):
    """RFC 8017 7.1.2 steps 3b-3f for a mask generation function mgf (any callable): EM = Y || maskedSeed || maskedDB,
       seed = maskedSeed xor MGF(maskedDB, hLen), DB = maskedDB xor MGF(seed, k - hLen - 1), k = len(EM)"""
    maskedSeed = EM[1:hLen + 1]
    maskedDB = EM[hLen + 1:]
    seed = xor(maskedSeed, mgf(maskedDB, hLen))
    return xor(maskedDB, mgf(seed, len(EM) - hLen - 1))


def oaep_ok(Y, lHash, DB):
    """RFC 8017 7.1.2 step 3g: Y == 0 and DB == lHash' || PS || 0x01 || M with lHash' == lHash and PS a (possibly empty)
    string of zero octets, i.e. the first non-zero octet after lHash' exists and is 0x01"""
    h = len(lHash)
    i = first_nonzero(DB[h:])
    return Y == 0 and len(DB) >= h and DB[:h] == lHash and h + i < len(DB) and nth(DB, h + i) == 1


def oaep_message(lHash, DB):
    """the message M of DB = lHash' || PS || 0x01 || M (meaningful when oaep_ok)"""
    h = len(lHash)
    return DB[h + first_nonzero(DB[h:]) + 1:]


def oaep_decrypt_ok(EM, hLen, lHash, mgf):
    """EME-OAEP decoding of EM succeeds (7.1.2 step 3: no "decryption error")"""
    return oaep_ok(nth(EM, 0), lHash, oaep_db(EM, hLen, mgf))


def oaep_decrypt_message(EM, hLen, lHash, mgf):
    """the message M recovered from EM (7.1.2 steps 3-4)"""
    return oaep_message(lHash, oaep_db(EM, hLen, mgf))


def oaep_decode_c(em, lHash, db):
    """the value returned by the C function oaep_decode(em, em_len, lHash, hLen, db, db_len) of src/pkcs1_decode.c as stated in
    DESIGN.md C07 and proved on the C side (contracts/c/pkcs1_decode.py): -1 for em_len < 2 hLen + 2 or db_len != em_len - 1 - hLen;
    otherwise hLen + 1 + i iff em[0] == 0, db[0..hLen) == lHash, db[hLen..hLen+i) all zero and db[hLen+i] == 1, else -1"""
    h = len(lHash)
    if len(em) < 2 * h + 2 or len(db) != len(em) - 1 - h:
        return -1
    i = first_nonzero(db[h:])
    if nth(em, 0) == 0 and db[:h] == lHash and h + i < len(db) and nth(db, h + i) == 1:
        return h + 1 + i
    return -1
