"""RFC 8017 (PKCS #1 v2.2), written from the standard.  Hash and (where a caller supplies one) MGF are uninterpreted.

  Hash(alg, data)   the hash function selected by the ghost algorithm id `alg`; hLen = hlen(alg) octets
"""

SIG = {
    'Hash': {'sort': 'bytes', 'uf': True, 'facts': ['len(result) == hlen(alg)']},
    'hlen': {'sort': 'int', 'uf': True, 'facts': ['result >= 1']},
}


def Hash(alg, data):
    pass


def hlen(alg):
    pass
