"""RFC 8032 (EdDSA: Ed25519, Ed25519ctx, Ed25519ph, Ed448, Ed448ph), written from the RFC.

The group is ABSTRACT, as in spec/fips186.py: group elements are identified by integers (ghost ids) and
   fips186.pmul(P, k)  = [k]P         fips186.padd(P, Q) = P + Q
are uninterpreted.  Two elements are equal iff their ids are equal.  The hash functions and the point codec are uninterpreted too:

   sha512t(size, data)        SHA-512 (size == 64) resp. SHA-512/224, SHA-512/256 (size == 28, 32) of data, `size` octets
   shake256_at(data, pos, n)  octets pos .. pos+n-1 of the SHAKE256 output stream for the absorbed string data
   enc(c, P)                  ENC(P), the RFC 8032 5.1.2 / 5.2.2 encoding of the group element P of parameter set c (32 / 57 octets)
   dec_ok(c, s), dec(c, s)    5.1.3 / 5.2.3: the octet string s decodes to a point / the element it decodes to
   dec_x, dec_y, pt, on_curve affine coordinates delivered by the decoder, the element with given coordinates, curve membership

Parameter sets are designated by ghost integers (the `g_id` of a curve object): ED25519, ED448.
"""
from spec import fips186

ED25519 = 25519
ED448 = 448

# RFC 8032 5.1 (Ed25519) and 5.2 (Ed448): order L of the base point, an odd prime; the curve group has order c * L with
# cofactor c = 8 resp. 4
L25519 = 2 ** 252 + 27742317777372353535851937790883648493
L448 = 2 ** 446 - 13818066809895115352007386748515426880336692474882178609894547503885

SIG = {
    'sha512t': {'sort': 'bytes', 'uf': True, 'facts': ['len(result) == size']},
    'shake256_at': {'sort': 'bytes', 'uf': True, 'facts': ['n >= 0 ==> len(result) == n']},
    'enc': {'sort': 'bytes', 'uf': True, 'facts': ['c == ED25519 ==> len(result) == 32', 'c == ED448 ==> len(result) == 57']},
    'dec_ok': {'sort': 'bool', 'uf': True},
    'dec': {'sort': 'int', 'uf': True},
    'dec_x': {'sort': 'int', 'uf': True, 'facts': ['result >= 0']},
    'dec_y': {'sort': 'int', 'uf': True, 'facts': ['result >= 0']},
    'pt': {'sort': 'int', 'uf': True},
    'on_curve': {'sort': 'bool', 'uf': True},
    'secret_scalar': {'sort': 'int', 'uf': True, 'facts': ['result >= 1']},
    'verify_ok': 'bool', 'sign': 'bytes', 'sign_r': 'int', 'sign_R': 'bytes', 'sign_S': 'int', 'pk_ok': 'bool', 'dom': 'bytes', 'H': 'bytes', 'group_eq': 'bool',
}


# ---------------------------------------------------------------- uninterpreted primitives

def sha512t(size, data):
    pass


def shake256_at(data, pos, n):
    pass


def enc(c, p):
    pass


def dec_ok(c, s):
    pass


def dec(c, s):
    pass


def dec_x(c, s):
    pass


def dec_y(c, s):
    pass


def pt(c, x, y):
    """the group element of parameter set c with affine coordinates (x, y)"""
    pass


def on_curve(c, x, y):
    pass


def secret_scalar(c, seed):
    """5.1.5 / 5.2.5 steps 1-3: the secret scalar s obtained by pruning the first half of H(seed)"""
    pass


# ---------------------------------------------------------------- parameters

def cid(name):
    """parameter set designated by a curve name accepted by ECC.construct"""
    if name == 'Ed25519' or name == 'ed25519':
        return ED25519
    return ED448


def canonical(name):
    if name == 'Ed25519' or name == 'ed25519':
        return 'Ed25519'
    return 'Ed448'


def blen(c):
    """b / 8: octet length of an encoded point and of an encoded scalar (b = 256 for Ed25519, 456 for Ed448)"""
    if c == ED25519:
        return 32
    return 57


def order(c):
    if c == ED25519:
        return L25519
    return L448


def sha512(data):
    return sha512t(64, data)


def shake256(data, n):
    """SHAKE256(data, n): the first n octets of the output"""
    return shake256_at(data, 0, n)


def H(c, data):
    """the hash H of the parameter set: SHA-512 (64 octets) for Ed25519, SHAKE256(., 114) for Ed448"""
    if c == ED25519:
        return sha512(data)
    return shake256(data, 114)


def prefix(c, seed):
    """5.1.5 / 5.2.5: the second half of H(seed)"""
    return H(c, seed)[blen(c):]


# ---------------------------------------------------------------- dom2 / dom4 (section 2)

def octet(x):
    return bytes([x])


def dom2(x, y):
    """dom2(x, y) = "SigEd25519 no Ed25519 collisions" || octet(x) || octet(OLEN(y)) || y"""
    return b'SigEd25519 no Ed25519 collisions' + octet(x) + octet(len(y)) + y


def dom4(x, y):
    """dom4(x, y) = "SigEd448" || octet(x) || octet(OLEN(y)) || y"""
    return b'SigEd448' + octet(x) + octet(len(y)) + y


def dom(c, phflag, ctx):
    """the prefix of every hash input.  5.1: "dom2(x, y) is the blank octet string when signing or verifying Ed25519" (pure, no
    context); Ed25519ctx (flag 0, non-empty context) and Ed25519ph (flag 1, any context) use dom2(F, C).  5.2: Ed448 and Ed448ph
    always use dom4(F, C).  The context is at most 255 octets (octet(OLEN(y)))."""
    if c == ED25519:
        if phflag == 0 and len(ctx) == 0:
            return b''
        return dom2(phflag, ctx)
    return dom4(phflag, ctx)


# ---------------------------------------------------------------- verification, 5.1.7 / 5.2.7

def group_eq(B, A, R, S, k):
    """[8][S]B = [8]R + [8][k]A, written with the single scalars 8*S and 8*k ([a][b]P = [ab]P, module law).
    The RFC lets a verifier check this cofactored equation (5.1.7: [8][S]B = [8]R + [8][k]A'; 5.2.7 writes the cofactor of
    edwards448, [4][S]B = [4]R + [4][k]A').  With D = [S]B - R - [k]A the two Ed448 forms say [8]D = O resp. [4]D = O; the group
    has order 4 L with L an odd prime, so the order of D divides 4 L and [8]D = O <=> ord(D) | gcd(8, 4 L) = 4 <=> [4]D = O:
    the factor 8 the library uses on both curves accepts exactly the same triples."""
    return fips186.pmul(B, 8 * S) == fips186.padd(fips186.pmul(R, 8), fips186.pmul(A, 8 * k))


def verify_ok(c, B, A, ctx, phflag, PHM, sig):
    """5.1.7 / 5.2.7 for the public key A (a group element; its encoding ENC(A) enters the hash), context ctx, flag phflag and
    (pre-hashed) message PHM:
    1. the signature is two b/8-octet halves; the first decodes as a point R, the second as an integer S in {0, ..., L-1};
       "if any of the decodings fail (including S being out of range), the signature is invalid"
    2. k = H(dom(F, C) || R || A || PH(M)) interpreted as a little-endian integer.  It is reduced mod L here, as 5.1.6 / 5.2.6 do
       when signing: [8][k]A = [8][k mod L]A because [8]A lies in the subgroup of order L (the group has order 8 L resp. 4 L)
    3. the group equation"""
    b = blen(c)
    if len(sig) != 2 * b:
        return False
    Renc = sig[:b]
    if not dec_ok(c, Renc):
        return False
    S = le(sig[b:])
    if S >= order(c):
        return False
    k = le(H(c, dom(c, phflag, ctx) + Renc + enc(c, A) + PHM)) % order(c)
    return group_eq(B, A, dec(c, Renc), S, k)


# ---------------------------------------------------------------- signing, 5.1.6 / 5.2.6

def sign_r(c, pfx, ctx, phflag, PHM):
    """step 2: r = H(dom2(F, C) || prefix || PH(M)) as a little-endian integer, reduced mod L"""
    return le(H(c, dom(c, phflag, ctx) + pfx + PHM)) % order(c)


def sign_R(c, B, pfx, ctx, phflag, PHM):
    """step 3: R = ENC([r]B)"""
    return enc(c, fips186.pmul(B, sign_r(c, pfx, ctx, phflag, PHM)))


def sign_S(c, B, s, pfx, A, ctx, phflag, PHM):
    """step 4: k = H(dom2(F, C) || R || A || PH(M)) mod L;  step 5: S = (r + k * s) mod L"""
    L = order(c)
    k = le(H(c, dom(c, phflag, ctx) + sign_R(c, B, pfx, ctx, phflag, PHM) + enc(c, A) + PHM)) % L
    return (sign_r(c, pfx, ctx, phflag, PHM) + k * s) % L


def sign(c, B, s, pfx, A, ctx, phflag, PHM):
    """5.1.6 / 5.2.6 with (s, prefix) from the private key (step 1) and the public key A = [s]B:
    step 6: the signature is R || the little-endian b/8-octet encoding of S"""
    return sign_R(c, B, pfx, ctx, phflag, PHM) + i2le(sign_S(c, B, s, pfx, A, ctx, phflag, PHM), blen(c))


# ---------------------------------------------------------------- raw public keys, 5.1.5 / 5.2.5 (import_public_key)

def pk_ok(e):
    """a raw EdDSA public key: 32 octets that decode on edwards25519 or 57 octets that decode on edwards448"""
    if len(e) == 32:
        return dec_ok(ED25519, e)
    if len(e) == 57:
        return dec_ok(ED448, e)
    return False


def pk_curve(e):
    if len(e) == 32:
        return ED25519
    return ED448
