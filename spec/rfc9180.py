"""RFC 9180 (Hybrid Public Key Encryption), written from the RFC (C15, C11).

Uninterpreted symbols (only congruence and the listed size facts are known of them):
  DH(kem, sk, pk)            4.1: the Diffie-Hellman function of the group of KEM `kem`; the private key is designated by
                             the serialization of ITS public key (sk = SerializePublicKey(pk(skX))), pk by
                             SerializePublicKey(pkY), so both arguments are byte strings
  dh_invalid(kem, pk)        7.1.4: DH(sk, pk) is the point at infinity / the all-zero value, so the operation must abort.
                             For a well-formed private key (C05: NIST scalar in [1, n-1], X25519/X448 clamped scalar) this
                             depends on pk only (pk of order dividing the cofactor), which is why sk is not an argument
  pk_ok(kem, enc)            7.1.1 DeserializePublicKey(enc) succeeds, validation of 7.1.4 included; known of it: enc has
                             Npk bytes and, for the NIST groups, is the UNCOMPRESSED SEC1 string (first octet 0x04)
  pk_canon(kem, enc)         SerializePublicKey(DeserializePublicKey(enc))
  aead_ct / aead_tag(fam, key, nonce, aad, pt)   RFC 5116 AEAD encryption: ciphertext proper and 16-byte tag
                             (fam 1: AEAD_AES_128_GCM / AEAD_AES_256_GCM, the AES variant being fixed by len(key);
                              fam 2: AEAD_CHACHA20_POLY1305, RFC 8439)
  aead_open_ok(fam, key, nonce, aad, c)          RFC 5116 2.2: authenticated decryption of c = ct || tag does not FAIL
HKDF comes from spec.kdf (RFC 5869 over the uninterpreted HMAC); hash identities are the integers of spec.kdf.hlen."""

from . import kdf

SIG = {
    'DH': {'sort': 'bytes', 'uf': True},
    'dh_invalid': {'sort': 'bool', 'uf': True},
    'pk_ok': {'sort': 'bool', 'uf': True,
              # result ==> len(enc) == Npk;  (result and kem is a NIST group) ==> enc[0] == 4      (written without forks)
              'facts': ['ite(result, len(enc), kem_npk(kem)) == kem_npk(kem)',
                        'ite(result, ite(kem < 0x0020, nth(enc, 0), 4), 4) == 4']},
    'pk_canon': {'sort': 'bytes', 'uf': True},
    'aead_ct': {'sort': 'bytes', 'uf': True, 'facts': ['len(result) == len(pt)']},
    'aead_tag': {'sort': 'bytes', 'uf': True, 'facts': ['len(result) == 16']},
    'aead_open_ok': {'sort': 'bool', 'uf': True},
    # result sorts of the defined functions (for `opaque=`)
    'suite_id_kem': 'bytes', 'suite_id_hpke': 'bytes', 'labeled_extract': 'bytes', 'labeled_expand': 'bytes',
    'extract_and_expand': 'bytes', 'dhkem_secret': 'bytes', 'kem_of_curve': 'int', 'kem_hash': 'int', 'kem_nsecret': 'int',
    'kem_npk': 'int', 'coord_size': 'int', 'kdf_hash': 'int', 'kdf_nh': 'int', 'lib_kdf_of_kem': 'int', 'aead_nk': 'int', 'aead_family': 'int',
    'aead_seal': 'bytes', 'nonce': 'bytes', 'psk_inputs_ok': 'bool', 'mode_of': 'int',
    'ks_context': 'bytes', 'ks_secret': 'bytes', 'ks_key': 'bytes', 'ks_base_nonce': 'bytes', 'ks_exporter_secret': 'bytes',
}


# ====================================================================== primitives (never revealed)
def DH(kem, sk, pk):
    pass


def dh_invalid(kem, pk):
    pass


def pk_ok(kem, enc):
    pass


def pk_canon(kem, enc):
    pass


def aead_ct(fam, key, nonce, aad, pt):
    pass


def aead_tag(fam, key, nonce, aad, pt):
    pass


def aead_open_ok(fam, key, nonce, aad, c):
    pass


# ====================================================================== 7.1 - 7.3 registries
def kem_of_curve(curve):
    """7.1, Table 2: the DHKEM of a group (0 = the group has no KEM in the registry)"""
    if curve == 'NIST P-256':
        return 0x0010
    if curve == 'NIST P-384':
        return 0x0011
    if curve == 'NIST P-521':
        return 0x0012
    if curve == 'Curve25519':
        return 0x0020
    if curve == 'Curve448':
        return 0x0021
    return 0


def kem_hash(kem_id):
    """Table 2: the hash of the KEM's own KDF: DHKEM(P-256, HKDF-SHA256), (P-384, HKDF-SHA384), (P-521, HKDF-SHA512),
    (X25519, HKDF-SHA256), (X448, HKDF-SHA512)"""
    return ite(kem_id in (0x0010, 0x0020), 256, ite(kem_id == 0x0011, 384, 512))


def kem_nsecret(kem_id):
    """Table 2, column Nsecret"""
    return ite(kem_id in (0x0010, 0x0020), 32, ite(kem_id == 0x0011, 48, 64))


def kem_npk(kem_id):
    """Table 2, columns Nenc = Npk"""
    return ite(kem_id == 0x0010, 65, ite(kem_id == 0x0011, 97, ite(kem_id == 0x0012, 133, ite(kem_id == 0x0020, 32, 56))))


def coord_size(curve):
    """SEC1 2.3.5: octets of one field element, ceil(log2(q)/8), of the NIST groups of Table 2 (0: not one of them)"""
    if curve == 'NIST P-256':
        return 32
    if curve == 'NIST P-384':
        return 48
    if curve == 'NIST P-521':
        return 66
    return 0


def kdf_hash(kdf_id):
    """7.2, Table 3: 0x0001 HKDF-SHA256, 0x0002 HKDF-SHA384, 0x0003 HKDF-SHA512"""
    return ite(kdf_id == 0x0001, 256, ite(kdf_id == 0x0002, 384, 512))


def kdf_nh(kdf_id):
    """Table 3, column Nh"""
    return ite(kdf_id == 0x0001, 32, ite(kdf_id == 0x0002, 48, 64))


def lib_kdf_of_kem(kem_id):
    """the library's suites: the HPKE KDF is the HKDF over the hash the KEM itself uses"""
    return ite(kem_id in (0x0010, 0x0020), 0x0001, ite(kem_id == 0x0011, 0x0002, 0x0003))


def aead_nk(aead_id):
    """7.3, Table 5, column Nk: 0x0001 AES-128-GCM 16, 0x0002 AES-256-GCM 32, 0x0003 ChaCha20Poly1305 32   (Nn = 12, Nt = 16 for all)"""
    return ite(aead_id == 0x0001, 16, 32)


def aead_family(aead_id):
    return ite(aead_id in (0x0001, 0x0002), 1, 2)


def aead_seal(aead_id, key, nonce, aad, pt):
    """Seal(key, nonce, aad, pt) of the suite's AEAD: ciphertext with the tag appended (RFC 5116 5.1 / RFC 8439 2.8)"""
    return aead_ct(aead_family(aead_id), key, nonce, aad, pt) + aead_tag(aead_family(aead_id), key, nonce, aad, pt)


# ====================================================================== 4: labeled KDF functions
def suite_id_kem(kem_id):
    """4.1: suite_id = concat("KEM", I2OSP(kem_id, 2))"""
    return b"KEM" + i2osp(kem_id, 2)


def suite_id_hpke(kem_id, kdf_id, aead_id):
    """5.1: suite_id = concat("HPKE", I2OSP(kem_id, 2), I2OSP(kdf_id, 2), I2OSP(aead_id, 2))"""
    return b"HPKE" + i2osp(kem_id, 2) + i2osp(kdf_id, 2) + i2osp(aead_id, 2)


def labeled_extract(alg, salt, label, ikm, suite_id):
    """labeled_ikm = concat("HPKE-v1", suite_id, label, ikm); return Extract(salt, labeled_ikm)"""
    return kdf.hkdf_extract(alg, salt, b"HPKE-v1" + suite_id + label + ikm)


def labeled_expand(alg, prk, label, info, L, suite_id):
    """labeled_info = concat(I2OSP(L, 2), "HPKE-v1", suite_id, label, info); return Expand(prk, labeled_info, L)"""
    return kdf.hkdf_expand(alg, prk, i2osp(L, 2) + b"HPKE-v1" + suite_id + label + info, L)


def extract_and_expand(alg, dh, kem_context, suite_id, nsecret):
    """4.1: eae_prk = LabeledExtract("", "eae_prk", dh); LabeledExpand(eae_prk, "shared_secret", kem_context, Nsecret)"""
    return labeled_expand(alg, labeled_extract(alg, b"", b"eae_prk", dh, suite_id), b"shared_secret", kem_context, nsecret, suite_id)


def dhkem_secret(kem_id, dh, kem_context):
    """4.1 ExtractAndExpand of DHKEM(kem_id): the KEM's own hash, suite_id and Nsecret (Table 2)"""
    return extract_and_expand(kem_hash(kem_id), dh, kem_context, suite_id_kem(kem_id), kem_nsecret(kem_id))


# ====================================================================== 5.1: modes, PSK inputs, key schedule
def mode_of(has_sender_key, has_psk):
    """Table 1: mode_base 0x00, mode_psk 0x01, mode_auth 0x02, mode_auth_psk 0x03"""
    if has_sender_key:
        if has_psk:
            return 3
        return 2
    if has_psk:
        return 1
    return 0


def psk_inputs_ok(mode, psk, psk_id):
    """VerifyPSKInputs does not raise (default_psk = default_psk_id = ""), and the PSK has the 32 bytes that 9.5
    demands ("MUST have at least 32 bytes of entropy"; the library refuses shorter ones)"""
    got_psk = len(psk) != 0
    got_psk_id = len(psk_id) != 0
    if got_psk != got_psk_id:
        return False                      # "Inconsistent PSK inputs"
    if got_psk and (mode == 0 or mode == 2):
        return False                      # "PSK input provided when not needed"
    if (not got_psk) and (mode == 1 or mode == 3):
        return False                      # "Missing required PSK input"
    if got_psk and len(psk) < 32:
        return False
    return True


def ks_context(alg, suite_id, mode, psk_id, info):
    """psk_id_hash = LabeledExtract("", "psk_id_hash", psk_id); info_hash = LabeledExtract("", "info_hash", info);
    key_schedule_context = concat(mode, psk_id_hash, info_hash)"""
    return i2osp(mode, 1) + labeled_extract(alg, b"", b"psk_id_hash", psk_id, suite_id) + labeled_extract(alg, b"", b"info_hash", info, suite_id)


def ks_secret(alg, suite_id, shared_secret, psk):
    """secret = LabeledExtract(shared_secret, "secret", psk)"""
    return labeled_extract(alg, shared_secret, b"secret", psk, suite_id)


def ks_key(alg, suite_id, mode, shared_secret, info, psk, psk_id, nk):
    """key = LabeledExpand(secret, "key", key_schedule_context, Nk)"""
    return labeled_expand(alg, ks_secret(alg, suite_id, shared_secret, psk), b"key", ks_context(alg, suite_id, mode, psk_id, info), nk, suite_id)


def ks_base_nonce(alg, suite_id, mode, shared_secret, info, psk, psk_id):
    """base_nonce = LabeledExpand(secret, "base_nonce", key_schedule_context, Nn),  Nn = 12"""
    return labeled_expand(alg, ks_secret(alg, suite_id, shared_secret, psk), b"base_nonce", ks_context(alg, suite_id, mode, psk_id, info), 12, suite_id)


def ks_exporter_secret(alg, suite_id, mode, shared_secret, info, psk, psk_id, nh):
    """exporter_secret = LabeledExpand(secret, "exp", key_schedule_context, Nh)"""
    return labeled_expand(alg, ks_secret(alg, suite_id, shared_secret, psk), b"exp", ks_context(alg, suite_id, mode, psk_id, info), nh, suite_id)


# ====================================================================== 5.2: nonces
def nonce(base_nonce, seq):
    """ComputeNonce: seq_bytes = I2OSP(seq, Nn); return xor(base_nonce, seq_bytes)        (Nn = 12)"""
    return bytes_xor(base_nonce, i2osp(seq, 12))


# ====================================================================== history lemmas (C15 / C11): client programs
# Restricted-Python clients of a context object.  PYVC verifies them against the CONTRACTS of seal()/unseal() (not their
# bodies); each is one step of the induction over an arbitrary history of messages offered to a context (the message is an
# arbitrary byte string: genuine, modified, replayed, truncated, out of order ...).

def receiver_step(ctx, accepted, ciphertext, aad):
    """one message offered to a receiving context; `accepted` counts the messages opened so far"""
    try:
        ctx.unseal(ciphertext, aad)
        accepted = accepted + 1
    except ValueError:
        pass
    return accepted


def sender_step(ctx, sent, plaintext, aad):
    """one seal() on a sending context; `sent` counts the messages sealed so far.  Returns (sent', message or None)"""
    try:
        msg = ctx.seal(plaintext, aad)
        sent = sent + 1
    except ValueError:
        msg = None
    return sent, msg
