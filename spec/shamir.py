"""Shamir secret sharing over GF(2^128) (Shamir 1979; ssss variant: share = p(x) + x^k).
Field elements are integers < 2^128; addition is xor."""
from . import gf128

SIG = {}


def horner(coeffs, x):
    """p(x) for p = coeffs[0]*X^(k-1) + ... + coeffs[k-1]  (coeffs[k-1] is the secret)"""
    share = 0
    for c in coeffs:
        share = gf128.mul(x, share) ^ c
    return share


def share(coeffs, x, ssss):
    s = horner(coeffs, x)
    if ssss:
        s = s ^ gf128.power(x, len(coeffs))
    return s


def lagrange_at_zero(xs, ys):
    """sum_j  (y_j * prod_{m != j} x_m) * (prod_{m != j} (x_j + x_m))^-1   (characteristic 2: x_j - x_m = x_j + x_m)"""
    k = len(xs)
    result = 0
    for j in range(k):
        num = 1
        den = 1
        for m in range(k):
            if m != j:
                num = gf128.mul(num, xs[m])
                den = gf128.mul(den, xs[j] ^ xs[m])
        result = result ^ gf128.mul(gf128.mul(ys[j], num), gf128.inv(den))
    return result


def combine(xs, vs, ssss):
    k = len(xs)
    ys = [(vs[j] ^ gf128.power(xs[j], k)) if ssss else vs[j] for j in range(k)]
    return lagrange_at_zero(xs, ys)


def distinct(xs):
    return all(xs[a] != xs[b] for a in range(len(xs)) for b in range(a))
