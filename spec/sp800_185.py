"""NIST SP 800-185 (cSHAKE, KMAC, TupleHash), section 2.3: integer and string encodings, written from the standard.
All strings are byte strings here (the standard works on bit strings; every string this library handles is byte aligned,
so enc8() is the byte itself and the "append 0 bits until len(z) mod 8 == 0" loop of bytepad adds nothing).

  2.3.1  left_encode(x), right_encode(x), valid for 0 <= x < 2**2040:
           1. Let n be the smallest positive integer for which 2**(8n) > x.
           2. Let x_1, ..., x_n be the base-256 encoding of x (x = sum 2**(8(n-i)) * x_i).
           3. O_i = enc8(x_i).   4. left: O_0 = enc8(n), result O_0 || O_1 .. O_n;  right: O_{n+1} = enc8(n), result O_1 .. O_n || O_{n+1}
  2.3.2  encode_string(S) = left_encode(len(S) in bits) || S, valid for 0 <= len(S) < 2**2040 bits
  2.3.3  bytepad(X, w), w > 0:  z = left_encode(w) || X;  while (len(z)/8) mod w != 0: z = z || 00000000;  return z
  3.3    cSHAKE128(X, L, N, S) = SHAKE128(X, L) when N and S are empty, else
           KECCAK[256](bytepad(encode_string(N) || encode_string(S), 168) || X || 00, L)
         (rate 168 for cSHAKE128, 136 for cSHAKE256; the two bits 00 + the first pad bit are the domain byte 0x04, SHAKE's 1111 + pad bit
         are 0x1F)
  4.3    KMAC128(K, X, L, S):  newX = bytepad(encode_string(K), 168) || X || right_encode(L);  cSHAKE128(newX, L, "KMAC", S)
         (136 for KMAC256; L in bits)
  5.3    TupleHash128(X, L, S): z = encode_string(X[1]) || ... || encode_string(X[m]);  newX = z || right_encode(L);
         cSHAKE128(newX, L, "TupleHash", S)
"""

SIG = {
    # step 1 of 2.3.1, verbatim: the smallest positive integer n with 2**(8n) > x.  Existence and uniqueness for every
    # x >= 0 are elementary; the three conjuncts below are exactly "positive", "2**(8n) > x" and "no smaller positive n does".
    # (not 'uf': the proofs of _left_encode/_right_encode list enc_n as opaque and use ONLY these facts; the executable body
    # below serves the native replay of counter-models, where x is a concrete integer)
    'enc_n': {'sort': 'int',
              'facts': ['x >= 0 ==> (result >= 1 and x < pow2(8 * result) and (result == 1 or x >= pow2(8 * (result - 1))))']},
    'left_encode': 'bytes', 'right_encode': 'bytes', 'encode_string': 'bytes', 'bytepad': 'bytes', 'pad_count': 'int[nat]',
    'cshake_prefix': 'bytes', 'cshake_domain': 'int[nat]', 'kmac_key_block': 'bytes',
}


def enc_n(x):
    """executable form for concrete x (replay only): 2**(8n) > x  <=>  8n >= bit_length(x), so n = max(1, ceil(bit_length(x) / 8))"""
    if x == 0:
        return 1
    return (x.bit_length() + 7) // 8


def left_encode(x):
    n = enc_n(x)
    return bytes([n]) + i2osp(x, n)


def right_encode(x):
    n = enc_n(x)
    return i2osp(x, n) + bytes([n])


def encode_string(s):
    return left_encode(8 * len(s)) + s


def pad_count(zlen, w):
    """number of zero bytes the loop of 2.3.3 appends to a string of zlen bytes: the least k >= 0 with (zlen + k) mod w == 0"""
    return (w - zlen % w) % w


def bytepad(x, w):
    z = left_encode(w) + x
    return z + rep(b'\x00', pad_count(len(z), w))


def cshake_prefix(n, s, rate):
    """what KECCAK absorbs before the message X in cSHAKE (3.3); nothing when N and S are both empty (then cSHAKE is SHAKE)"""
    if len(n) == 0 and len(s) == 0:
        return b''
    return bytepad(encode_string(n) + encode_string(s), rate)


def cshake_domain(n, s):
    """first-squeeze padding byte: SHAKE suffix 1111 -> 0x1F, cSHAKE suffix 00 -> 0x04"""
    if len(n) == 0 and len(s) == 0:
        return 0x1F
    return 0x04


def kmac_key_block(key, rate):
    return bytepad(encode_string(key), rate)
