#!/bin/bash
# usage: confirm_seed.sh <worktree> <mutant dir (under worktree)> <out file>
# confirms, in the scratch worktree: demo passes on the clean tree, patch applies, tree builds, demo FAILS with the patch,
# the whole existing suite has the same set of failing test ids as the clean tree; then restores the tree.
WT=$1; M=$2; OUT=$3
cd $WT || exit 9
export PYTHONPATH=$WT/lib
git checkout -q -- . ; git status --short | grep -v '^??' && { echo "tree not clean" > $OUT; exit 9; }
run_suite() { /venv/bin/python -m pytest -q -p no:cacheprovider --timeout=900 --continue-on-collection-errors lib/Crypto/SelfTest -rfE 2>&1 | grep -E "^(FAILED|ERROR)" | sed 's/ - .*//' | sort > $1; }
if [ ! -f $WT/mutants/_baseline_ids.txt ]; then run_suite $WT/mutants/_baseline_ids.txt; fi
{
echo "baseline failing ids: $(wc -l < $WT/mutants/_baseline_ids.txt)"
/venv/bin/python $M/demo.py > /dev/null 2>&1; echo "demo on clean tree: exit $?"
git apply $M/patch.diff && echo "patch applies"
if grep -q '^+++ b/src/' $M/patch.diff; then touch src/*.c; /venv/bin/python setup.py build_ext --inplace -j8 > /dev/null 2>&1; echo "rebuild: exit $?"; fi
/venv/bin/python -c "import Crypto.Cipher.AES, Crypto.PublicKey.ECC, Crypto.Hash.SHA256" && echo "imports ok"
/venv/bin/python $M/demo.py > /dev/null 2>&1; echo "demo with patch: exit $?"
run_suite /tmp/ids_$$.txt
if diff -q $WT/mutants/_baseline_ids.txt /tmp/ids_$$.txt > /dev/null; then echo "suite: same failing id set as clean tree ($(wc -l < /tmp/ids_$$.txt))"; else echo "suite: DIFFERENT failing ids:"; diff $WT/mutants/_baseline_ids.txt /tmp/ids_$$.txt | head; fi
rm -f /tmp/ids_$$.txt
git checkout -q -- .
if grep -q '^+++ b/src/' $M/patch.diff; then touch src/*.c; /venv/bin/python setup.py build_ext --inplace -j8 > /dev/null 2>&1; fi
} > $OUT 2>&1
