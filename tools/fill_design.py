#!/usr/bin/env python3
"""Regenerates the generated tables inside DESIGN.md (seeded changes, per-property status)."""
import os, re, subprocess
ROOT = os.path.dirname(os.path.dirname(os.path.abspath(__file__)))
p = os.path.join(ROOT, 'DESIGN.md')
s = open(p).read()
for tag, tool in (('SEEDED-TABLE', 'seeded_table.py'), ('STATUS-TABLE', 'status_table.py')):
    out = subprocess.run(['python3', os.path.join(ROOT, 'tools', tool)], capture_output=True, text=True).stdout
    s = re.sub(r'<!-- %s-BEGIN -->.*?<!-- %s-END -->' % (tag, tag), lambda m: '<!-- %s-BEGIN -->\n%s<!-- %s-END -->' % (tag, out, tag), s, flags=re.S)
open(p, 'w').write(s)
print('DESIGN.md tables regenerated')
