#!/usr/bin/env python3
"""keep a confirmed seeded change: tools/keep_seed.py <prop> <worktree> <mN> <seed id> <detected_by comma list> <status text>"""
import json, os, shutil, sys
prop, wt, m, sid, detected, status = sys.argv[1:7]
src = os.path.join(wt, 'mutants', m)
dst = os.path.join('/verif/seeded', sid)
os.makedirs(dst, exist_ok=True)
for f in ('patch.diff', 'demo.py', 'notes.txt'):
    shutil.copy(os.path.join(src, f), dst)
conf = open('/tmp/confirm_%s_%s.txt' % (prop, m)).read()
open(os.path.join(dst, 'confirmed.txt'), 'w').write(conf)
notes = open(os.path.join(src, 'notes.txt')).read()
meta = {'id': sid, 'property': prop, 'origin': 'fresh sub-agent given only the property text and a scratch worktree',
        'needs_to_manifest': notes.strip().split('\n\n')[0][:1200],
        'confirmed_by_me': {'how': 'tools/confirm_seed.sh in the scratch worktree: demo exit 0 on the clean tree, patch applies, tree builds/imports, '
                                   'demo exit != 0 with the patch, whole existing suite: same failing-id set as the clean tree', 'log': conf},
        'detected_by': [d for d in detected.split(',') if d], 'check_result': status}
json.dump(meta, open(os.path.join(dst, 'meta.json'), 'w'), indent=1)
print('kept', dst)
