#!/usr/bin/env python3
"""Regenerates MANIFEST.json from props/Cxx.py (MANIFEST dict) so that it is always schema-valid."""
import importlib, json, os, sys
ROOT = os.path.dirname(os.path.dirname(os.path.abspath(__file__)))
sys.path.insert(0, ROOT)
props = [json.loads(l) for l in open(os.path.join(ROOT, 'properties.jsonl'))]
checks, na, engines = [], [], {}
ENTRIES = json.load(open(os.path.join(ROOT, 'props', 'entries.json')))
for p in props:
    pid = p['id']
    e = ENTRIES.get(pid)
    if not e or e.get('not_applicable'):
        na.append({'property_id': pid, 'reason': (e or {}).get('not_applicable', 'contracts designed (DESIGN.md section 3) but the check is not built yet')})
        continue
    c = {'property_id': pid, 'quick_cmd': './verify check %s --tier quick' % pid,
         'thorough_cmd': './verify check %s --tier thorough' % pid,
         'evidence_file': 'evidence/%s.json' % pid, 'replay_cmd_template': './verify replay {path}',
         'engine': e.get('engine', 'PYVC'),
         'level_claimed': {'category': e.get('level', 'proof'), 'text': e['text'], 'design_ref': e.get('design_ref', 'DESIGN.md 3 ' + pid)},
         'level_note': e['note'], 'technique': e.get('technique', 'contract-based deductive verification: sidecar contracts on the real functions, VCs generated from the current source, discharged by z3/cvc5')}
    checks.append(c)
    for en in e.get('engine', 'PYVC').split('+'):
        engines.setdefault(en.strip(), []).append(pid)
ENG = {'PYVC': ('vf/pyvc', 'symbolic executor / VC generator over the Python AST of the real /repo/lib sources, sidecar contracts, z3+cvc5'),
       'CVC': ('vf/cvc', 'symbolic executor / VC generator over clang-14 typed JSON AST of the real /repo/src/*.c, bit-precise, z3'),
       'CVC-ALG': ('vf/cvc_alg', 'algebraic mode for EC formula code: polynomial identities modulo the curve equation, sympy exact normal form'),
       'LEAN': ('lemmas', 'Lean 4 + Mathlib spec-level lemmas'),
       'BOUNDED': ('bounded', 'run-time contract harnesses against independent spec functions on stated bounded input sets (never counted as proved)')}
man = {'version': 1, 'setup_cmd': './verify setup',
       'hooks': {'guard': 'PYCRYPTODOME_VERIF', 'enable': 'no hooks: contracts are sidecars under /verif/contracts; nothing in /repo is instrumented',
                 'baseline_off_cmd': 'cd /repo && /venv/bin/python -m pytest -ra -q -p no:cacheprovider --timeout=900 --continue-on-collection-errors',
                 'source_commits': [], 'add_only': True},
       'engines': [{'name': k, 'path': ENG[k][0], 'serves_properties': sorted(v), 'kind_free_text': ENG[k][1]} for k, v in engines.items() if k in ENG],
       'checks': checks, 'notes': 'see DESIGN.md; exit codes: 0 held, 1 VIOLATION, 2 undecided, 3 checker error', 'not_applicable': na}
json.dump(man, open(os.path.join(ROOT, 'MANIFEST.json'), 'w'), indent=1)
try:
    import jsonschema
    jsonschema.validate(man, json.load(open('/root/.vp/MANIFEST.schema.json')))
    print('MANIFEST.json valid: %d checks, %d not_applicable' % (len(checks), len(na)))
except ImportError:
    print('written (jsonschema not available)')
