#!/usr/bin/env python3
"""Developer tool: run a check against a scratch copy of /repo with one textual mutation applied.
usage: tools/mut.py <prop> <relative file> <old text> <new text> [--only substr]
The copy is a symlink tree under a fresh temp dir (outside /repo and /verif) and is removed afterwards."""
import os, shutil, subprocess, sys, tempfile

def main():
    prop, rel, old, new = sys.argv[1:5]
    extra = sys.argv[5:]
    tmp = tempfile.mkdtemp(prefix='vmut_')
    try:
        for d in ('lib', 'src'):
            subprocess.check_call(['cp', '-as', '/repo/' + d, os.path.join(tmp, d)])
        p = os.path.join(tmp, rel)
        s = open(p).read()
        if s.count(old) != 1:
            print('mutation site not unique: %d occurrences' % s.count(old)); return 9
        os.unlink(p)
        open(p, 'w').write(s.replace(old, new))
        env = dict(os.environ, VERIF_REPO_LIB=os.path.join(tmp, 'lib'), VERIF_REPO_SRC=os.path.join(tmp, 'src'),
                   VERIF_EVIDENCE_DIR=os.path.join(tmp, 'evidence'))
        r = subprocess.run(['/verif/verify', 'check', prop] + extra, env=env, cwd='/verif')
        print('exit', r.returncode)
        return r.returncode
    finally:
        shutil.rmtree(tmp, ignore_errors=True)

sys.exit(main())
