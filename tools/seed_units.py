#!/usr/bin/env python3
"""Re-validates kept seeded changes against the CURRENT machinery and records, in each meta.json, which units / obligations report them:
   tools/seed_units.py [substr ...]   -> for every seeded/<id> (matching a substr): run the full check of its property on a scratch copy with
   the patch applied, require exit 1 (unless the meta says missed), store `only` (unit ids that reported a violation: ./verify selftest
   then runs just those), `detected_by` (failing obligation ids) and `last_validated`."""
import glob, json, os, shutil, subprocess, sys, tempfile, time
ROOT = os.path.dirname(os.path.dirname(os.path.abspath(__file__)))
subs = sys.argv[1:]
for meta in sorted(glob.glob(os.path.join(ROOT, 'seeded', '*', 'meta.json'))):
    d = os.path.dirname(meta)
    name = os.path.basename(d)
    if subs and not any(s in name for s in subs):
        continue
    m = json.load(open(meta))
    rd = tempfile.mkdtemp(prefix='vsu_')
    t0 = time.time()
    props = m.get('checked_props') or [m['property']]
    codes, units, obls = {}, set(), set()
    for prop in props:
        r = subprocess.run([sys.executable, os.path.join(ROOT, 'tools', 'seeded.py'), os.path.join(d, 'patch.diff'), prop],
                           env=dict(os.environ, VERIF_SEEDED_REPLAYS=rd, VERIF_SEED=os.environ.get('VERIF_SEED', '1')), capture_output=True, text=True)
        codes[prop] = r.returncode
        for f in glob.glob(os.path.join(rd, '%s_*.json' % prop)):
            try:
                j = json.load(open(f))
            except Exception:      # noqa
                continue
            if j.get('unit'):
                units.add(j['unit'].split('.', 1)[1] if j['unit'].startswith(prop + '.') else j['unit'])
            obls.add(j.get('obligation'))
    shutil.rmtree(rd, ignore_errors=True)
    m['exit_codes'] = codes
    m['last_validated'] = time.strftime('%Y-%m-%d %H:%M')
    if any(c == 1 for c in codes.values()):
        m['only'] = sorted(units)
        m['detected_by'] = sorted(x for x in obls if x)[:12]
        m['missed'] = False
    else:
        m['missed'] = True
    json.dump(m, open(meta, 'w'), indent=1)
    print('%-45s %s  %s  %.0fs  units=%s' % (name, codes, 'DETECTED' if not m['missed'] else 'MISSED', time.time() - t0, sorted(units)[:4]), flush=True)
