#!/usr/bin/env python3
"""Run checks against a seeded change WITHOUT touching /repo: the patch is applied to a scratch copy of /repo (lib + src + setup files,
real files, not symlinks; removed afterwards) and the checks are pointed at it with VERIF_REPO.
usage: tools/seeded.py <patch.diff> <prop> [<prop> ...] [-- extra verify args]      exit code = max exit code of the checks"""
import os, shutil, subprocess, sys, tempfile


def main():
    args = sys.argv[1:]
    extra = []
    if '--' in args:
        i = args.index('--')
        args, extra = args[:i], args[i + 1:]
    patch, props = os.path.abspath(args[0]), args[1:]
    tmp = tempfile.mkdtemp(prefix='vseed_')
    root = os.path.join(tmp, 'repo')
    os.makedirs(root)
    try:
        for d in ('lib', 'src'):
            shutil.copytree('/repo/' + d, os.path.join(root, d), symlinks=True)
        for f in ('setup.py', 'compiler_opt.py', 'pyproject.toml', 'setup.cfg', 'README.rst', 'MANIFEST.in'):
            if os.path.exists('/repo/' + f):
                shutil.copy('/repo/' + f, root)
        r = subprocess.run(['patch', '-p1', '-s', '-i', patch], cwd=root)
        if r.returncode:
            print('patch did not apply')
            return 9
        changed_c = subprocess.run(['grep', '-c', '^+++ b/src/', patch], capture_output=True, text=True).stdout.strip() not in ('', '0')
        if changed_c:
            b = subprocess.run(['/venv/bin/python', 'setup.py', 'build_ext', '--inplace', '-j8'], cwd=root, capture_output=True, text=True)
            if b.returncode:
                print('scratch copy does not build:\n' + b.stderr[-2000:])
                return 9
        env = dict(os.environ, VERIF_REPO=root, VERIF_EVIDENCE_DIR=os.path.join(tmp, 'evidence'))
        if os.environ.get('VERIF_SEEDED_REPLAYS'):
            # developer runs: keep the replay files of this run apart (tools/seed_units.py reads the failing units from them)
            env['VERIF_REPLAY_DIR'] = os.environ['VERIF_SEEDED_REPLAYS']
        env.pop('VERIF_REPO_LIB', None)
        worst = 0
        for p in props:
            r = subprocess.run(['/verif/verify', 'check', p] + extra, env=env, cwd='/verif')
            print('== %s exit %d' % (p, r.returncode))
            worst = max(worst, r.returncode)
        return worst
    finally:
        shutil.rmtree(tmp, ignore_errors=True)


sys.exit(main())
