#!/usr/bin/env python3
"""Prints the markdown table of DESIGN.md 8.5 from seeded/*/meta.json (which check catches which seeded change)."""
import json, os, glob
ROOT = os.path.dirname(os.path.dirname(os.path.abspath(__file__)))
rows = []
for d in sorted(glob.glob(os.path.join(ROOT, 'seeded', '*'))):
    m = json.load(open(os.path.join(d, 'meta.json')))
    files = sorted({l[6:].strip() for l in open(os.path.join(d, 'patch.diff')) if l.startswith('+++ b/')})
    det = m.get('detected_by') or []
    rows.append('| %s | %s | %s | %s |' % (m['id'], ', '.join('`%s`' % f for f in files),
                                            '<br>'.join('`%s`' % x for x in det) if det else '**none (missed)**',
                                            (m.get('check_result') or '').replace('|', '/').replace('\n', ' ')))
print('| seeded change | files changed | obligations that fail | result |')
print('|---|---|---|---|')
print('\n'.join(rows))
