#!/usr/bin/env python3
"""Prints the per-property status table of DESIGN.md 8.6 from evidence/*.json (numbers measured by the last committed runs)."""
import json, os, glob
ROOT = os.path.dirname(os.path.dirname(os.path.abspath(__file__)))
print('| prop | tier | obligations | discharged | by back end | functions proved / assumed / bounded | bounded evaluations | known-finding obligations | wall s |')
print('|---|---|---|---|---|---|---|---|---|')
for f in sorted(glob.glob(os.path.join(ROOT, 'evidence', 'C*.json'))):
    d = json.load(open(f))
    c = d['coverage']
    fn = c.get('functions_under_contract', [])
    nb = sum(1 for x in fn if x.get('status') == 'bounded')
    print('| %s | %s | %d | %d | %s | %d / %d / %d | %d | %d | %.0f |' % (
        d['property_id'], d['tier'], c['obligations'], c['discharged'],
        ', '.join('%s %d' % kv for kv in sorted(c.get('discharged_by_backend', {}).items(), key=lambda kv: -kv[1])[:4]),
        len(c.get('functions_proved', [])), len(c.get('functions_assumed', [])), nb,
        sum(b.get('evaluations', 0) for b in c.get('bounded_checks', [])), c.get('known_finding_obligations', 0), d['wall_s']))
