"""A check for property Cxx is the union of the units that every contract area contributes to Cxx.
Each module contracts/<area>.py (and contracts/c/<area>.py ...) may define  units(prop, tier) -> [Unit]."""
import importlib
import os
import pkgutil

ROOT = os.path.dirname(os.path.dirname(os.path.abspath(__file__)))


def area_modules():
    import contracts
    names = []
    for m in pkgutil.walk_packages(contracts.__path__, 'contracts.'):
        names.append(m.name)
    return sorted(names)


def collect(prop, tier):
    out = []
    for name in area_modules():
        try:
            mod = importlib.import_module(name)
        except Exception as ex:      # noqa
            if os.environ.get('VERIF_DEV'):
                # developer runs tolerate an area module that is being edited; registered checks do not
                print('WARNING: area module %s does not import (%s): skipped (VERIF_DEV)' % (name, str(ex)[:120]))
                continue
            raise
        f = getattr(mod, 'units', None)
        if f is None:
            continue
        us = f(prop, tier) or []
        out.extend(us)
    ids = [u.uid for u in out]
    assert len(ids) == len(set(ids)), 'duplicate unit ids: %s' % sorted(x for x in ids if ids.count(x) > 1)
    return out
