"""Glue: bounded run-time contract harnesses (/verif/bounded) -> runner units (README_UNITS.md).

    from vf.bounded_units import bounded_unit, units_for
    def units(tier):
        return [... proof units ...] + units_for('C02')                         # the suggested split below, or
        return [bounded_unit('C02', 'bounded.blockciphers', 'bounded.blockciphers')]    # one harness as one unit

A unit builds the overlay from /repo's CURRENT sources (vf.cbuild), runs the harness in a subprocess whose PYTHONPATH
starts with the overlay, and returns the README_UNITS dict: one result per contract with status bounded_ok/bounded_fail
(kind 'bounded', never counted as proved by vf.core), 'bounded' entries with bound / evaluations / distinct / samples,
'functions' with status 'bounded' and the matching 'assumed contract ... (bounded only: ...)' assumption lines.
A bounded_fail carries witness (the failing case as JSON), replayed=True (it ran on the real code), witness_class
(coarse class for known-finding matching) and replay = {'harness', 'case', 'cmd'}; `replay_case(replay)` re-runs it.

`only`   : substrings of harness task names -- limits the WORK (see `python3-vt -m bounded.<x> --tier quick -v` and tasks()).
`select` : substrings of contract ids -- limits which RESULTS are returned (after running).
"""
import importlib
import os

from .core import Unit

HARNESSES = {
    'blockciphers': 'bounded.blockciphers',   # area 1: primitives of Crypto.Cipher vs references
    'modes': 'bounded.modes',                 # area 2: modes one-shot vs reference compositions, segmentation, buffers / output=
    'hashes': 'bounded.hashes',               # area 3: hashes, XOFs, MACs
    'kdfs': 'bounded.kdfs',                   # area 4: KDFs
    'bigint': 'bounded.bigint',               # area 5: three Integer back ends vs int and vs each other; monty_pow/monty_multiply
    'accel': 'bounded.accel',                 # area 6: AES-NI vs portable, CLMUL vs portable
    'memsafe': 'bounded.memsafe',             # area 8: every extension module rebuilt with AddressSanitizer, driven through the Python API (C17)
    'ec': 'bounded.ec',                       # area 7: EC scalar multiplication / group law / X25519 / X448 / ECDH
}

# property -> [(uid suffix, harness, only (task filter), select (result filter))]
SUGGESTED = {
    'C01': [('aead', 'modes', ['aead.', 'kw'], None)],
    'C02': [('primitives', 'blockciphers', None, None), ('modes', 'modes', ['basic.', 'aead.', 'kw'], None)],
    'C03': [('hashes', 'hashes', None, ['digest_eq_spec', 'output_lengths', 'customisation', 'domain', 'lengths', 'keys_and', 'TupleHash'])],
    'C06': [('ec', 'ec', None, None)],
    # key equality rests on the native point comparison (ec_ws_cmp / ed*_cmp: assumed by the proved EccKey.__eq__ / EccPoint.__eq__ contracts);
    # seeded change C08-ec-ws-cmp-ignores-y
    'C08': [('ec_point_eq', 'ec', None, ['add_double_neg_eq_group_law'])],
    'C09': [('modes_segmentation_buffers', 'modes', ['seg.', 'buf'], None), ('hash_segmentation', 'hashes', None, ['segmentation', 'copy', 'output_lengths'])],
    'C12': [('kdfs', 'kdfs', None, None)],
    'C14': [('bigint', 'bigint', None, ['.exact', 'raw.'])],
    'C16': [('accel', 'accel', None, None), ('bigint_agree', 'bigint', ['ops.'], ['agree.'])],
    # copy() independence of the native states behind hashes / XOFs / MACs, incl. a copy taken while squeezing (the C copy functions are
    # assumed by the Python copy() contracts; seeded change C19-keccak-copy-valid-bytes-only)
    # memory safety of ALL native code through the Python API under AddressSanitizer (most C files are under no CVC contract; seeded change
    # C17-ctr-word-xor-head-unclamped restructures CTR_encrypt so that its loop contracts no longer apply: exit 2 without this harness)
    'C17': [('memsafe', 'memsafe', None, None)],
    'C19': [('hash_copy', 'hashes', None, ['.copy'])],
}


def _resolve(func):
    if callable(func):
        return func
    name = HARNESSES.get(func, func)
    return importlib.import_module(name).run


def prefix_ids(prop, r, select=None):
    """prepend the property id to result / bounded ids; optionally keep only ids containing one of `select`"""
    def keep(i):
        return not select or any(s in i for s in select) or '.task.' in i or i.endswith('.child') or i.endswith('.overlay')
    out = dict(r)
    out['results'] = []
    for x in r.get('results', []):
        if keep(x['id']):
            y = dict(x)
            y['id'] = '%s.%s' % (prop, x['id'])
            out['results'].append(y)
    out['bounded'] = []
    for b in r.get('bounded', []):
        if keep(b['name']):
            y = dict(b)
            y['name'] = '%s.%s' % (prop, b['name'])
            out['bounded'].append(y)
    if select:
        kept_targets = None       # functions/assumptions are kept as reported: they describe what the harness exercised
    if not out['results']:
        out['results'].append({'id': '%s.bounded.empty' % prop, 'kind': 'engine', 'clause': 'the bounded unit produced at least one result', 'status': 'error',
                               'backend': 'cpython', 'seconds': 0, 'detail': 'no contract selected (only/select filters too narrow?)', 'witness': None, 'replayed': False})
    return out


def bounded_unit(prop, uid, func, tiers=('quick', 'thorough'), weight=50, only=None, select=None, src_dir=None):
    """func: a harness run function (bounded.<x>.run), a harness module name or a key of HARNESSES"""

    def run():
        tier = os.environ.get('VERIF_TIER', 'quick')
        f = _resolve(func)
        r = f(tier=tier, seed=None, src_dir=src_dir, only=only)          # seed: VERIF_SEED from the environment
        return prefix_ids(prop, r, select)
    return Unit(uid, run, 'bounded', tiers, weight)


def units_for(prop, tiers=('quick', 'thorough')):
    return [bounded_unit(prop, '%s.bounded.%s' % (prop, suffix), h, tiers, 50, only, select) for suffix, h, only, select in SUGGESTED.get(prop, [])]


def replay_case(replay, src_dir=None):
    """re-run the stored case of a bounded_fail on the current tree; returns (held, expected, got)"""
    from bounded import _common
    if replay.get('harness') == 'bounded.memsafe':
        from bounded import memsafe
        c = replay['case']
        r = memsafe.run(c.get('tier', 'quick'), c.get('seed', 0), src_dir=src_dir, only=[c['group']])
        bad = [x for x in r['results'] if x['status'] == 'bounded_fail']
        return (not bad), 'no report', (bad[0]['witness']['got'] if bad else 'no report')
    return _common.replay(replay['harness'], replay['case'], src_dir)
