"""Overlay build of /repo's C extension modules from the CURRENT working tree (DESIGN.md 2.9).

    with overlay(['Crypto.Cipher._raw_aes', '_raw_ecb']) as ov:      # or overlay() for all modules
        subprocess.run([sys.executable, ...], env={'PYTHONPATH': ov + os.pathsep + '/verif', ...})

* the list of extension modules (sources, include dirs, macros) is extracted from /repo/setup.py by parsing it
  (ast; nothing in setup.py is executed), the platform probes and per-module options come from
  /repo/compiler_opt.py (its `set_compiler_options` is executed with `test_compilation` replaced by a gcc call in
  the scratch directory, so nothing is written under /repo and distutils is not needed);
* the requested modules are ALWAYS rebuilt (gcc, 16 parallel jobs, seconds) into a fresh tempfile.mkdtemp();
* the overlay is <tmp>/ov/Crypto: real directories, symlinks to every file of /repo/lib/Crypto except the .so files
  of the rebuilt modules, plus the fresh .so files.  Directories are real (not symlinks) because
  Crypto.Util._file_system locates native modules through `<dir of _file_system.py>/..`, which the kernel resolves
  through a symlinked directory back into /repo;
* `src_dir=` builds from another copy of src/ (used by the mutation self-tests);
* the temp dir is removed on exit.

CLI:  python3-vt -m vf.cbuild --check     build all modules, import every one of them from the overlay in a
                                          subprocess, run a tiny smoke test, print timings.
"""
import ast
import contextlib
import io
import json
import os
import shutil
import subprocess
import sys
import sysconfig
import tempfile
import time
from concurrent.futures import ThreadPoolExecutor

REPO = os.environ.get('VERIF_REPO', '/repo')
VERIF = os.path.dirname(os.path.dirname(os.path.abspath(__file__)))
JOBS = int(os.environ.get('VERIF_JOBS', '16') or 16)
CC = os.environ.get('VERIF_CC', 'gcc')


class BuildError(Exception):
    pass


class Ext:
    """the fields of setuptools.Extension that setup.py / compiler_opt.py use"""

    def __init__(self, name, sources=(), include_dirs=(), define_macros=(), extra_compile_args=(),
                 extra_link_args=(), libraries=(), py_limited_api=False, **kw):
        self.name = name
        self.sources = list(sources)
        self.include_dirs = list(include_dirs)
        self.define_macros = list(define_macros)
        self.extra_compile_args = list(extra_compile_args)
        self.extra_link_args = list(extra_link_args)
        self.libraries = list(libraries)
        self.py_limited_api = py_limited_api
        self.other = kw

    def __repr__(self):
        return 'Ext(%s, %s)' % (self.name, self.sources)


def read_extensions(repo=REPO):
    """Extension(...) entries of `ext_modules = [...]` in <repo>/setup.py, by ast (no execution)."""
    path = os.path.join(repo, 'setup.py')
    tree = ast.parse(open(path).read(), path)
    exts = []
    for node in ast.walk(tree):
        if isinstance(node, ast.Assign) and any(isinstance(t, ast.Name) and t.id == 'ext_modules' for t in node.targets) \
                and isinstance(node.value, ast.List):
            for call in node.value.elts:
                if not (isinstance(call, ast.Call) and getattr(call.func, 'id', getattr(call.func, 'attr', '')) == 'Extension'):
                    raise BuildError('setup.py: unexpected ext_modules element at line %d' % call.lineno)
                args = [ast.literal_eval(a) for a in call.args]
                kw = {k.arg: ast.literal_eval(k.value) for k in call.keywords}
                exts.append(Ext(*args, **kw))
    if not exts:
        raise BuildError('no Extension(...) found in %s' % path)
    return exts


def base_cflags(opt='-O2'):
    """CFLAGS of the running interpreter's build (what distutils would use), optimisation replaced, no -g."""
    out = []
    for f in (sysconfig.get_config_var('CFLAGS') or '-DNDEBUG -fwrapv -Wall').split():
        if f.startswith('-O') or f.startswith('-g') or f.startswith('-W'):
            continue
        out.append(f)
    return out + [opt, '-fPIC', '-w']


def _probe_compile(workdir, counter=[0]):
    def test_compilation(program, extra_cc_options=None, extra_libraries=None, msg=''):
        counter[0] += 1
        src = os.path.join(workdir, 'probe%d.c' % counter[0])
        exe = os.path.join(workdir, 'probe%d.out' % counter[0])
        with open(src, 'w') as f:
            f.write(program)
        cmd = [CC] + base_cflags('-O0') + list(extra_cc_options or []) + [src, '-o', exe] + ['-l' + x for x in (extra_libraries or [])]
        r = subprocess.run(cmd, stdout=subprocess.DEVNULL, stderr=subprocess.DEVNULL)
        return r.returncode == 0
    return test_compilation


def apply_compiler_options(exts, workdir, repo=REPO):
    """run /repo/compiler_opt.py:set_compiler_options on our Ext list; returns a note on how options were obtained"""
    path = os.path.join(repo, 'compiler_opt.py')
    try:
        src = open(path).read()
        import types
        saved = {}
        try:
            import distutils                      # noqa  (3.11: stdlib or setuptools' copy)
            from distutils import ccompiler       # noqa
            from distutils.errors import CCompilerError    # noqa
        except Exception:                           # stub: only names are needed, test_compilation is replaced
            for n in ('distutils', 'distutils.ccompiler', 'distutils.errors'):
                saved[n] = sys.modules.get(n)
                sys.modules[n] = types.ModuleType(n)
            sys.modules['distutils'].ccompiler = sys.modules['distutils.ccompiler']
            sys.modules['distutils.errors'].CCompilerError = Exception
        ns = {'__name__': 'repo_compiler_opt', '__file__': path}
        try:
            exec(compile(src, path, 'exec'), ns)
        finally:
            for n, m in saved.items():
                if m is None:
                    sys.modules.pop(n, None)
                else:
                    sys.modules[n] = m
        ns['test_compilation'] = _probe_compile(workdir)
        buf = io.StringIO()
        with contextlib.redirect_stdout(buf):
            ns['set_compiler_options']('Crypto', exts)
        return 'compiler_opt.set_compiler_options executed with gcc probes'
    except Exception as ex:     # noqa  fall back to the options the probes give on x86-64 linux / gcc
        macros = [('HAVE_STDINT_H', None), ('PYCRYPTO_%s_ENDIAN' % sys.byteorder.upper(), None), ('SYS_BITS', '64'),
                  ('LTC_NO_ASM', None), ('HAVE_UINT128', None), ('HAVE_CPUID_H', None), ('HAVE_POSIX_MEMALIGN', None),
                  ('HAVE_X86INTRIN_H', None), ('USE_SSE2', None)]
        for x in exts:
            if x.name.endswith('._raw_aesni'):
                x.extra_compile_args.append('-maes')
            if x.name.endswith('._ghash_clmul'):
                x.extra_compile_args += ['-mpclmul', '-mssse3']
                x.define_macros += [('HAVE_WMMINTRIN_H', None), ('HAVE_TMMINTRIN_H', None)]
            x.extra_compile_args.append('-msse2')
            x.define_macros += macros
        return 'FALLBACK options (compiler_opt.py not usable: %s)' % ex


def _resolve(exts, modules):
    if modules is None:
        return list(exts)
    by = {}
    for e in exts:
        by[e.name] = e
        by[e.name.split('.', 1)[1]] = e
        by[e.name.rsplit('.', 1)[1]] = e
    out = []
    for m in modules:
        if m not in by:
            raise BuildError('unknown extension module %r (setup.py has: %s)' % (m, ', '.join(sorted(e.name for e in exts))))
        if by[m] not in out:
            out.append(by[m])
    return out


def _src_path(rel, repo, src_dir):
    rel = rel.replace('\\', '/')
    if src_dir is not None and (rel == 'src' or rel.startswith('src/')):
        return os.path.join(src_dir, rel[4:])
    return os.path.join(repo, rel)


def _run(cmd):
    r = subprocess.run(cmd, stdout=subprocess.PIPE, stderr=subprocess.STDOUT, text=True)
    return r.returncode, r.stdout, cmd


def build(modules, outdir, src_dir=None, repo=REPO, jobs=JOBS, opt='-O2', extra_cflags=None):
    """compile `modules` (None = all) into outdir/<pkg path>/<name>.abi3.so; returns info dict"""
    t0 = time.time()
    exts_all = read_extensions(repo)
    work = os.path.join(outdir, 'obj')
    os.makedirs(work, exist_ok=True)
    note = apply_compiler_options(exts_all, work, repo)
    present = {e.name for e in exts_all}
    wanted = _resolve(exts_all, modules)
    t_probe = time.time() - t0
    cflags = base_cflags(opt) + list(extra_cflags or [])
    compile_jobs, link_jobs, sofiles = [], [], {}
    for e in wanted:
        objs = []
        inc = []
        for d in e.include_dirs:
            inc += ['-I', _src_path(d, repo, src_dir)]
        if src_dir is not None:
            inc += ['-I', src_dir]
        mac = []
        for m in e.define_macros:
            mac.append('-D%s' % m[0] if m[1] is None else '-D%s=%s' % (m[0], m[1]))
        for s in e.sources:
            o = os.path.join(work, e.name + '__' + os.path.basename(s) + '.o')
            compile_jobs.append([CC] + cflags + mac + inc + e.extra_compile_args + ['-c', _src_path(s, repo, src_dir), '-o', o])
            objs.append(o)
        rel = e.name.split('.')
        so = os.path.join(outdir, 'so', *rel[:-1], rel[-1] + '.abi3.so')
        os.makedirs(os.path.dirname(so), exist_ok=True)
        link_jobs.append([CC, '-shared'] + objs + e.extra_link_args + ['-l' + x for x in e.libraries] + ['-o', so])
        sofiles[e.name] = so
    errors = []
    with ThreadPoolExecutor(max(1, jobs)) as pool:
        for rc, out, cmd in pool.map(_run, compile_jobs):
            if rc != 0:
                errors.append('%s\n%s' % (' '.join(cmd), out[-3000:]))
        if not errors:
            for rc, out, cmd in pool.map(_run, link_jobs):
                if rc != 0:
                    errors.append('%s\n%s' % (' '.join(cmd), out[-3000:]))
    if errors:
        raise BuildError('C build failed (%d commands):\n%s' % (len(errors), '\n'.join(errors[:5])))
    shutil.rmtree(work, ignore_errors=True)
    return {'modules': sorted(sofiles), 'so': sofiles, 'options': note, 'cflags': cflags, 'n_translation_units': len(compile_jobs),
            'all_modules': sorted(present), 'probe_seconds': round(t_probe, 2), 'build_seconds': round(time.time() - t0, 2),
            'src_dir': src_dir or os.path.join(repo, 'src'), 'jobs': jobs}


def _is_so_of(fname, names):
    """fname like _raw_aes.abi3.so / _raw_aes.cpython-311-x86_64-linux-gnu.so / _raw_aes.so / .pyd"""
    if not (fname.endswith('.so') or fname.endswith('.pyd') or fname.endswith('.dylib')):
        return False
    return fname.split('.', 1)[0] in names


def make_overlay(root, info, repo=REPO):
    """root/Crypto mirrors <repo>/lib/Crypto with symlinks, fresh .so files for the rebuilt modules"""
    src_root = os.path.join(repo, 'lib', 'Crypto')
    rebuilt = {}
    for name in info['so']:
        parts = name.split('.')
        rebuilt.setdefault(os.path.join(*parts[1:-1]) if len(parts) > 2 else '', set()).add(parts[-1])
    n_links = 0
    for d, dirs, files in os.walk(src_root):
        dirs[:] = [x for x in dirs if x != '__pycache__']
        rel = os.path.relpath(d, src_root)
        rel = '' if rel == '.' else rel
        dst = os.path.join(root, 'Crypto', rel)
        os.makedirs(dst, exist_ok=True)
        for f in files:
            if _is_so_of(f, rebuilt.get(rel, ())):
                continue
            if f.endswith('.pyc'):
                continue
            os.symlink(os.path.join(d, f), os.path.join(dst, f))
            n_links += 1
    for name, so in info['so'].items():
        parts = name.split('.')
        dst = os.path.join(root, *parts[:-1], os.path.basename(so))
        os.makedirs(os.path.dirname(dst), exist_ok=True)
        shutil.move(so, dst)
        info['so'][name] = dst
    info['symlinks'] = n_links
    return root


class OverlayPath(str):
    """the directory to put first on sys.path / PYTHONPATH; .info describes the build"""
    info = None

    def env(self, extra=None):
        """environment for a subprocess that must see the overlay first, then /verif (never /repo/lib)"""
        e = dict(os.environ)
        e['PYTHONPATH'] = os.pathsep.join([str(self), VERIF])
        e['VERIF_OVERLAY'] = str(self)
        e.setdefault('PYTHONDONTWRITEBYTECODE', '1')
        if extra:
            e.update(extra)
        return e


@contextlib.contextmanager
def overlay(modules=None, src_dir=None, repo=REPO, jobs=JOBS, opt='-O2', keep=False, extra_cflags=None):
    """context manager: build `modules` (None = all of setup.py) from the current tree, yield the overlay path"""
    tmp = tempfile.mkdtemp(prefix='verif_ov_')
    for forbidden in (os.path.realpath(repo), os.path.realpath(VERIF)):
        if os.path.realpath(tmp).startswith(forbidden + os.sep):
            shutil.rmtree(tmp, ignore_errors=True)
            raise BuildError('temp dir %s lies inside %s; set TMPDIR' % (tmp, forbidden))
    try:
        t0 = time.time()
        info = build(modules, tmp, src_dir=src_dir, repo=repo, jobs=jobs, opt=opt, extra_cflags=extra_cflags)
        root = os.path.join(tmp, 'ov')
        make_overlay(root, info, repo)
        shutil.rmtree(os.path.join(tmp, 'so'), ignore_errors=True)
        info['overlay_seconds'] = round(time.time() - t0, 2)
        p = OverlayPath(root)
        p.info = info
        yield p
    finally:
        if not keep:
            shutil.rmtree(tmp, ignore_errors=True)


SMOKE = r'''
import json, os, sys, importlib
ov = os.environ['VERIF_OVERLAY']
import Crypto
assert os.path.realpath(os.path.dirname(Crypto.__file__)) == os.path.realpath(os.path.join(ov, 'Crypto')), Crypto.__file__
from Crypto.Util import _raw_api
loaded = []
orig = _raw_api.load_lib
def spy(name, cdecl):
    loaded.append(name)
    return orig(name, cdecl)
_raw_api.load_lib = spy
mods = json.loads(os.environ['VERIF_MODS'])
from Crypto.Util._file_system import pycryptodome_filename
for m in mods:
    parts = m.split('.')
    f = pycryptodome_filename(parts[:-1], parts[-1] + '.abi3.so')
    assert os.path.isfile(f) and not os.path.islink(f), (m, f)
    assert os.path.realpath(f).startswith(os.path.realpath(ov) + os.sep), (m, f)
from Crypto.Cipher import AES, DES3, ChaCha20, Salsa20, ARC4, Blowfish, CAST, ARC2, DES, PKCS1_v1_5
from Crypto.Hash import SHA256, SHA1, MD5, MD4, MD2, RIPEMD160, SHA3_256, BLAKE2b, BLAKE2s, SHA512, SHA384, SHA224, Poly1305, keccak
from Crypto.Protocol.KDF import scrypt, bcrypt
from Crypto.PublicKey import ECC
from Crypto.Math._IntegerCustom import IntegerCustom
from Crypto.Util.strxor import strxor
from Crypto.Util import _cpu_features
assert AES.new(bytes(16), AES.MODE_ECB, use_aesni=False).encrypt(bytes(16)).hex() == '66e94bd4ef8a2c3b884cfa59ca342b2e'
if _cpu_features.have_aes_ni():
    assert AES.new(bytes(16), AES.MODE_ECB, use_aesni=True).encrypt(bytes(16)).hex() == '66e94bd4ef8a2c3b884cfa59ca342b2e'
assert SHA256.new(b'abc').hexdigest() == 'ba7816bf8f01cfea414140de5dae2223b00361a396177a9cb410ff61f20015ad'
c = AES.new(bytes(16), AES.MODE_GCM, nonce=bytes(12), use_clmul=False); c.encrypt_and_digest(b'x')
c = AES.new(bytes(16), AES.MODE_GCM, nonce=bytes(12)); c.encrypt_and_digest(b'x')
for m in (AES.MODE_CBC, AES.MODE_CFB, AES.MODE_OFB):
    AES.new(bytes(16), m, iv=bytes(16)).encrypt(bytes(16))
AES.new(bytes(16), AES.MODE_CTR, nonce=b'').encrypt(bytes(16))
AES.new(bytes(16), AES.MODE_OCB, nonce=bytes(12)).encrypt_and_digest(b'x')
assert int(pow(IntegerCustom(3), 200, 1000003)) == pow(3, 200, 1000003)
assert (ECC.generate(curve='P-256').pointQ * 1).x is not None
for cv in ('Ed25519', 'Ed448', 'Curve25519', 'Curve448', 'P-384', 'P-521'):
    ECC.generate(curve=cv)
scrypt(b'p', b's', 16, 16, 1, 1); bcrypt(b'p', 4, bytes(16))
ChaCha20.new(key=bytes(32), nonce=bytes(12)).encrypt(b'x'); Salsa20.new(key=bytes(32), nonce=bytes(8)).encrypt(b'x')
ARC4.new(bytes(16)).encrypt(b'x'); Blowfish.new(bytes(16), 1).encrypt(bytes(8)); CAST.new(bytes(16), 1).encrypt(bytes(8))
ARC2.new(bytes(16), 1).encrypt(bytes(8)); DES.new(bytes(8), 1).encrypt(bytes(8)); DES3.new(bytes(range(24)), 1).encrypt(bytes(8))
for h in (SHA1, MD5, MD4, MD2, RIPEMD160, SHA3_256, SHA512, SHA384, SHA224):
    h.new(b'abc').digest()
BLAKE2b.new(digest_bits=256).update(b'a').digest(); BLAKE2s.new(digest_bits=256).update(b'a').digest()
keccak.new(digest_bits=256).update(b'a').digest()
Poly1305.new(key=bytes(32), cipher=AES).update(b'a').digest()
strxor(b'ab', b'cd')
bad = [x for x in loaded if os.path.isabs(x) and not os.path.realpath(x).startswith(os.path.realpath(ov) + os.sep)]
assert not bad, bad
print(json.dumps({'loaded_native': len(set(loaded)), 'all_from_overlay': True}))
'''


def check(src_dir=None, verbose=True):
    t0 = time.time()
    with overlay(None, src_dir=src_dir) as ov:
        info = ov.info
        t_build = time.time() - t0
        in_repo = []
        for d, _, files in os.walk(os.path.join(REPO, 'lib', 'Crypto')):
            in_repo += [f for f in files if f.endswith('.so')]
        r = subprocess.run([sys.executable, '-c', SMOKE], env=ov.env({'VERIF_MODS': json.dumps(info['modules'])}),
                           stdout=subprocess.PIPE, stderr=subprocess.PIPE, text=True, cwd=tempfile.gettempdir())
        ok = r.returncode == 0
        if verbose:
            print('extension modules in setup.py        : %d' % len(info['all_modules']))
            print('rebuilt into overlay                 : %d (%d translation units, %d jobs)' % (len(info['modules']), info['n_translation_units'], info['jobs']))
            print('in-place .so files under /repo/lib   : %d' % len(in_repo))
            print('options                              : %s' % info['options'])
            print('cflags                               : %s' % ' '.join(info['cflags']))
            print('probe time                           : %.2fs' % info['probe_seconds'])
            print('probe + compile + link               : %.2fs' % info['build_seconds'])
            print('incl. overlay symlinks (%4d links)   : %.2fs' % (info['symlinks'], info['overlay_seconds']))
            print('smoke test in subprocess             : %s %s' % ('OK' if ok else 'FAILED', r.stdout.strip()))
            if not ok:
                print(r.stderr[-3000:])
        root = os.path.dirname(str(ov))
    gone = not os.path.exists(root)
    if verbose:
        print('temp dir removed                     : %s' % gone)
        print('total wall                           : %.2fs' % (time.time() - t0))
    return 0 if ok and gone else 1


def main(argv=None):
    import argparse
    ap = argparse.ArgumentParser(prog='vf.cbuild')
    ap.add_argument('--check', action='store_true')
    ap.add_argument('--src-dir')
    ap.add_argument('--list', action='store_true')
    a = ap.parse_args(argv)
    if a.list:
        for e in read_extensions():
            print(e.name, e.sources, e.include_dirs)
        return 0
    if a.check:
        return check(a.src_dir)
    ap.print_help()
    return 2


if __name__ == '__main__':
    sys.exit(main())
