"""./verify setup | check <Cxx> [--tier quick|thorough] [--only substr] | replay <file> | selftest"""
import argparse
import json
import os
import sys

ROOT = os.path.dirname(os.path.dirname(os.path.abspath(__file__)))
sys.path.insert(0, ROOT)


def main(argv=None):
    ap = argparse.ArgumentParser(prog='verify')
    sub = ap.add_subparsers(dest='cmd')
    sub.add_parser('setup')
    c = sub.add_parser('check')
    c.add_argument('prop')
    c.add_argument('--tier', default=os.environ.get('VERIF_TIER', 'quick'))
    c.add_argument('--only', action='append')
    c.add_argument('--jobs', type=int)
    r = sub.add_parser('replay')
    r.add_argument('path')
    s = sub.add_parser('selftest')
    s.add_argument('--only', action='append')
    a = ap.parse_args(argv)
    if a.cmd == 'setup':
        from vf import setup
        return setup.main()
    if a.cmd == 'check':
        from vf import core
        seed = int(os.environ.get('VERIF_SEED', '0') or 0)
        tier = a.tier if a.tier in ('quick', 'thorough') else 'quick'
        return core.run_check(a.prop, tier, seed, a.jobs, a.only)
    if a.cmd == 'replay':
        from vf import replay
        return replay.main(a.path)
    if a.cmd == 'selftest':
        from vf import selftest
        return selftest.main(a.only)
    ap.print_help()
    return 2


if __name__ == '__main__':
    sys.exit(main())
