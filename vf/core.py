"""Check runner: units -> process pool -> verdict, evidence, replay files (DESIGN.md 2.7, 2.10)."""
import json
import multiprocessing as mp
import os
import sys
import time
import traceback

ROOT = os.path.dirname(os.path.dirname(os.path.abspath(__file__)))
EVID = os.environ.get('VERIF_EVIDENCE_DIR') or os.path.join(ROOT, 'evidence')
REPLAYS = os.environ.get('VERIF_REPLAY_DIR') or os.path.join(ROOT, 'replays')
KNOWN = os.path.join(ROOT, 'known_findings.jsonl')


class Unit:
    """one schedulable piece of a check. run() returns a dict:
       {'functions': [...], 'results': [result dicts], 'bounded': [...], 'assumptions': [...], 'trusted': [...]}
       result dict keys: id, kind, clause, status (discharged|violated|undecided|bounded_ok|bounded_fail|error),
                         backend, seconds, detail, witness, replay (optional dict the replay command understands)"""

    def __init__(self, uid, run, kind='pyvc', tiers=('quick', 'thorough'), weight=1):
        self.uid = uid
        self.run = run
        self.kind = kind
        self.tiers = tiers
        self.weight = weight


def load_known(prop):
    out = []
    if os.path.exists(KNOWN):
        for line in open(KNOWN):
            line = line.strip()
            if not line or line.startswith('#'):
                continue
            if line.startswith('fixed:'):
                continue        # repaired defects suppress nothing
            e = json.loads(line)
            if e.get('property') == prop:
                out.append(e)
    return out


def _worker(args):
    prop, idx, tier, seed = args
    os.environ['VERIF_SEED'] = str(seed)
    os.environ['VERIF_TIER'] = tier
    t0 = time.time()
    try:
        mod = __import__('props.' + prop, fromlist=['units'])
        units = [u for u in mod.units(tier) if tier in u.tiers]
        u = units[idx]
        r = u.run()
        r.setdefault('results', [])
        r['unit'] = u.uid
        r['kind'] = u.kind
        r['seconds'] = time.time() - t0
        return r
    except Exception as ex:      # noqa
        return {'unit': 'unit#%d' % idx, 'kind': 'error', 'seconds': time.time() - t0, 'results': [
            {'id': '%s.unit%d.crash' % (prop, idx), 'kind': 'engine', 'clause': 'unit ran', 'status': 'error',
             'backend': '', 'seconds': 0, 'detail': '%s\n%s' % (ex, traceback.format_exc()[-3000:]), 'witness': None}]}


def run_check(prop, tier='quick', seed=0, jobs=None, only=None):
    t0 = time.time()
    sys.path.insert(0, ROOT)
    mod = __import__('props.' + prop, fromlist=['units'])
    units = [u for u in mod.units(tier) if tier in u.tiers]
    idxs = list(range(len(units)))
    if only:
        idxs = [i for i in idxs if any(o in units[i].uid for o in only)]
    jobs = jobs or int(os.environ.get('VERIF_JOBS', '16'))
    order = sorted(idxs, key=lambda i: -units[i].weight)
    ctx = mp.get_context('fork')
    outs = []
    # one forked child per unit, at most `jobs` at a time, each under a hard wall-clock limit: a solver call that ignores its own
    # time-out (seen with z3 on long sequence terms) must end as `undecided`, never hang the check
    hard_s = float(os.environ.get('VERIF_UNIT_HARD_S', '2400'))
    todo = list(order)
    running = []

    def _child(conn, a):
        try:
            os.setsid()          # own process group: a kill takes the unit's helpers (cvc5, lean, harness children) with it
        except OSError:
            pass
        try:
            conn.send(_worker(a))
        except Exception as ex:      # noqa
            conn.send({'unit': 'unit#%d' % a[1], 'kind': 'error', 'seconds': 0, 'results': [
                {'id': '%s.unit%d.crash' % (prop, a[1]), 'kind': 'engine', 'clause': 'unit ran', 'status': 'error', 'backend': '',
                 'seconds': 0, 'detail': repr(ex), 'witness': None}]})
        conn.close()

    while todo or running:
        while todo and len(running) < jobs:
            i = todo.pop(0)
            a, b = ctx.Pipe(duplex=False)
            pr = ctx.Process(target=_child, args=(b, (prop, i, tier, seed)))
            pr.start()
            b.close()
            running.append((pr, a, i, time.time()))
        time.sleep(0.02)
        for it in list(running):
            pr, a, i, ts = it
            r = None
            if a.poll():
                try:
                    r = a.recv()
                except EOFError:
                    r = False
            elif not pr.is_alive():
                r = False
            elif time.time() - ts > hard_s:
                try:
                    os.killpg(pr.pid, 9)
                except OSError:
                    pr.kill()
                r = {'unit': units[i].uid, 'kind': 'error', 'seconds': time.time() - ts, 'results': [
                    {'id': '%s.%s.hard_timeout' % (prop, units[i].uid), 'kind': 'engine', 'clause': 'unit finished within its hard wall-clock limit',
                     'status': 'undecided', 'backend': '', 'seconds': time.time() - ts,
                     'detail': 'unit killed after %d s (VERIF_UNIT_HARD_S): undecided' % hard_s, 'witness': None}]}
            if r is None:
                continue
            if r is False:
                r = {'unit': units[i].uid, 'kind': 'error', 'seconds': time.time() - ts, 'results': [
                    {'id': '%s.%s.crash' % (prop, units[i].uid), 'kind': 'engine', 'clause': 'unit ran', 'status': 'error', 'backend': '',
                     'seconds': 0, 'detail': 'unit process died without a result (exit code %s)' % pr.exitcode, 'witness': None}]}
            pr.join(1)
            running.remove(it)
            outs.append(r)
    outs.sort(key=lambda r: r['unit'])
    return finish(prop, tier, seed, mod, outs, time.time() - t0, partial=bool(only))


def finish(prop, tier, seed, mod, outs, wall, partial=False):
    os.makedirs(EVID, exist_ok=True)
    os.makedirs(REPLAYS, exist_ok=True)
    known = load_known(prop)
    results = []
    functions, bounded, assumptions, trusted = [], [], [], []
    for o in outs:
        for r in o['results']:
            r['unit'] = o['unit']
            results.append(r)
        functions += o.get('functions', [])
        bounded += o.get('bounded', [])
        assumptions += o.get('assumptions', [])
        trusted += o.get('trusted', [])
    violations, undecided, errors, known_lines = [], [], [], []
    for r in results:
        if r['status'] in ('violated', 'bounded_fail'):
            k = match_known(known, r)
            if k is not None:
                known_lines.append('KNOWN-FINDING: property=%s %s [%s]' % (prop, k['what'], r['id']))
                r['known_finding'] = k.get('id', True)
            else:
                violations.append(r)
        elif r['status'] == 'undecided':
            undecided.append(r)
        elif r['status'] == 'error':
            errors.append(r)
    # obligations that fail exactly as a listed known finding are recorded defects of the tree, not part of what this run claims to
    # have proved: they are counted apart (coverage.known_finding_obligations), so obligations == discharged iff everything else holds
    proof_results = [r for r in results if r['status'] in ('discharged', 'violated', 'undecided') and r['kind'] != 'bounded'
                     and not r.get('known_finding')]
    n_known = sum(1 for r in results if r.get('known_finding') and r['kind'] != 'bounded')
    n_ob = len(proof_results)
    n_dis = sum(1 for r in proof_results if r['status'] == 'discharged')
    by_backend = {}
    solver_s = 0.0
    for r in proof_results:
        if r['status'] == 'discharged':
            by_backend[r.get('backend') or '?'] = by_backend.get(r.get('backend') or '?', 0) + 1
        solver_s += r.get('seconds') or 0
    bounded_evals = sum(b.get('evaluations', 0) for b in bounded)
    level = getattr(mod, 'LEVEL', 'proof')
    samples = []
    for r in proof_results[:: max(1, len(proof_results) // 8)][:8]:
        samples.append({'obligation': r['id'], 'clause': r['clause'], 'status': r['status'], 'backend': r.get('backend'),
                        'seconds': r.get('seconds'), 'path': r.get('path')})
    for b in bounded[:3]:
        if b.get('samples'):
            samples.append({'bounded': b['name'], 'case': b['samples'][0]})
    cov = {
        'obligations': n_ob, 'discharged': n_dis,
        'checker_cmd': './verify check %s --tier %s' % (prop, tier),
        'trusted_base': sorted(set(trusted + getattr(mod, 'TRUSTED', []))),
        'functions_under_contract': functions,
        'functions_proved': sorted({f['target'] for f in functions if f.get('status') == 'proved'}),
        'functions_assumed': sorted({f['target'] for f in functions if f.get('status') == 'assumed'}),
        'discharged_by_backend': by_backend, 'solver_seconds': round(solver_s, 2),
        'undecided': [{'id': r['id'], 'detail': (r.get('detail') or '')[:300]} for r in undecided],
        'bounded_checks': bounded,
        'evaluations': max(1, n_ob + bounded_evals),
        'distinct_nontrivial': max(2, len({r['id'] + '|' + str(r.get('path')) for r in proof_results}) + sum(b.get('distinct', 0) for b in bounded)),
        'rule': 'one case per (obligation id, entry alternative/path) generated from the current /repo sources; bounded harness cases counted separately per distinct input',
        'samples': samples,
        'known_findings_reported': known_lines, 'known_finding_obligations': n_known,
        'explanation': getattr(mod, 'EXPLANATION', ''),
        'units': [{'unit': o['unit'], 'kind': o['kind'], 'seconds': round(o['seconds'], 2)} for o in outs],
    }
    ev = {'property_id': prop, 'tier': tier, 'seed': seed, 'level': level, 'coverage': cov,
          'assumptions': sorted(set(assumptions + getattr(mod, 'ASSUMPTIONS', []))),
          'wall_s': round(wall, 2), 'violations': len(violations)}
    # a run restricted with --only is a developer run: it must not overwrite the evidence of the full check
    with open(os.path.join(EVID, (prop + '.json') if not partial else ('.partial_%s_%d.json' % (prop, os.getpid()))), 'w') as f:
        json.dump(ev, f, indent=1, default=str)
    for line in known_lines:
        print(line)
    print('%s tier=%s: %d obligations, %d discharged, %d violated, %d undecided, %d errors; bounded evaluations %d; %.1fs'
          % (prop, tier, n_ob, n_dis, len(violations), len(undecided), len(errors), bounded_evals, wall))
    code = 0
    if violations:
        for i, r in enumerate(violations):
            path = os.path.join(REPLAYS, '%s_%s_%d%s.json' % (prop, r['id'].replace('/', '_')[:80], i, ('_p%d' % os.getpid()) if partial else ''))
            with open(path, 'w') as f:
                json.dump({'property': prop, 'obligation': r['id'], 'clause': r['clause'], 'kind': r['kind'],
                           'witness': r.get('witness'), 'replay': r.get('replay'), 'replayed': r.get('replayed'),
                           'solver_output': r.get('detail'), 'backend': r.get('backend'), 'path': r.get('path'), 'unit': r['unit']},
                          f, indent=1, default=str)
            tail = '' if r.get('replayed') else ' no-failing-input-found'
            print('  failed obligation %s: %s' % (r['id'], r['clause']))
            print('VIOLATION property=%s replay=%s%s' % (prop, path, tail))
        code = 1
    elif errors:
        for r in errors:
            print('  ERROR %s: %s' % (r['id'], (r.get('detail') or '')[-800:]))
        code = 3
    elif undecided:
        for r in undecided:
            print('  UNDECIDED %s [%s]: %s' % (r['id'], r.get('path'), (r.get('detail') or '')[:300]))
        code = 2
    return code


def match_known(known, r):
    for k in known:
        if k.get('status', 'known') != 'known':
            continue
        if k.get('obligation') != r['id']:
            continue
        w = k.get('witness_class')
        if w is None or r.get('witness_class') == w:
            return k
    return None
