"""CVC bit-precise: symbolic executor / VC generator over clang's typed JSON AST of the real /repo/src/*.c
(DESIGN.md 2.4).  See NOTES.md in this directory for the supported subset and the assumptions."""

DEFAULT_SRC = '/repo/src'
