"""CVC bit-precise: symbolic executor / VC generator over clang's typed JSON AST of the real /repo/src/*.c
(DESIGN.md 2.4).  See NOTES.md in this directory for the supported subset and the assumptions."""

import os
DEFAULT_SRC = os.environ.get("VERIF_REPO_SRC") or os.path.join(os.environ.get("VERIF_REPO", "/repo"), "src")
