"""Front end: run clang-14 on a REAL C file, load the typed JSON AST, index it.

What is dropped by this route: comments and preprocessor branches the build does not compile.  Macros are
already expanded; implicit conversions are explicit ImplicitCastExpr nodes with a castKind; every expression has a type.
"""
import hashlib
import json
import os
import re
import struct
import subprocess
import sys
import tempfile

CLANG = os.environ.get('VERIF_CLANG', 'clang-14')


class FrontEndError(Exception):
    pass


class Unsupported(Exception):
    """construct outside the supported subset -> the function is `undecided`, never `violated`"""


# ----------------------------------------------------------------------------------------------- build flags
_PROBES = {
    'HAVE_STDINT_H': ('#include <stdint.h>\nint main(void){uint32_t u; u=0; return u+2;}\n', []),
    'HAVE_UINT128': ('int main(void){__uint128_t x; return 0;}\n', []),
    'HAVE_CPUID_H': ('#include <cpuid.h>\nint main(void){unsigned int a,b,c,d; __get_cpuid(1,&a,&b,&c,&d); return a;}\n', []),
    'HAVE_INTRIN_H': ('#include <intrin.h>\nint main(void){int a,b[4]; __cpuid(b,a); return a;}\n', []),
    'HAVE_POSIX_MEMALIGN': ('#include <stdlib.h>\nint main(void){void *m; int r; r=posix_memalign((void**)&m,16,101); return r==0;}\n', []),
    'HAVE_MEMALIGN': ('#include <malloc.h>\nint main(void){void *p; p=memalign(16,101); return p!=(void*)0;}\n', []),
    'SSE2_X86INTRIN': ('#include <x86intrin.h>\nint main(void){__m128i r0; int m; r0=_mm_set1_epi32(0); m=_mm_movemask_epi8(r0); return m;}\n', ['-msse2']),
    'SSE2_EMMINTRIN': ('#include <xmmintrin.h>\n#include <emmintrin.h>\nint main(void){__m128i r0; int m; r0=_mm_set1_epi32(0); m=_mm_movemask_epi8(r0); return m;}\n', ['-msse2']),
}
_flags_cache = {}


def _probe(name):
    src, opts = _PROBES[name]
    with tempfile.TemporaryDirectory(prefix='cvc_probe_') as d:
        p = os.path.join(d, 't.c')
        with open(p, 'w') as f:
            f.write(src)
        r = subprocess.run([CLANG, '-fsyntax-only', '-Werror=implicit-function-declaration'] + opts + [p], capture_output=True, text=True)
        return r.returncode == 0


def build_flags(src_dir):
    """the -I/-D set of /repo/setup.py + compiler_opt.set_compiler_options(), re-derived by the same feature tests
    (run through clang -fsyntax-only instead of distutils compile+link)."""
    key = os.path.abspath(src_dir)
    if key in _flags_cache:
        return list(_flags_cache[key])
    fl = ['-I' + key, '-I' + os.path.join(key, 'libtom')]
    if _probe('HAVE_STDINT_H'):
        fl.append('-DHAVE_STDINT_H')
    fl.append('-DPYCRYPTO_%s_ENDIAN' % sys.byteorder.upper())
    fl.append('-DSYS_BITS=%d' % (8 * struct.calcsize('P')))
    fl.append('-DLTC_NO_ASM')
    if _probe('HAVE_UINT128'):
        fl.append('-DHAVE_UINT128')
    if _probe('HAVE_CPUID_H'):
        fl.append('-DHAVE_CPUID_H')
    if _probe('HAVE_INTRIN_H'):
        fl.append('-DHAVE_INTRIN_H')
    if _probe('HAVE_POSIX_MEMALIGN'):
        fl.append('-DHAVE_POSIX_MEMALIGN')
    elif _probe('HAVE_MEMALIGN'):
        fl.append('-DHAVE_MEMALIGN')
    if _probe('SSE2_X86INTRIN'):
        fl += ['-msse2', '-DHAVE_X86INTRIN_H', '-DUSE_SSE2']
    elif _probe('SSE2_EMMINTRIN'):
        fl += ['-msse2', '-DHAVE_EMMINTRIN_H', '-DUSE_SSE2']
    _flags_cache[key] = list(fl)
    return fl


# per-module options of setup.py / compiler_opt.py that matter to the parse
EXTRA_FLAGS = {
    'AESNI.c': ['-maes'],
    'ghash_clmul.c': ['-mpclmul', '-mssse3', '-DHAVE_WMMINTRIN_H', '-DHAVE_TMMINTRIN_H'],
}


# ----------------------------------------------------------------------------------------------- C types
class CT:
    """C type. kind: int(bits, signed) | ptr(to) | arr(elem, n) | struct(name, fields, union) | func(ret, params) | void | float"""
    __slots__ = ('kind', 'bits', 'signed', 'to', 'n', 'name', 'fields', 'union', 'ret', 'params', 'const', 'complete')

    def __init__(self, kind, **kw):
        self.kind = kind
        for s in self.__slots__[1:]:
            setattr(self, s, kw.get(s))
        self.const = bool(kw.get('const'))

    def __repr__(self):
        c = 'const ' if self.const else ''
        if self.kind == 'int':
            return '%s%s%d' % (c, 'i' if self.signed else 'u', self.bits)
        if self.kind == 'ptr':
            return '%sptr(%r)' % (c, self.to)
        if self.kind == 'arr':
            return '%r[%s]' % (self.to, self.n)
        if self.kind == 'struct':
            return '%sstruct %s' % (c, self.name)
        if self.kind == 'func':
            return 'func(%r;%r)' % (self.ret, self.params)
        return c + self.kind

    def is_int(self):
        return self.kind == 'int'

    def is_ptr(self):
        return self.kind == 'ptr'


_BUILTIN = {
    'char': (8, True), 'signed char': (8, True), 'unsigned char': (8, False), '_Bool': (8, False),
    'short': (16, True), 'unsigned short': (16, False), 'short int': (16, True), 'unsigned short int': (16, False),
    'int': (32, True), 'unsigned int': (32, False), 'unsigned': (32, False), 'signed int': (32, True), 'signed': (32, True),
    'long': (64, True), 'unsigned long': (64, False), 'long int': (64, True), 'unsigned long int': (64, False),
    'long long': (64, True), 'unsigned long long': (64, False), 'long long int': (64, True), 'unsigned long long int': (64, False),
    '__int128': (128, True), 'unsigned __int128': (128, False),
}
_QUALS = {'const', 'volatile', 'restrict', '__restrict', '_Nullable', '_Nonnull'}
_TOK = re.compile(r'\s*(\.\.\.|[A-Za-z_][A-Za-z_0-9]*|\d+|[*()\[\],])')


class TypeParser:
    def __init__(self, tu):
        self.tu = tu
        self.cache = {}

    def parse(self, s):
        if s in self.cache:
            return self.cache[s]
        s0 = s
        s = re.sub(r'__attribute__\(\(.*?\)\)', '', s)
        toks = _TOK.findall(s)
        if ''.join(toks).replace(' ', '') != s.replace(' ', ''):
            raise Unsupported('type syntax: %r' % s0)
        self.toks = toks + ['<eof>']
        self.i = 0
        base = self._base()
        wrap = self._absdecl()
        if self.toks[self.i] != '<eof>':
            raise Unsupported('type syntax: %r (at %r)' % (s0, self.toks[self.i]))
        t = wrap(base)
        self.cache[s0] = t
        return t

    def _base(self):
        words = []
        const = False
        while self.toks[self.i] not in ('*', '(', '[', ')', ',', '<eof>', '...'):
            w = self.toks[self.i]
            self.i += 1
            if w == 'const':
                const = True
            elif w in _QUALS:
                pass
            else:
                words.append(w)
        name = ' '.join(words)
        t = self.tu.named_type(name)
        if const and not t.const:
            t = _with_const(t)
        return t

    def _absdecl(self):
        nptr = []
        while self.toks[self.i] == '*':
            self.i += 1
            c = False
            while self.toks[self.i] in _QUALS:
                if self.toks[self.i] == 'const':
                    c = True
                self.i += 1
            nptr.append(c)
        inner = None
        if self.toks[self.i] == '(' and self.toks[self.i + 1] in ('*', '('):
            self.i += 1
            inner = self._absdecl()
            if self.toks[self.i] != ')':
                raise Unsupported('type syntax')
            self.i += 1
        sufs = []
        while self.toks[self.i] in ('[', '('):
            if self.toks[self.i] == '[':
                self.i += 1
                n = None
                if self.toks[self.i] != ']':
                    n = int(self.toks[self.i])
                    self.i += 1
                if self.toks[self.i] != ']':
                    raise Unsupported('type syntax')
                self.i += 1
                sufs.append(('arr', n))
            else:
                self.i += 1
                params = []
                variadic = False
                while self.toks[self.i] != ')':
                    if self.toks[self.i] == '...':
                        variadic = True
                        self.i += 1
                    else:
                        b = self._base()
                        w = self._absdecl()
                        params.append(w(b))
                    if self.toks[self.i] == ',':
                        self.i += 1
                self.i += 1
                if len(params) == 1 and params[0].kind == 'void':
                    params = []
                sufs.append(('func', params, variadic))

        def wrap(base):
            t = base
            for c in nptr:
                t = CT('ptr', to=t, const=c)
            for s in reversed(sufs):
                if s[0] == 'arr':
                    t = CT('arr', to=t, n=s[1])
                else:
                    t = CT('func', ret=t, params=s[1], n=s[2])
            if inner is not None:
                t = inner(t)
            return t
        return wrap


def _with_const(t):
    kw = {s: getattr(t, s) for s in CT.__slots__[1:]}
    kw['const'] = True
    return CT(t.kind, **kw)


def sizeof(t):
    if t.kind == 'int':
        return t.bits // 8
    if t.kind == 'ptr':
        return 8
    if t.kind == 'arr':
        if t.n is None:
            raise Unsupported('sizeof incomplete array')
        return t.n * sizeof(t.to)
    if t.kind == 'struct':
        if not t.complete:
            raise Unsupported('sizeof incomplete struct %s' % t.name)
        if t.union:
            m = max([sizeof(f) for _, f in t.fields] or [0])
            a = alignof(t)
            return (m + a - 1) // a * a
        off = 0
        for _, f in t.fields:
            a = alignof(f)
            off = (off + a - 1) // a * a
            off += sizeof(f)
        a = alignof(t)
        return (off + a - 1) // a * a
    raise Unsupported('sizeof %r' % (t,))


def alignof(t):
    if t.kind == 'int':
        return t.bits // 8
    if t.kind == 'ptr':
        return 8
    if t.kind == 'arr':
        return alignof(t.to)
    if t.kind == 'struct':
        return max([alignof(f) for _, f in t.fields] or [1])
    raise Unsupported('alignof %r' % (t,))


def field_offset(t, name):
    off = 0
    for fn, f in t.fields:
        a = alignof(f)
        off = (off + a - 1) // a * a
        if fn == name:
            return 0 if t.union else off
        off += sizeof(f)
    raise KeyError(name)


# ----------------------------------------------------------------------------------------------- translation unit
def run_clang(path, flags):
    cmd = [CLANG, '-fsyntax-only', '-Xclang', '-ast-dump=json', '-Wno-everything'] + flags + [path]
    r = subprocess.run(cmd, capture_output=True, text=True)
    if r.returncode != 0 or not r.stdout.startswith('{'):
        raise FrontEndError('clang failed on %s: %s' % (path, r.stderr[-1500:]))
    return json.loads(r.stdout)


class TU:
    """one translation unit of the REAL tree, re-read on every construction."""

    def __init__(self, path, src_dir=None, flags=None, annotate=True):
        self.path = os.path.abspath(path)
        self.src_dir = os.path.abspath(src_dir or os.path.dirname(self.path))
        fl = flags if flags is not None else build_flags(self.src_dir) + EXTRA_FLAGS.get(os.path.basename(path), [])
        self.flags = fl
        self.json = run_clang(self.path, fl)
        self._texts = {}
        self.funcs = {}       # name -> FunctionDecl with body
        self.fdecls = {}      # name -> any FunctionDecl
        self.typedefs = {}    # name -> type dict
        self.records = {}     # id -> RecordDecl (complete)
        self.record_by_name = {}
        self.globals = {}     # name -> VarDecl (file scope)
        self.decl_by_id = {}
        self.field_parent = {}
        self.typedef_record = {}  # typedef name -> record id for anonymous structs
        self.enum_consts = {}
        self.tp = TypeParser(self)
        self._named = {}
        if annotate:
            self._annotate()
        self._index()

    # --- locations
    def _annotate(self):
        cur = [None, None]

        def bare(l):
            if 'file' in l:
                cur[0] = l['file']
            if 'line' in l:
                cur[1] = l['line']
            if 'offset' in l:
                l['_file'] = cur[0]
                l['_line'] = cur[1]

        def loc(l):
            if not isinstance(l, dict):
                return
            if 'spellingLoc' in l or 'expansionLoc' in l:
                for k in l:
                    if k in ('spellingLoc', 'expansionLoc'):
                        bare(l[k])
            else:
                bare(l)

        stack = [self.json]
        while stack:
            n = stack.pop()
            if not isinstance(n, dict):
                continue
            if 'loc' in n:
                loc(n['loc'])
            if 'range' in n:
                loc(n['range'].get('begin'))
                loc(n['range'].get('end'))
            inner = n.get('inner')
            if inner:
                stack.extend(reversed(inner))

    @staticmethod
    def _bare(l):
        if l is None:
            return {}
        if 'expansionLoc' in l:
            return l['expansionLoc']
        return l

    def node_file_line(self, n):
        b = self._bare(n.get('range', {}).get('begin'))
        if '_line' not in b:
            b = self._bare(n.get('loc'))
        return b.get('_file'), b.get('_line')

    def node_lines(self, n):
        b = self._bare(n.get('range', {}).get('begin'))
        e = self._bare(n.get('range', {}).get('end'))
        return b.get('_file'), b.get('_line'), e.get('_line')

    def file_text(self, f):
        if f not in self._texts:
            try:
                with open(f, 'rb') as fh:
                    self._texts[f] = fh.read()
            except OSError:
                self._texts[f] = b''
        return self._texts[f]

    def node_text(self, n, limit=60):
        try:
            b = self._bare(n['range']['begin'])
            e = self._bare(n['range']['end'])
            f = b.get('_file')
            if f is None or e.get('_file') != f:
                return n.get('kind', '?')
            t = self.file_text(f)[b['offset']: e['offset'] + e.get('tokLen', 1)].decode('latin1')
            t = re.sub(r'\s+', ' ', t).strip()
            return t[:limit]
        except Exception:      # noqa
            return n.get('kind', '?')

    def func_source(self, name):
        n = self.funcs[name]
        b = self._bare(n['range']['begin'])
        e = self._bare(n['range']['end'])
        f = b.get('_file')
        txt = self.file_text(f)[b['offset']: e['offset'] + e.get('tokLen', 1)]
        rel = f
        if f and f.startswith(self.src_dir):
            rel = os.path.join(os.path.basename(os.path.dirname(self.src_dir)) or '', 'src', os.path.relpath(f, self.src_dir))
        return {'file': rel, 'lines': [b.get('_line'), e.get('_line')], 'sha256_16': hashlib.sha256(txt).hexdigest()[:16]}

    # --- index
    def _index(self):
        for d in self.json.get('inner', []):
            self._index_decl(d, top=True)

    def _index_decl(self, d, top=False):
        k = d.get('kind')
        if 'id' in d:
            self.decl_by_id[d['id']] = d
        if k == 'FunctionDecl':
            self.fdecls.setdefault(d['name'], d)
            if any(c.get('kind') == 'CompoundStmt' for c in d.get('inner', [])):
                self.funcs[d['name']] = d
                self.fdecls[d['name']] = d
                self._index_body(d)
        elif k == 'TypedefDecl':
            self.typedefs[d['name']] = d['type']
            for c in d.get('inner', []):
                otd = c.get('ownedTagDecl')
                if otd and otd.get('kind') == 'RecordDecl' and not otd.get('name'):
                    self.typedef_record[d['name']] = otd['id']
                for cc in c.get('inner', []):
                    dd = cc.get('decl')
                    if c.get('kind') == 'ElaboratedType' and dd and dd.get('kind') == 'RecordDecl' and not dd.get('name'):
                        self.typedef_record.setdefault(d['name'], dd['id'])
        elif k == 'RecordDecl':
            if d.get('completeDefinition'):
                self.records[d['id']] = d
                if d.get('name'):
                    self.record_by_name[(d.get('tagUsed', 'struct'), d['name'])] = d
                for f in d.get('inner', []):
                    if f.get('kind') == 'FieldDecl':
                        self.field_parent[f['id']] = d['id']
                        self.decl_by_id[f['id']] = f
                    elif f.get('kind') == 'RecordDecl':
                        self._index_decl(f)
        elif k == 'VarDecl':
            if top:
                self.globals[d['name']] = d
        elif k == 'EnumDecl':
            val = 0
            for c in d.get('inner', []):
                if c.get('kind') == 'EnumConstantDecl':
                    v = _const_value(c)
                    if v is not None:
                        val = v
                    self.enum_consts[c['id']] = val
                    self.decl_by_id[c['id']] = c
                    val += 1

    def _index_body(self, f):
        stack = list(f.get('inner', []))
        while stack:
            n = stack.pop()
            if not isinstance(n, dict):
                continue
            if n.get('kind') in ('VarDecl', 'ParmVarDecl') and 'id' in n:
                self.decl_by_id[n['id']] = n
            if n.get('kind') in ('RecordDecl', 'TypedefDecl', 'EnumDecl'):
                self._index_decl(n)
            stack.extend(n.get('inner', []))

    # --- types
    def named_type(self, name):
        if name in self._named:
            return self._named[name]
        t = self._named_type(name)
        self._named[name] = t
        return t

    def _named_type(self, name):
        if name in _BUILTIN:
            b, s = _BUILTIN[name]
            return CT('int', bits=b, signed=s)
        if name == 'void':
            return CT('void')
        if name in ('float', 'double', 'long double'):
            return CT('float', name=name)
        m = re.match(r'(struct|union) (.+)$', name)
        if m:
            d = self.record_by_name.get((m.group(1), m.group(2)))
            if d is None and m.group(2) in self.typedef_record:
                d = self.records.get(self.typedef_record[m.group(2)])
            return self._record_type(d, name, m.group(1) == 'union')
        if name.startswith('enum '):
            return CT('int', bits=32, signed=False)
        if name in self.typedef_record:
            return self._record_type(self.records.get(self.typedef_record[name]), name, False)
        if name in self.typedefs:
            td = self.typedefs[name]
            q = td['qualType']
            if q == name or q == 'struct ' + name:
                q = td.get('desugaredQualType', q)
            return self.tp_parse_nested(q)
        raise Unsupported('unknown type name %r' % name)

    def tp_parse_nested(self, q):
        # the parser object is not re-entrant: use a fresh one sharing the cache
        p = TypeParser(self)
        p.cache = self.tp.cache
        return p.parse(q)

    def _record_type(self, d, name, union):
        if d is None:
            return CT('struct', name=name, fields=[], union=union, complete=False)
        t = CT('struct', name=name, fields=[], union=(d.get('tagUsed') == 'union'), complete=True)
        self._named[name] = t       # recursive structs (pointers to self)
        for f in d.get('inner', []):
            if f.get('kind') == 'FieldDecl':
                if f.get('isBitfield'):
                    raise Unsupported('bit-field in %s' % name)
                t.fields.append((f.get('name'), self.ctype(f['type'])))
        return t

    def ctype(self, tyobj):
        """type dict of a node -> CT"""
        q = tyobj['qualType']
        try:
            return self.tp_parse_nested(q)
        except Unsupported:
            d = tyobj.get('desugaredQualType')
            if d and d != q:
                return self.tp_parse_nested(d)
            raise


def _const_value(n):
    for c in n.get('inner', []):
        if c.get('kind') == 'ConstantExpr' and 'value' in c:
            return int(c['value'])
        if c.get('kind') == 'IntegerLiteral':
            return int(c['value'])
        v = _const_value(c)
        if v is not None:
            return v
    return None


_c_escapes = {'n': 10, 't': 9, 'r': 13, '0': 0, '\\': 92, '"': 34, "'": 39, 'a': 7, 'b': 8, 'f': 12, 'v': 11, '?': 63}


def string_literal_bytes(value):
    """the bytes of a clang JSON StringLiteral 'value' (a C-escaped, double-quoted string), without the final NUL"""
    s = value
    pre = re.match(r'^(u8|u|U|L)?"', s)
    if not pre or not s.endswith('"'):
        raise Unsupported('string literal form %r' % value[:40])
    if pre.group(1) and pre.group(1) != 'u8':
        raise Unsupported('wide string literal')
    s = s[pre.end():-1]
    out = bytearray()
    i = 0
    while i < len(s):
        ch = s[i]
        if ch != '\\':
            out += ch.encode('utf-8')
            i += 1
            continue
        i += 1
        e = s[i]
        if e in '01234567':
            j = i
            while j < len(s) and j < i + 3 and s[j] in '01234567':
                j += 1
            out.append(int(s[i:j], 8) & 0xff)
            i = j
        elif e == 'x':
            j = i + 1
            while j < len(s) and s[j] in '0123456789abcdefABCDEF':
                j += 1
            out.append(int(s[i + 1:j], 16) & 0xff)
            i = j
        elif e in _c_escapes:
            out.append(_c_escapes[e])
            i += 1
        else:
            raise Unsupported('escape \\%s in string literal' % e)
    return bytes(out)
