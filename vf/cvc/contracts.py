"""Sidecar contracts for C functions and the clause language.

A clause is a string in a restricted Python expression syntax, parsed with `ast`:

    names            parameters (entry values in `ensures`, current values in loop invariants), locals (invariants only),
                     logical variables declared in the contract, `result`
    p[i]             element i of the region p points into (relative to p); `p.f` field of the struct p points to
    old(e)           e evaluated in the entry state (for a callee contract applied at a call: the pre-call state)
    all(B for k in range(a, b)) / any(...)   bounded quantifiers, k is an unsigned 64-bit index
    a ==> b, a <==> b   (lowest precedence, right-assoc, top level or inside parentheses), `and or not`, `x if c else y`
    + - * // % << >> & | ^ and comparisons    EXACT INTEGER semantics: operands are widened so nothing wraps
    u8(e) u16(e) u32(e) u64(e) i32(e) i64(e) u128(e)   C conversions (truncate / extend)
    be(p, n, maxn), le(p, n, maxn)   unsigned integer held by bytes p[0..n) (n <= maxn, maxn a literal)
    pow2(e, maxbits)   2**e as an exact integer (e <= maxbits)
    null(p), len(p)  (elements available from p to the end of its region), same(p, q)  (pointer equality)
    macro(args)      contract-level definitions (`defs`), expanded inline

Array indices are taken modulo 2**64 (all uses are guarded by range conditions).
"""
import ast
import re

import z3

from .clang_ast import Unsupported


class ClauseError(Unsupported):
    """clause cannot be translated against the current code (renamed variable, ...) -> undecided"""


# ----------------------------------------------------------------------------------------------- typed values
class TV:
    """integer value: bit-vector + signedness; arithmetic on TVs is exact (widening)"""
    __slots__ = ('bv', 'signed', 'pow2')

    def __init__(self, bv, signed=False, pow2=False):
        self.bv = bv
        self.signed = signed
        self.pow2 = pow2      # value is known to be a power of two (x % it is a mask, not a division circuit)

    @property
    def w(self):
        return self.bv.size()

    def __repr__(self):
        return 'TV(%s,%s%d)' % (self.bv, 'i' if self.signed else 'u', self.w)


def tv_const(n):
    if n >= 0:
        return TV(z3.BitVecVal(n, max(1, n.bit_length())), False)
    return TV(z3.BitVecVal(n, (~n).bit_length() + 1), True)


def ext(t, w):
    if t.w == w:
        return t.bv
    if t.w > w:
        raise AssertionError('ext narrowing')
    return z3.SignExt(w - t.w, t.bv) if t.signed else z3.ZeroExt(w - t.w, t.bv)


def promote(a, b, extra=0):
    """common representation that holds both exactly; returns (bva, bvb, signed)"""
    if a.signed == b.signed:
        w = max(a.w, b.w) + extra
        return ext(a, w), ext(b, w), a.signed
    wa = a.w + (0 if a.signed else 1)
    wb = b.w + (0 if b.signed else 1)
    w = max(wa, wb) + extra
    ea = z3.SignExt(w - a.w, a.bv) if a.signed else z3.ZeroExt(w - a.w, a.bv)
    eb = z3.SignExt(w - b.w, b.bv) if b.signed else z3.ZeroExt(w - b.w, b.bv)
    return ea, eb, True


def _tiny(e, limit=40):
    n = 0
    todo = [e]
    while todo:
        x = todo.pop()
        n += 1
        if n > limit:
            return False
        if z3.is_app(x):
            todo.extend(x.children())
        elif z3.is_quantifier(x):
            return False
    return True


def shrink(t):
    """drop provably redundant leading bits of constants (keeps widths small)"""
    if z3.is_bv_value(t.bv):
        s = t.bv
    elif _tiny(t.bv):
        s = z3.simplify(t.bv)
    else:
        return t            # a big term is not a literal in disguise; rewriting it would only cost time
    if z3.is_bv_value(s):
        v = s.as_signed_long() if t.signed else s.as_long()
        return tv_const(v)
    return t


def conv(t, bits, signed):
    """C conversion to an integer type"""
    if t.w == bits:
        return TV(t.bv, signed)
    if t.w > bits:
        # truncation commutes with + - *: the rewriter pushes it to the leaves (u64(a - b) becomes the 64-bit a - b)
        return TV(z3.Extract(bits - 1, 0, t.bv), signed)
    return TV(ext(t, bits), signed)


def tv_add(a, b):
    x, y, s = promote(a, b, 1)
    return TV(x + y, s)


def tv_sub(a, b):
    x, y, s = promote(a, b, 1)
    if not s:
        x = z3.ZeroExt(1, x)
        y = z3.ZeroExt(1, y)
    return TV(x - y, True)


def tv_mul(a, b):
    a, b = shrink(a), shrink(b)
    for x, y in ((a, b), (b, a)):
        # multiplication by a literal power of two is a concatenation with zeros (no multiplier circuit)
        if z3.is_bv_value(y.bv) and not y.signed:
            v = y.bv.as_long()
            if v == 0:
                return tv_const(0)
            if v == 1:
                return x
            if v & (v - 1) == 0:
                k = v.bit_length() - 1
                return TV(z3.Concat(x.bv, z3.BitVecVal(0, k)), x.signed)
    x, y, s = promote(a, b)
    w = x.size()
    tw = a.w + b.w + (1 if s else 0)
    if tw > w:
        x = z3.SignExt(tw - w, x) if s else z3.ZeroExt(tw - w, x)
        y = z3.SignExt(tw - w, y) if s else z3.ZeroExt(tw - w, y)
    return TV(x * y, s)


def tv_udivmod(a, b, mod):
    if a.signed or b.signed:
        a2, b2 = shrink(a), shrink(b)
        if a2.signed and not b2.signed and z3.is_bv_value(b2.bv):
            d = b2.bv.as_long()
            if d > 0 and d & (d - 1) == 0:
                # floor division / modulus of a signed value by a literal power of two
                k = d.bit_length() - 1
                if mod:
                    return TV(z3.Extract(k - 1, 0, a2.bv), False) if k else tv_const(0)
                return TV(a2.bv >> k, True)
        if a2.signed or b2.signed:
            raise ClauseError('// and % need unsigned operands (or a literal power-of-two divisor)')
        a, b = a2, b2
    x, y, _ = promote(a, b)
    if mod and b.pow2:
        return TV(x & (y - 1), False)
    return TV(z3.URem(x, y) if mod else z3.UDiv(x, y), False)


def tv_cmp(op, a, b):
    x, y, s = promote(a, b)
    if op == '==':
        return x == y
    if op == '!=':
        return x != y
    if s:
        return {'<': x < y, '<=': x <= y, '>': x > y, '>=': x >= y}[op]
    return {'<': z3.ULT(x, y), '<=': z3.ULE(x, y), '>': z3.UGT(x, y), '>=': z3.UGE(x, y)}[op]


def tv_bit(op, a, b):
    x, y, s = promote(a, b)
    return TV({'&': x & y, '|': x | y, '^': x ^ y}[op], s)


def tv_ite(c, a, b):
    x, y, s = promote(a, b)
    return TV(z3.If(c, x, y), s)


def to_index(t):
    """BV64 index (modulo 2**64)"""
    if t.w == 64:
        return t.bv
    if t.w > 64:
        # extraction of the low bits commutes with + - *: let the rewriter push it to the (<= 64-bit) leaves
        return z3.simplify(z3.Extract(63, 0, t.bv))
    return ext(t, 64)


def _contains(e, k):
    if e.eq(k):
        return True
    todo = [e]
    seen = set()
    while todo:
        x = todo.pop()
        if x.get_id() in seen:
            continue
        seen.add(x.get_id())
        if x.eq(k):
            return True
        if z3.is_app(x):
            todo.extend(x.children())
        elif z3.is_quantifier(x):
            todo.append(x.body())
    return False


def bare_reads(k, e):
    """triggers: the array reads whose index is exactly the bound variable (one single-term pattern per array)"""
    pats = []
    todo = [e]
    seen = set()
    while todo:
        x = todo.pop()
        if x.get_id() in seen:
            continue
        seen.add(x.get_id())
        if z3.is_quantifier(x):
            todo.append(x.body())
            continue
        if not z3.is_app(x):
            continue
        if z3.is_select(x) and x.arg(1).eq(k) and z3.is_const(x.arg(0)) and not any(p.eq(x) for p in pats):
            pats.append(x)
        todo.extend(x.children())
    return pats


def reindex(k, e):
    """forall k. phi(a[base + k])  ==  forall k. phi'(a[k])  by the bijection k -> k - base (mod 2**64): array reads at
    `pointer offset + k` become reads at the bare bound variable, which is what E-matching can instantiate."""
    idxs = []
    todo = [e]
    seen = set()
    while todo:
        x = todo.pop()
        if x.get_id() in seen:
            continue
        seen.add(x.get_id())
        if z3.is_quantifier(x):
            todo.append(x.body())
            continue
        if not z3.is_app(x):
            continue
        if z3.is_select(x):
            idx = x.arg(1)
            if _contains(idx, k):
                idxs.append(idx)
        todo.extend(x.children())
    if not idxs:
        return e
    bases = []
    for idx in idxs:
        if idx.eq(k):
            return e            # already has a bare read
        b = z3.simplify(idx - k)
        if not _contains(b, k):
            bases.append(b)
    if not bases:
        return e
    # most frequent base
    best = max(bases, key=lambda b: sum(1 for c in bases if c.eq(b)))
    if z3.is_bv_value(best) and best.as_long() == 0:
        return e
    e2 = z3.substitute(e, (k, k - best))
    # tidy only the index terms (a global simplify would bit-blast the widened comparisons)
    pairs = []
    todo = [e2]
    seen = set()
    while todo:
        x = todo.pop()
        if x.get_id() in seen:
            continue
        seen.add(x.get_id())
        if z3.is_quantifier(x):
            todo.append(x.body())
            continue
        if not z3.is_app(x):
            continue
        if z3.is_select(x):
            idx = x.arg(1)
            if _contains(idx, k):
                si = z3.simplify(idx)
                if not si.eq(idx):
                    pairs.append((idx, si))
        todo.extend(x.children())
    if pairs:
        e2 = z3.substitute(e2, *pairs)
    return e2


# ----------------------------------------------------------------------------------------------- contract objects
class LoopSpec:
    def __init__(self, invariants=None, modifies=(), unroll=None, decreases=None, lemmas=None, split=None, unfold=None):
        self.invariants = dict(invariants or {})
        self.unfold = dict(unfold or {})       # instances of recursive ghost definitions, ASSUMED at the start of an iteration
        self.split = dict(split or {})         # invariant name -> (bound variable, term): prove `preserved` separately for var == term and var != term
        self.lemmas = dict(lemmas or {})       # ghost assertions at the END of the body: proved there, then assumed for `preserved`
        self.modifies = list(modifies)
        self.unroll = unroll
        self.decreases = decreases


class FnContract:
    def __init__(self, name, regions=None, nullable=(), logical=None, requires=None, ensures=None, modifies=(), loops=None,
                 inline=False, configs=None, alloc_result=None, escapes=(), defs=None, shape=None, frees=(), ghost_updates=None,
                 abstract=False, pure=False, result_name=None, note=None, allocates=False, replay=True, lemmas=None, params=None, ret=None,
                 cost=None, quick=None, strategy=None, result_ptrs=None):
        self.name = name
        self.regions = dict(regions or {})      # pointer parameter -> 'u8[expr]' | 'u32[16]' | 'struct' | 'cell' | shape object
        self.nullable = set(nullable)
        self.logical = dict(logical or {})       # name -> 'u64' ...
        self.requires = dict(requires or {})
        self.ensures = dict(ensures or {})
        self.modifies = list(modifies)           # pointer parameters / region expressions whose target may be written
        self.loops = {k: (v if isinstance(v, LoopSpec) else LoopSpec(**v)) for k, v in (loops or {}).items()}
        self.inline = inline
        self.configs = configs or [{'name': 'default'}]
        self.alloc_result = alloc_result         # 'u8[expr]': result is NULL or a fresh heap region
        self.escapes = list(escapes)             # heap regions reachable from these expressions may outlive the call
        self.defs = dict(defs or {})
        self.frees = list(frees)
        self.abstract = abstract                 # no body: contract of an abstract callee (cipher->encrypt)
        self.note = note
        self.allocates = allocates
        self.replay = replay
        if params is not None:
            self.params = list(params)     # abstract callee: parameter names
        self.ret = ret
        self.cost = cost      # seconds per configuration (planning hint for the unit splitter)
        self.result_ptrs = dict(result_ptrs or {})   # struct-returning callee: pointer field of the result -> expression
        self.strategy = dict(strategy or {})     # '<kind>.<name>' of an obligation -> solver strategy to try first (a hint only)
        self.quick = quick    # names of the configurations verified in tier `quick` (all of them in `thorough`)
        self.lemmas = dict(lemmas or {})    # ghost assertions at every return: proved (locals visible), then assumed for `ensures`


class Registry:
    def __init__(self, area):
        self.area = area
        self.contracts = {}
        self.defs = {}
        self.funcptr_contracts = {}    # abstract function-pointer kind -> contract name
        self.assumptions = []

    def fn(self, name, **kw):
        c = FnContract(name, **kw)
        self.contracts[name] = c
        return c

    def define(self, sig, body):
        m = re.match(r'\s*(\w+)\s*\((.*)\)\s*$', sig)
        if not m:
            raise ValueError(sig)
        params = [p.strip() for p in m.group(2).split(',') if p.strip()]
        self.defs[m.group(1)] = (params, body)

    def include(self, other):
        for k, v in other.contracts.items():
            self.contracts.setdefault(k, v)
        for k, v in other.defs.items():
            self.defs.setdefault(k, v)
        self.funcptr_contracts.update(other.funcptr_contracts)
        self.assumptions += other.assumptions


# ----------------------------------------------------------------------------------------------- clause translation
_IMP = re.compile(r'<==>|==>')
_COMMA = re.compile(r',')
_FOR = re.compile(r'\bfor\b')


def _split_top(text, sep_re):
    """split at top-level (paren depth 0) occurrences of the operators; returns [parts], [ops]"""
    parts, ops = [], []
    depth = 0
    i = 0
    last = 0
    instr = None
    while i < len(text):
        ch = text[i]
        if instr:
            if ch == instr:
                instr = None
        elif ch in '\'"':
            instr = ch
        elif ch in '([{':
            depth += 1
        elif ch in ')]}':
            depth -= 1
        elif depth == 0:
            m = sep_re.match(text, i)
            if m:
                parts.append(text[last:i])
                ops.append(m.group(0))
                i = m.end()
                last = i
                continue
        i += 1
    parts.append(text[last:])
    return parts, ops


_FOR_IN = re.compile(r'\bfor\s+(\w+)\s+in\b')


def _c_idents(text):
    """C identifiers that are Python keywords (`in`): `in[k]` -> `in_[k]`; the generator keyword `for k in` is kept"""
    text = _FOR_IN.sub(lambda m: 'for %s \x00' % m.group(1), text)
    text = re.sub(r'\bin\b', 'in_', text)
    return text.replace('\x00', 'in')


def _desugar(text):
    """rewrite `a ==> b` / `a <==> b` (top level, inside parentheses, inside generator bodies and call arguments)
    into implies(a, b) / iff(a, b); right associative, lowest precedence"""
    def imp(s):
        parts, ops = _split_top(s, _IMP)
        if not ops:
            return s
        acc = parts[-1]
        for p, o in zip(reversed(parts[:-1]), reversed(ops)):
            acc = ' %s((%s), (%s))' % ('implies' if o == '==>' else 'iff', p.strip(), acc.strip())
        return acc

    def rec(s):
        buf = ''
        j = 0
        while j < len(s):
            ch = s[j]
            if ch in '([':
                close = ')' if ch == '(' else ']'
                d = 1
                k = j + 1
                while k < len(s) and d:
                    if s[k] in '([':
                        d += 1
                    elif s[k] in ')]':
                        d -= 1
                    k += 1
                buf += ch + rec(s[j + 1:k - 1]) + close
                j = k
            else:
                buf += ch
                j += 1
        pieces, _ = _split_top(buf, _COMMA)
        out = []
        for piece in pieces:
            body, ops = _split_top(piece, _FOR)
            if ops:
                head = body[0]
                tail = piece[len(head):]
                out.append(imp(head) + ' ' + tail)
            else:
                out.append(imp(piece))
        return ','.join(out)
    return rec(text)


class Translator:
    """clause text -> z3, against a context object supplied by the executor:
         ctx.lookup(name, old) -> TV | z3 Bool | pointer value
         ctx.elem(ptr, idx_bv64, old) -> TV ;  ctx.field(ptr, fname, old) -> value ; ctx.length(ptr) -> TV
         ctx.is_ptr(v), ctx.ptr_null(v) -> z3 Bool/bool, ctx.ptr_same(a, b)
       defs: name -> (params, body)"""

    def __init__(self, ctx, defs=None):
        self.ctx = ctx
        self.defs = defs or {}
        self.bound = [{}]
        self.old = False
        self.nq = 0
        self.qdepth = 0
        self.qvars = []

    def clause(self, text):
        v = self.expr(text)
        return self.as_bool(v)

    def expr(self, text):
        try:
            tree = ast.parse(_desugar(_c_idents(text.strip())).strip(), mode="eval")
        except SyntaxError as ex:
            raise ClauseError('clause syntax: %s in %r' % (ex, text))
        return self.ev(tree.body)

    def as_bool(self, v):
        if isinstance(v, bool):
            return z3.BoolVal(v)
        if z3.is_bool(v):
            return v
        if isinstance(v, TV):
            return v.bv != 0
        raise ClauseError('not a boolean: %r' % (v,))

    def as_tv(self, v):
        if isinstance(v, TV):
            return v
        if isinstance(v, bool):
            return tv_const(int(v))
        if z3.is_bool(v):
            return TV(z3.If(v, z3.BitVecVal(1, 1), z3.BitVecVal(0, 1)), False)
        if isinstance(v, int):
            return tv_const(v)
        raise ClauseError('not an integer: %r' % (v,))

    def ev(self, n):
        m = getattr(self, 'ev_' + type(n).__name__, None)
        if m is None:
            raise ClauseError('clause construct %s' % type(n).__name__)
        return m(n)

    def ev_Constant(self, n):
        if isinstance(n.value, bool):
            return z3.BoolVal(n.value)
        if isinstance(n.value, int):
            return tv_const(n.value)
        raise ClauseError('constant %r' % (n.value,))

    def ev_Name(self, n):
        for b in reversed(self.bound):
            if n.id in b:
                return b[n.id]
        if n.id == 'True':
            return z3.BoolVal(True)
        if n.id == 'False':
            return z3.BoolVal(False)
        if n.id == 'NULL':
            return self.ctx.null()
        return self.ctx.lookup('in' if n.id == 'in_' else n.id, self.old)

    def ev_BoolOp(self, n):
        is_and = isinstance(n.op, ast.And)
        vs = []
        for v in n.values:
            b = self.as_bool(self.ev(v))
            sb = z3.simplify(b)
            # short circuit on concrete values: the rest may not even be well defined (NULL result, ...)
            if is_and and z3.is_false(sb):
                return z3.BoolVal(False)
            if not is_and and z3.is_true(sb):
                return z3.BoolVal(True)
            vs.append(b)
        return z3.And(*vs) if is_and else z3.Or(*vs)

    def ev_UnaryOp(self, n):
        if isinstance(n.op, ast.Not):
            return z3.Not(self.as_bool(self.ev(n.operand)))
        v = self.as_tv(self.ev(n.operand))
        if isinstance(n.op, ast.USub):
            return shrink(tv_sub(tv_const(0), v))
        if isinstance(n.op, ast.UAdd):
            return v
        raise ClauseError('unary operator %s (use a cast helper)' % type(n.op).__name__)

    def ev_BinOp(self, n):
        a = self.ev(n.left)
        b = self.ev(n.right)
        op = type(n.op).__name__
        if self.ctx.is_ptr(a) and op in ('Add', 'Sub'):
            d = to_index(self.as_tv(b))
            return self.ctx.ptr_add(a, d if op == 'Add' else -d)
        a = self.as_tv(a)
        b = self.as_tv(b)
        if op == 'Add':
            return tv_add(a, b)
        if op == 'Sub':
            return tv_sub(a, b)
        if op == 'Mult':
            return tv_mul(a, b)
        if op == 'FloorDiv':
            return tv_udivmod(a, b, False)
        if op == 'Mod':
            return tv_udivmod(a, b, True)
        if op in ('BitAnd', 'BitOr', 'BitXor'):
            return tv_bit({'BitAnd': '&', 'BitOr': '|', 'BitXor': '^'}[op], a, b)
        if op == 'Pow':
            a2, b2 = shrink(a), shrink(b)
            if z3.is_bv_value(a2.bv) and z3.is_bv_value(b2.bv):
                return tv_const(a2.bv.as_long() ** b2.bv.as_long())
            raise ClauseError('** needs literals (use pow2)')
        if op in ('LShift', 'RShift'):
            b2 = shrink(b)
            if not z3.is_bv_value(b2.bv):
                raise ClauseError('shift amount must be a literal (use pow2)')
            k = b2.bv.as_long()
            if op == 'LShift':
                w = a.w + k
                return TV(ext(a, w) << k, a.signed)
            return TV((a.bv >> k) if a.signed else z3.LShR(a.bv, k), a.signed)
        raise ClauseError('operator ' + op)

    def ev_Compare(self, n):
        left = self.ev(n.left)
        out = []
        for op, r in zip(n.ops, n.comparators):
            right = self.ev(r)
            o = {'Eq': '==', 'NotEq': '!=', 'Lt': '<', 'LtE': '<=', 'Gt': '>', 'GtE': '>='}.get(type(op).__name__)
            if o is None:
                raise ClauseError('comparison ' + type(op).__name__)
            if self.ctx.is_funcptr(left) or self.ctx.is_funcptr(right):
                if o not in ('==', '!='):
                    raise ClauseError('function pointer ordering')
                same = self.ctx.is_funcptr(left) and self.ctx.is_funcptr(right) and left.name == right.name
                out.append(z3.BoolVal(same if o == '==' else not same))
            elif self.ctx.is_ptr(left) or self.ctx.is_ptr(right):
                if o not in ('==', '!='):
                    raise ClauseError('pointer ordering in clause')
                e = self.ctx.ptr_same(left, right)
                out.append(e if o == '==' else z3.Not(e))
            elif (z3.is_bool(left) or isinstance(left, bool)) and (z3.is_bool(right) or isinstance(right, bool)) and o in ('==', '!='):
                e = self.as_bool(left) == self.as_bool(right)
                out.append(e if o == '==' else z3.Not(e))
            else:
                out.append(tv_cmp(o, self.as_tv(left), self.as_tv(right)))
            left = right
        return out[0] if len(out) == 1 else z3.And(*out)

    def ev_IfExp(self, n):
        c = self.as_bool(self.ev(n.test))
        sc = z3.simplify(c)
        if z3.is_true(sc):
            return self.ev(n.body)
        if z3.is_false(sc):
            return self.ev(n.orelse)
        if not any(_contains(c, q) for q in self.qvars):
            k = self.ctx.known(c)       # decided by the path condition: keep only the live branch
            if k is True:
                return self.ev(n.body)
            if k is False:
                return self.ev(n.orelse)
        a = self.ev(n.body)
        b = self.ev(n.orelse)
        if z3.is_bool(a) or z3.is_bool(b) or isinstance(a, bool) or isinstance(b, bool):
            return z3.If(c, self.as_bool(a), self.as_bool(b))
        return tv_ite(c, self.as_tv(a), self.as_tv(b))

    def ev_Subscript(self, n):
        base = self.ev(n.value)
        if not self.ctx.is_ptr(base):
            raise ClauseError('subscript of a non-pointer')
        idx = self.as_tv(self.ev(n.slice))
        return self.ctx.elem(base, to_index(idx), self.old)

    def ev_Attribute(self, n):
        base = self.ev(n.value)
        if not self.ctx.is_ptr(base):
            raise ClauseError('field of a non-pointer')
        return self.ctx.field(base, n.attr, self.old)

    def _quant(self, gen, forall):
        if len(gen.generators) != 1 or gen.generators[0].ifs or not isinstance(gen.generators[0].target, ast.Name):
            raise ClauseError('quantifier form')
        g = gen.generators[0]
        it = g.iter
        if not (isinstance(it, ast.Call) and isinstance(it.func, ast.Name) and it.func.id == 'range' and 1 <= len(it.args) <= 2):
            raise ClauseError('quantifier must range over range(a, b)')
        lo = tv_const(0) if len(it.args) == 1 else self.as_tv(self.ev(it.args[0]))
        hi = self.as_tv(self.ev(it.args[-1]))
        # literal small ranges are expanded (no quantifier, literal indices): the body is translated once with a symbolic
        # index and instantiated by substitution; if a helper needs the literal itself, it is translated once per value
        lo_s, hi_s = shrink(lo), shrink(hi)
        if z3.is_bv_value(lo_s.bv) and z3.is_bv_value(hi_s.bv) and not lo_s.signed and not hi_s.signed:
            a, b = lo_s.bv.as_long(), hi_s.bv.as_long()
            if b - a <= 256:
                inst = None
                kk = z3.BitVec('%s!x%d' % (g.target.id, self.ctx.fresh_id()), 64)
                self.bound.append({g.target.id: TV(kk, False)})
                self.qvars.append(kk)
                try:
                    body = self.as_bool(self.ev(gen.elt))
                    inst = [z3.substitute(body, (kk, z3.BitVecVal(j, 64))) for j in range(a, b)]
                except ClauseError as ex:
                    if 'literal expected' not in str(ex):
                        raise
                finally:
                    self.bound.pop()
                    self.qvars.pop()
                if inst is None:
                    inst = []
                    for j in range(a, b):
                        self.bound.append({g.target.id: TV(z3.BitVecVal(j, 64), False)})
                        try:
                            inst.append(self.as_bool(self.ev(gen.elt)))
                        finally:
                            self.bound.pop()
                if forall:
                    return z3.And(*inst) if inst else z3.BoolVal(True)
                return z3.Or(*inst) if inst else z3.BoolVal(False)
        self.nq += 1
        name = '%s!q%d' % (g.target.id, self.ctx.fresh_id())
        k = z3.BitVec(name, 64)
        kt = TV(k, False)
        self.bound.append({g.target.id: kt})
        self.qdepth += 1
        self.qvars.append(k)
        try:
            body = self.as_bool(self.ev(gen.elt))
        finally:
            self.bound.pop()
            self.qdepth -= 1
            self.qvars.pop()
        rng = z3.And(tv_cmp('<=', lo, kt), tv_cmp('<', kt, hi))
        if forall:
            b2 = reindex(k, z3.Implies(rng, body))
            return z3.ForAll([k], b2, patterns=bare_reads(k, b2))
        b2 = reindex(k, z3.And(rng, body))
        return z3.Exists([k], b2, patterns=bare_reads(k, b2))

    def ev_Call(self, n):
        if not isinstance(n.func, ast.Name):
            raise ClauseError('call form')
        f = n.func.id
        if f in ('all', 'any'):
            if len(n.args) != 1 or not isinstance(n.args[0], ast.GeneratorExp):
                raise ClauseError('all/any need a generator')
            return self._quant(n.args[0], f == 'all')
        if f == 'old':
            saved = self.old
            self.old = True
            try:
                return self.ev(n.args[0])
            finally:
                self.old = saved
        if f == 'oldmem':   # oldmem(p, i): element i (a CURRENT value) of what p pointed to in the entry state
            p = self.ev(n.args[0])
            i = to_index(self.as_tv(self.ev(n.args[1])))
            if not self.ctx.is_ptr(p):
                raise ClauseError('oldmem of a non-pointer')
            return self.ctx.elem(p, i, True)
        if f in ('pre', 'iter'):
            # pre(e): value at the entry of the innermost loop whose invariant this is (before the havoc);
            # iter(e): value at the start of the current iteration (loop lemmas / preservation)
            saved = self.old
            self.old = f
            try:
                return self.ev(n.args[0])
            finally:
                self.old = saved
        if f == 'implies':
            a = self.as_bool(self.ev(n.args[0]))
            if z3.is_false(z3.simplify(a)):
                return z3.BoolVal(True)
            if not any(_contains(a, q) for q in self.qvars) and self.ctx.known(a) is False:
                return z3.BoolVal(True)      # excluded by the path condition: the consequent need not even be well defined here
            return z3.Implies(a, self.as_bool(self.ev(n.args[1])))
        if f == 'iff':
            return self.as_bool(self.ev(n.args[0])) == self.as_bool(self.ev(n.args[1]))
        m = re.match(r'^([ui])(8|16|32|64|128)$', f)
        if m:
            return conv(self.as_tv(self.ev(n.args[0])), int(m.group(2)), m.group(1) == 'i')
        if f == 'null':
            return self.ctx.ptr_null(self.ev(n.args[0]))
        if f == 'same':
            return self.ctx.ptr_same(self.ev(n.args[0]), self.ev(n.args[1]))
        if f == 'len':
            return self.ctx.length(self.ev(n.args[0]))
        if f == 'offset':
            return self.ctx.offset(self.ev(n.args[0]))
        if f in ('min', 'max'):
            a = self.as_tv(self.ev(n.args[0]))
            b = self.as_tv(self.ev(n.args[1]))
            c = tv_cmp('<=', a, b)
            return tv_ite(c, a, b) if f == 'min' else tv_ite(c, b, a)
        if f == 'pow2':
            e = self.as_tv(self.ev(n.args[0]))
            mx = self._lit(n.args[1])
            w = mx + 1
            ee = ext(e, w) if e.w <= w else None
            if ee is None:
                # e wider than needed: clamp (e <= maxbits is the caller's side condition)
                ee = z3.Extract(w - 1, 0, e.bv)
            return TV(z3.BitVecVal(1, w) << ee, False, pow2=True)
        if f == 'shl':      # shl(x, e, bits): (x << e) mod 2**bits, symbolic e (e < bits is the caller's side condition)
            x = self.as_tv(self.ev(n.args[0]))
            e = self.as_tv(self.ev(n.args[1]))
            bits = self._lit(n.args[2])
            xb = conv(x, bits, False).bv
            # canonical shift amount: its low 8 bits (bits <= 256), pushed to the leaves, independent of operand widths
            e8 = z3.simplify(z3.Extract(7, 0, e.bv)) if e.w >= 8 else ext(TV(e.bv, False), 8)
            eb = z3.ZeroExt(bits - 8, e8)
            return TV(xb << eb, False)
        if f in ('be', 'le'):
            p = self.ev(n.args[0])
            cnt = self.as_tv(self.ev(n.args[1]))
            mx = self._lit(n.args[2])
            return self._bytes_value(p, cnt, mx, f == 'be')
        if f == 'concat_le':       # concat_le(p, nbytes literal): fixed-size little-endian word
            p = self.ev(n.args[0])
            mx = self._lit(n.args[1])
            bs = [self.ctx.elem(p, z3.BitVecVal(j, 64), self.old).bv for j in range(mx)]
            return TV(z3.Concat(*reversed(bs)) if len(bs) > 1 else bs[0], False)
        if f in self.defs:
            params, body = self.defs[f]
            if len(params) != len(n.args):
                raise ClauseError('arity of %s' % f)
            args = [self.ev(a) for a in n.args]
            self.bound.append(dict(zip(params, args)))
            saved_old = self.old
            try:
                return self.expr_nested(body)
            finally:
                self.bound.pop()
                self.old = saved_old
        h = self.ctx.helper(f)
        if h is not None:
            return h(self, [self.ev(a) for a in n.args])
        raise ClauseError('unknown function %s in clause' % f)

    def expr_nested(self, text):
        tree = ast.parse(_desugar(_c_idents(text.strip())).strip(), mode="eval")
        return self.ev(tree.body)

    def _lit_tv(self, v):
        v = shrink(self.as_tv(v))
        if not z3.is_bv_value(v.bv):
            raise ClauseError('literal expected')
        return v.bv.as_long()

    def _lit(self, node):
        v = shrink(self.as_tv(self.ev(node)))
        if not z3.is_bv_value(v.bv):
            raise ClauseError('literal expected')
        return v.bv.as_long()

    def _bytes_value(self, p, cnt, mx, big):
        """bytes p[0..cnt) as an unsigned integer of mx*8 bits, cnt <= mx.  Iterates over POSITIONS (literal offsets from p),
        so that with a literal pointer offset every array read is at a literal index."""
        W = mx * 8
        acc = z3.BitVecVal(0, W)
        c64 = to_index(cnt)
        cW = z3.ZeroExt(W - 64, c64) if W > 64 else z3.Extract(W - 1, 0, c64)
        # positions that the entry facts rule out (idx >= upper bound of cnt) are dropped: same value, smaller and
        # syntactically stable terms
        ub = self.ctx.upper_bound(c64, mx)
        for idx in range(min(mx, ub)):
            ii = z3.BitVecVal(idx, 64)
            b = self.ctx.elem(p, ii, self.old).bv
            zb = z3.ZeroExt(W - 8, b) if W > 8 else b
            if big:
                sh = (cW - 1 - idx) * 8        # byte idx has weight 256**(cnt-1-idx)
                term = zb << sh
            else:
                term = zb << (8 * idx)
            acc = acc | z3.If(z3.ULT(ii, c64), term, z3.BitVecVal(0, W))
        return TV(acc, False)
