"""CVC bit-precise engine core: path exploration by decision replay, obligations, clause context."""
import z3

from .clang_ast import Unsupported, CT, sizeof
from .contracts import TV, Translator, ClauseError, conv
from .mem import *      # noqa
from .exec_expr import ExprMixin
from .exec_stmt import StmtMixin
from .exec_call import CallMixin


def flat_count(ct):
    """(number of innermost elements, innermost element type) of a possibly nested array type"""
    n = 1
    while ct.kind == 'arr':
        if ct.n is None:
            return None, ct
        n *= ct.n
        ct = ct.to
    return n, ct


class PathEnd(Exception):
    """this path stops here (after an invariant check, an abort, or an infeasible branch)"""


class LoopFrameGrow(Exception):
    """a loop body wrote a region that was not havocked at the loop head: grow the frame and re-explore"""

    def __init__(self, key, rids):
        self.key = key
        self.rids = rids


class Obligation:
    __slots__ = ('kind', 'name', 'clause', 'pc', 'goal', 'path', 'line', 'func', 'config', 'entry', 'cases')

    def __init__(self, kind, name, clause, pc, goal, path, line, func, config, entry):
        self.kind, self.name, self.clause, self.pc, self.goal = kind, name, clause, pc, goal
        self.path, self.line, self.func, self.config, self.entry = path, line, func, config, entry
        self.cases = None


class Frame:
    """one activation: the function under verification or an inlined callee"""

    def __init__(self, fname, node, contract):
        self.fname = fname
        self.node = node
        self.contract = contract
        self.scope = {}          # variable name -> decl id (latest declaration wins)
        self.cells = {}          # decl id -> Region for address-taken / aggregate locals
        self.loop_ord = {}       # id(loop node) -> ordinal
        self.addr_taken = set()
        self.entry = None        # entry State snapshot (for old())
        self.logical = {}
        self.params = {}         # parameter name -> entry value


class Engine(ExprMixin, StmtMixin, CallMixin):
    FEAS_TIMEOUT_MS = 1000
    CONST_UNROLL_LIMIT = 4096

    def __init__(self, tu, registry, prune=True):
        self.tu = tu
        self.reg = registry
        self.prune = prune
        self.obligations = []
        self.ob_seen = set()
        self.frames = []
        self.st = None
        self.nfresh = 0
        self.decisions = []
        self.dpos = 0
        self.worklist = []
        self.path_no = 0
        self.config = 'default'
        self.loop_extra_mod = {}     # (fname, ordinal) -> set of region ids discovered to be written (auto-grown)
        self.assumptions_used = set()
        self.contracts_used = set()
        self.strlits = {}
        self.feas_cache = {}
        self.bound_cache = {}
        self.known_cache = {}
        self.cur_line = None
        self.paths_done = 0
        self.stats = {'paths': 0, 'pruned': 0}

    # ------------------------------------------------------------------ fresh names / decisions
    def fresh_id(self):
        self.nfresh += 1
        return self.nfresh

    def fresh(self, name, sort):
        self.nfresh += 1
        return z3.Const('%s!%d' % (name, self.nfresh), sort)

    def fresh_bv(self, name, bits):
        return self.fresh(name, z3.BitVecSort(bits))

    def decide(self, n=2):
        if self.dpos < len(self.decisions):
            c = self.decisions[self.dpos]
        else:
            c = 0
            for alt in range(n - 1, 0, -1):
                self.worklist.append(self.decisions + [alt])
            self.decisions.append(0)
        self.dpos += 1
        return c

    def feasible(self):
        if not self.prune:
            return True
        key = tuple(p.get_id() for p in self.st.pc)
        if key in self.feas_cache:
            return self.feas_cache[key][0]
        # pruning only needs a subset of the path condition to be contradictory: the small conjuncts decide it cheaply
        s = z3.Solver()
        s.set('timeout', self.FEAS_TIMEOUT_MS)
        s.add(*[p for p in self.st.pc if _small(p, 150)])
        r = s.check() != z3.unsat
        self.feas_cache[key] = (r, list(self.st.pc))      # the terms are kept alive: z3 AST ids are only unique among live terms
        if not r:
            self.stats['pruned'] += 1
        return r

    def branch(self, c):
        """take a branch on z3 Bool c: returns True/False and extends the path condition"""
        cs = z3.simplify(c)
        if z3.is_true(cs):
            return True
        if z3.is_false(cs):
            return False
        taken = self.decide(2) == 0
        self.st.pc.append(c if taken else z3.Not(c))
        if not self.feasible():
            raise PathEnd()
        return taken

    def assume(self, c):
        if isinstance(c, bool):
            c = z3.BoolVal(c)
        # conjunctions are stored conjunct by conjunct: hypothesis selection in the solver front end works per conjunct
        todo = [c]
        while todo:
            x = todo.pop(0)
            if z3.is_and(x):
                todo = list(x.children()) + todo
            elif not z3.is_true(x):
                self.st.pc.append(x)

    # ------------------------------------------------------------------ obligations
    def oblige(self, kind, name, goal, clause=None, node=None, cases=None):
        if isinstance(goal, bool):
            goal = z3.BoolVal(goal)
        g = goal
        if z3.is_true(z3.simplify(goal)):
            g = z3.BoolVal(True)
        top = self.frames[0]
        if len(self.frames) > 1:
            name = '%s/%s' % (self.frames[-1].fname, name)
        line = None
        if node is not None:
            line = self.tu.node_file_line(node)[1]
        key = (kind, name, g.get_id(), tuple(p.get_id() for p in self.st.pc))
        if key in self.ob_seen:
            return
        self.ob_seen.add(key)
        ob = Obligation(kind, name, clause or name, list(self.st.pc), g, self.path_no, line, top.fname, self.config, top.entry)
        ob.cases = cases
        self.obligations.append(ob)

    # ------------------------------------------------------------------ frames, scopes
    @property
    def frame(self):
        return self.frames[-1]

    def push_frame(self, fname, node, contract):
        f = Frame(fname, node, contract)
        f.addr_taken = self._addr_taken(node)
        n = [0]

        def walk(x):
            if isinstance(x, dict):
                if x.get('kind') in ('ForStmt', 'WhileStmt', 'DoStmt'):
                    f.loop_ord[id(x)] = n[0]
                    n[0] += 1
                for c in x.get('inner', []):
                    walk(c)
        walk(node)
        self.frames.append(f)
        return f

    def _addr_taken(self, fnode):
        out = set()

        def walk(x):
            if not isinstance(x, dict):
                return
            if x.get('kind') == 'UnaryOperator' and x.get('opcode') == '&':
                y = x['inner'][0]
                while y.get('kind') in ('ParenExpr',):
                    y = y['inner'][0]
                if y.get('kind') == 'DeclRefExpr':
                    out.add(y['referencedDecl']['id'])
            for c in x.get('inner', []):
                walk(c)
        walk(fnode)
        return out

    # ------------------------------------------------------------------ regions
    def new_array_region(self, name, bits, length, content=None, heap=False, const=False, stack=False):
        r = Region(name, 'arr', bits=bits, length=length, heap=heap, const=const, stack=stack)
        self.st.mem[r.id] = content if content is not None else self.fresh(name, arr_sort(bits))
        return r

    def new_cell_region(self, name, ct, value=None, root=None, heap=False, stack=False):
        r = Region(name, 'cell', ct=ct, root=root, heap=heap, stack=stack)
        self.st.mem[r.id] = value
        return r

    def new_struct_region(self, name, ct, init='fresh', root=None, heap=False, stack=False):
        """init: 'fresh' (unconstrained scalars, NULL-or-unknown pointers are NOT invented: pointers start as None=uninit),
                 'zero' (calloc)"""
        if not ct.complete:
            raise Unsupported('incomplete struct %s' % ct.name)
        if ct.union:
            raise Unsupported('union %s' % ct.name)
        r = Region(name, 'struct', ct=ct, fields={}, root=root, heap=heap, stack=stack)
        rt = root or r
        for fname, ft in ct.fields:
            r.fields[fname] = self.new_typed_region('%s.%s' % (name, fname), ft, init, rt)
        return r

    def new_typed_region(self, name, ct, init, root=None, heap=False, stack=False):
        if ct.kind == 'int':
            v = bv(0, ct.bits) if init == 'zero' else (self.fresh_bv(name, ct.bits) if init == 'fresh' else None)
            return self.new_cell_region(name, ct, v, root, heap, stack)
        if ct.kind == 'ptr':
            v = NULL if init == 'zero' else None
            return self.new_cell_region(name, ct, v, root, heap, stack)
        if ct.kind == 'arr':
            # arrays of arrays (DataBlock L[65]) are one flat region of the innermost integer elements
            n, base = flat_count(ct)
            if base.kind != 'int' or n is None:
                raise Unsupported('array of %r' % (ct.to,))
            content = z3.K(BV64, bv(0, base.bits)) if init == 'zero' else None
            r = Region(name, 'arr', bits=base.bits, length=bv(n, 64), root=root, heap=heap, stack=stack)
            self.st.mem[r.id] = content if content is not None else self.fresh(name, arr_sort(base.bits))
            return r
        if ct.kind == 'struct':
            return self.new_struct_region(name, ct, init, root, heap, stack)
        raise Unsupported('object of type %r' % (ct,))

    def string_region(self, node):
        key = node['id']
        if key not in self.strlits:
            from .clang_ast import string_literal_bytes
            data = string_literal_bytes(node['value']) + b'\0'
            arr = z3.K(BV64, bv(0, 8))
            for i, b in enumerate(data):
                if b:
                    arr = z3.Store(arr, bv(i, 64), bv(b, 8))
            r = Region('str%d' % len(self.strlits), 'arr', bits=8, length=bv(len(data), 64), const=True)
            self.strlits[key] = (r, arr)
        r, arr = self.strlits[key]
        self.st.mem.setdefault(r.id, arr)
        return r

    def select(self, arr, idx, rid=None):
        """array read; at a literal index the read is resolved through stores / lambdas right away"""
        i = idx if z3.is_bv_value(idx) else z3.simplify(idx)
        if z3.is_bv_value(i):
            if rid is not None:
                ent = self.st.lit.get(rid)
                if ent is not None and ent[2].eq(arr):
                    v = ent[1].get(i.as_long())
                    if v is not None:
                        return v
            v = resolve_select(arr, i)
            if rid is not None:
                ent = self.st.lit.get(rid)
                if ent is None or not ent[2].eq(arr):
                    ent = (arr.get_id(), {}, arr)
                    self.st.lit[rid] = ent
                ent[1][i.as_long()] = v
            return v
        return z3.Select(arr, idx)

    def store_lit(self, rid, old_arr, new_arr, idx, v):
        """keep the literal-index view in step with a store at a literal index"""
        ent = self.st.lit.get(rid)
        d = dict(ent[1]) if ent is not None and ent[2].eq(old_arr) else {}
        d[idx] = v
        self.st.lit[rid] = (new_arr.get_id(), d, new_arr)

    def upper_bound(self, term, mx):
        """largest value <= mx that `term` can take under the ENTRY facts of the function under verification (sound for
        every later state as long as the term only mentions entry symbols, which is checked)"""
        eng = self
        t = z3.simplify(term)
        if z3.is_bv_value(t):
            return min(mx, t.as_long())
        entry = eng.frames[0].entry
        if entry is None:
            return mx
        key = (t.get_id(), mx)
        cache = eng.bound_cache
        if key in cache:
            return cache[key][0]
        # only entry symbols: uninterpreted constants created before the body ran (no '!' in the name)
        todo = [t]
        seen = set()
        ok = True
        while todo and ok:
            x = todo.pop()
            if x.get_id() in seen:
                continue
            seen.add(x.get_id())
            if z3.is_const(x) and x.decl().kind() == z3.Z3_OP_UNINTERPRETED and '!' in x.decl().name():
                ok = False
            todo.extend(x.children())
        res = mx
        if ok:
            s = z3.Solver()
            s.set('timeout', 2000)
            s.add(*entry.pc)
            lo, hi = 0, mx           # invariant: term <= hi is known
            if s.check(z3.UGT(t, z3.BitVecVal(mx, t.size()))) == z3.unsat or True:
                while lo < hi:
                    mid = (lo + hi) // 2
                    if s.check(z3.UGT(t, z3.BitVecVal(mid, t.size()))) == z3.unsat:
                        hi = mid
                    else:
                        lo = mid + 1
                res = hi
        cache[key] = (res, t)
        return res

    def alive_check(self, region, what, node=None):
        root = region.root
        if root.heap and root.id in self.st.dead:
            self.oblige('use_after_free', what, False, 'no access to freed memory: ' + what, node)

    # ------------------------------------------------------------------ clause context
    def clause_ctx(self, frame=None, mode='post', names=None, old_state=None, result=None):
        return ClauseCtx(self, frame or self.frame, mode, names, old_state, result)

    def eval_clause(self, text, ctx):
        tr = Translator(ctx, self.reg.defs if self.reg else {})
        return tr.clause(text)


def resolve_select(arr, i):
    """arr[i] for a literal i, looking through stores at literal indices WITHOUT rewriting the stored values"""
    iv = i.as_long()
    a = arr
    for _ in range(100000):
        if z3.is_store(a):
            j = a.arg(1)
            if z3.is_bv_value(j):
                if j.as_long() == iv:
                    return a.arg(2)
                a = a.arg(0)
                continue
            break
        if z3.is_K(a):
            return a.arg(0)
        break
    if a is arr or not a.eq(arr):
        # symbolic store / lambda / plain array underneath: let the rewriter finish the (now short) read
        return z3.simplify(z3.Select(a, i)) if not z3.is_const(a) else z3.Select(a, i)
    return z3.Select(a, i)


def _small(e, limit):
    n = 0
    todo = [e]
    seen = set()
    while todo:
        x = todo.pop()
        if x.get_id() in seen:
            continue
        seen.add(x.get_id())
        n += 1
        if n > limit:
            return False
        if z3.is_quantifier(x):
            return False
        todo.extend(x.children())
    return True


class ClauseCtx:
    """name resolution for clauses.
       mode 'post': parameter names are ENTRY values; memory is the current state; old() = entry state
       mode 'inv' : names are current values of locals/parameters; old() = entry state of the function
       mode 'call': names come from `names` (callee parameter -> argument value); old() = old_state"""

    def __init__(self, eng, frame, mode, names, old_state, result):
        self.eng = eng
        self.frame = frame
        self.mode = mode
        self.names = names or {}
        self.old_state = old_state if old_state is not None else frame.entry
        self.result = result
        self.pre_state = None
        self.iter_state = None

    def fresh_id(self):
        return self.eng.fresh_id()

    def helper(self, name):
        return getattr(self.eng.reg, 'helpers', {}).get(name) if self.eng.reg else None

    def _wrap(self, v, ct=None):
        if isinstance(v, (Ptr, FuncPtr)) or z3.is_bool(v):
            return v
        if isinstance(v, TV):
            return v
        if v is None:
            raise ClauseError('uninitialised value in clause')
        signed = bool(ct is not None and ct.kind == 'int' and ct.signed)
        return TV(v, signed)

    def lookup(self, name, old):
        e = self.eng
        if old in ('pre', 'iter'):
            snap = self.pre_state if old == 'pre' else (self.iter_state if self.iter_state is not None else e.st)
            if snap is None:
                raise ClauseError('pre() outside a loop invariant')
            f = self.frame
            if name in f.scope:
                did = f.scope[name]
                d = e.tu.decl_by_id[did]
                ct = e.tu.ctype(d['type'])
                if did in f.cells:
                    r = f.cells[did]
                    return self._wrap(snap.mem[r.id], ct) if r.kind == 'cell' else Ptr(r)
                if did in snap.env:
                    return self._wrap(snap.env[did], ct)
            old = False
        if name == 'ret' and self.result is not None:
            return self.result          # the return value, for functions that have a parameter called `result`
        if name == 'result' and self.result is not None and 'result' not in self.frame.params and 'result' not in self.names:
            return self.result
        if name in self.names:
            return self.names[name]
        if name in e.st.ghost and not old:
            return e.st.ghost[name]
        if old and self.old_state is not None and name in self.old_state.ghost:
            return self.old_state.ghost[name]
        f = self.frame
        if self.mode == 'inv' and not old:
            if name in f.scope:
                did = f.scope[name]
                d = e.tu.decl_by_id[did]
                ct = e.tu.ctype(d['type'])
                if did in f.cells:
                    r = f.cells[did]
                    if r.kind == 'cell':
                        return self._wrap(e.st.mem[r.id], ct)
                    return Ptr(r)
                if did not in e.st.env:
                    raise ClauseError('variable %s not in scope here' % name)
                return self._wrap(e.st.env[did], ct)
        if name in f.params:
            v, ct = f.params[name]
            return self._wrap(v, ct)
        if name in f.logical:
            return f.logical[name]
        if name in e.tu.fdecls:
            return FuncPtr(name)
        raise ClauseError('unknown name %r in clause (renamed variable?)' % name)

    def is_ptr(self, v):
        return isinstance(v, Ptr)

    def is_funcptr(self, v):
        return isinstance(v, FuncPtr)

    def known(self, c):
        """True / False if the (small conjuncts of the) current path condition decide c, else None"""
        eng = self.eng
        key = (c.get_id(), tuple(p.get_id() for p in eng.st.pc))
        if key in eng.known_cache:
            return eng.known_cache[key][0]
        small = [p for p in eng.st.pc if _small(p, 60)]
        s = z3.Solver()
        s.set('timeout', 1000)
        s.add(*small)
        res = None
        if s.check(z3.Not(c)) == z3.unsat:
            res = True
        elif s.check(c) == z3.unsat:
            res = False
        eng.known_cache[key] = (res, c, list(eng.st.pc))
        return res

    def upper_bound(self, term, mx):
        return self.eng.upper_bound(term, mx)

    def null(self):
        return NULL

    def ptr_add(self, p, d):
        if p.region is None:
            raise ClauseError('arithmetic on NULL in clause')
        return Ptr(p.region, p.off + d)

    def ptr_null(self, v):
        if not isinstance(v, Ptr):
            raise ClauseError('null() of a non-pointer')
        return z3.BoolVal(v.region is None)

    def ptr_same(self, a, b):
        if not isinstance(a, Ptr) or not isinstance(b, Ptr):
            raise ClauseError('pointer comparison with a non-pointer')
        if a.region is None or b.region is None:
            return z3.BoolVal(a.region is b.region)
        if a.region is not b.region:
            return z3.BoolVal(False)
        return a.off == b.off

    def _mem(self, old):
        if old == 'pre':
            if self.pre_state is None:
                raise ClauseError('pre() outside a loop invariant')
            return self.pre_state.mem
        if old == 'iter':
            return (self.iter_state if self.iter_state is not None else self.eng.st).mem
        if old:
            if self.old_state is None:
                raise ClauseError('no old state')
            return self.old_state.mem
        return self.eng.st.mem

    def elem(self, p, idx, old):
        if p.region is None:
            raise ClauseError('subscript of NULL in clause')
        r = p.region
        mem = self._mem(old)
        if r.kind == 'arr':
            if r.id not in mem:
                raise ClauseError('region %s does not exist in the %s state' % (r.name, 'old' if old else 'current'))
            return TV(self.eng.select(mem[r.id], p.off + idx), False)
        if r.kind == 'cell':
            v = mem.get(r.id)
            if v is None:
                raise ClauseError('object %s is uninitialised' % r.name)
            return self._wrap(v, r.ct)
        raise ClauseError('subscript into %s region' % r.kind)

    def field(self, p, fname, old):
        if p.region is None or p.region.kind != 'struct':
            raise ClauseError('field access on a non-struct pointer')
        fr = p.region.fields.get(fname)
        if fr is None:
            raise ClauseError('no field %s' % fname)
        if fr.kind == 'cell':
            mem = self._mem(old)
            v = mem.get(fr.id)
            if v is None:
                raise ClauseError('field %s uninitialised' % fname)
            return self._wrap(v, fr.ct)
        return Ptr(fr)

    def length(self, p):
        if p.region is None:
            return TV(bv(0, 64), False)
        if p.region.kind != 'arr':
            return TV(bv(1, 64), False)
        return TV(p.region.length - p.off, False)

    def offset(self, p):
        return TV(p.off, False)
