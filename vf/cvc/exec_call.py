"""Calls: libc models (malloc/calloc/free/memcpy/memmove/memset/memcmp/assert), inlining, callee contracts."""
import re

import z3

from .clang_ast import Unsupported, sizeof
from .contracts import TV, Translator, ClauseError, conv, to_index
from .mem import *      # noqa

SMALL_COPY = 32


def parse_region_spec(s):
    s = s.strip()
    m = re.match(r'^u(8|16|32|64)\[(.*)\]$', s)
    if m:
        return ('arr', int(m.group(1)), m.group(2))
    m = re.match(r'^ptr\[(.*)\]$', s)
    if m:
        return ('parr', 64, m.group(1))
    if s == 'struct':
        return ('struct',)
    if s == 'cell':
        return ('cell',)
    if s.startswith('fn:'):
        return ('fn', s[3:])
    if s.startswith('alias:'):
        return ('alias', s[6:])
    if s.startswith('into:'):
        return ('into', s[5:])
    if s == 'null':
        return ('null',)
    raise ValueError('region spec %r' % s)


class CallMixin:
    # ------------------------------------------------------------------ dispatch
    def call_expr(self, e):
        fn = self._strip_parens(e['inner'][0])
        while fn['kind'] in ('ImplicitCastExpr', 'ParenExpr') and fn.get('castKind') in (None, 'FunctionToPointerDecay', 'BuiltinFnToFnPtr', 'NoOp'):
            fn = fn['inner'][0]
        if fn['kind'] == 'DeclRefExpr' and fn['referencedDecl']['kind'] == 'FunctionDecl':
            target = FuncPtr(fn['referencedDecl']['name'])
        else:
            target = self.rval(e['inner'][0])
            if not isinstance(target, FuncPtr):
                raise Unsupported('call through %r' % (target,))
        args = [self.rval(a) for a in e['inner'][1:]]
        argn = e['inner'][1:]
        self.st.version += 1
        name = target.name
        if target.abstract:
            cname = self.reg.funcptr_contracts.get(name)
            if cname is None or cname not in self.reg.contracts:
                raise Unsupported('call through abstract function pointer %s without contract' % name)
            return self.apply_contract(self.reg.contracts[cname], args, e, None)
        b = getattr(self, 'bi_' + name, None)
        if b is not None:
            return b(args, e, argn)
        c = self.reg.contracts.get(name)
        if c is not None and not c.inline:
            return self.apply_contract(c, args, e, self.tu.fdecls.get(name))
        if c is not None and c.inline:
            return self.inline_call(name, c, args, e)
        raise Unsupported('call to %s: no contract and not registered for inlining' % name)

    def inline_call(self, name, c, args, e):
        from .exec_stmt import ReturnEx, BreakEx, ContinueEx, GotoEx
        node = self.tu.funcs.get(name)
        if node is None:
            raise Unsupported('no body for %s' % name)
        if any(f.fname == name for f in self.frames):
            raise Unsupported('recursion')
        if len(self.frames) > 12:
            raise Unsupported('inline depth')
        f = self.push_frame(name, node, c)
        try:
            params = [p for p in node['inner'] if p.get('kind') == 'ParmVarDecl']
            if len(params) != len(args):
                raise Unsupported('argument count for %s' % name)
            for p, a in zip(params, args):
                self.bind_param(f, p, a)
            body = next(x for x in node['inner'] if x.get('kind') == 'CompoundStmt')
            try:
                self.exec_stmt(body)
            except ReturnEx as r:
                return r.value
            except (BreakEx, ContinueEx, GotoEx):
                raise Unsupported('stray control flow out of %s' % name)
            return None
        finally:
            self.frames.pop()

    def bind_param(self, f, p, a):
        ct = self.tu.ctype(p['type'])
        name = p.get('name')
        if name is None:
            return
        f.scope[name] = p['id']
        f.params[name] = (a, ct)
        if p['id'] in f.addr_taken:
            r = self.new_cell_region(name, ct, a, stack=True)
            f.cells[p['id']] = r
        else:
            self.st.env[p['id']] = a

    # ------------------------------------------------------------------ allocation
    def _alloc(self, size, zero, node, what):
        if not self.branch_alloc():
            self.st.ghost['alloc_failed'] = z3.BoolVal(True)
            return NULL
        self.assume(z3.ULE(size, bv(PTRDIFF_MAX, 64)))
        r = Region('%s@%s' % (what, self.tu.node_file_line(node)[1]), 'raw', length=size, heap=True)
        self.st.mem[r.id] = 'zero' if zero else 'undef'
        self.st.allocated.append(r)
        return Ptr(r)

    def branch_alloc(self):
        """True: allocation succeeds.  Both outcomes are always explored."""
        return self.decide(2) == 0

    def bi_malloc(self, args, e, argn):
        return self._alloc(args[0], False, e, 'malloc')

    def bi_calloc(self, args, e, argn):
        a, b = args
        p = self._alloc(a * b, True, e, 'calloc')
        if p.region is not None:
            self.assume(z3.BVMulNoOverflow(a, b, False))
        return p

    def bi_align_alloc(self, args, e, argn):
        return self._alloc(args[0], False, e, 'align_alloc')

    def bi_free(self, args, e, argn):
        p = args[0]
        if not isinstance(p, Ptr):
            raise Unsupported('free of non-pointer')
        if p.region is None:
            return None
        txt = self.text(e)
        root = p.region
        ok = root.heap and root.root is root
        self.oblige('free_valid', txt, z3.And(z3.BoolVal(bool(ok)), p.off == 0), 'argument of %s is the start of a live heap block' % txt, e)
        if not ok:
            return None
        if root.id in self.st.dead:
            self.oblige('double_free', txt, False, 'block not freed twice: ' + txt, e)
            return None
        self.oblige('double_free', txt, True, 'block not freed twice: ' + txt, e)
        self.st.dead.add(root.id)
        # a raw block and its typed view die together
        for rawid, t in self.st.retyped.items():
            if t is root:
                self.st.dead.add(rawid)
        if root.kind == 'raw' and root.id in self.st.retyped:
            self.st.dead.add(self.st.retyped[root.id].id)
        return None

    bi_align_free = bi_free

    def bi___assert_fail(self, args, e, argn):
        from .exec import PathEnd
        self.oblige('assert', 'line%s' % self.tu.node_file_line(e)[1], False, 'assertion cannot fail (abort unreachable)', e)
        raise PathEnd()

    def bi_abort(self, args, e, argn):
        from .exec import PathEnd
        self.oblige('assert', 'abort@%s' % self.tu.node_file_line(e)[1], False, 'abort unreachable', e)
        raise PathEnd()

    # ------------------------------------------------------------------ byte views
    def _elem_view(self, p, node):
        """(region, bits, offset, length) of the element sequence p points into; cells are 1-element sequences"""
        if not isinstance(p, Ptr):
            raise Unsupported('memory builtin on non-pointer')
        self.check_nonnull(p, node)
        r = p.region
        if r.kind == 'raw':
            # untyped heap block used as bytes
            r = self.retype(r, self.tu.named_type('unsigned char'), node)
            p = Ptr(r, p.off)
        self.alive_check(r, self.text(node), node)
        if r.kind == 'arr':
            return r, r.bits, p.off, r.length
        if r.kind == 'cell' and r.ct.kind == 'int':
            return r, r.ct.bits, bv(0, 64), bv(1, 64)
        raise Unsupported('memory builtin on %s region %s' % (r.kind, r.name))

    def _get(self, r, idx):
        if r.kind == 'cell':
            v = self.st.mem.get(r.id)
            if v is None:
                v = self.fresh_bv('uninit', r.ct.bits)
                self.st.mem[r.id] = v
            return v
        return z3.Select(self.st.mem[r.id], idx)

    def _range_ok(self, off, cnt, length):
        return z3.And(z3.ULE(off, length), z3.ULE(cnt, length - off))

    def _copy(self, args, e, move):
        d, s, n = args
        if not isinstance(n, z3.BitVecRef):
            raise Unsupported('memcpy size')
        txt = self.text(e)
        dr, dbits, doff, dlen = self._elem_view(d, e)
        sr, sbits, soff, slen = self._elem_view(s, e)
        if dr.const:
            self.oblige('in_bounds', 'w:' + txt, False, 'destination of %s is writable' % txt, e)
        nc = concrete(n)
        if dbits == sbits:
            sz = dbits // 8
            if sz == 1:
                cnt = n
            else:
                if nc is None or nc % sz:
                    raise Unsupported('memcpy of %d-byte elements with non-constant size' % sz)
                cnt = bv(nc // sz, 64)
            self.oblige('in_bounds', 'w:' + txt, self._range_ok(doff, cnt, dlen), 'destination range of %s within %s' % (txt, dr.name), e)
            self.oblige('in_bounds', 'r:' + txt, self._range_ok(soff, cnt, slen), 'source range of %s within %s' % (txt, sr.name), e)
            if dr is sr and not move:
                self.oblige('memcpy_overlap', txt, z3.Or(cnt == 0, z3.ULE(doff + cnt, soff), z3.ULE(soff + cnt, doff)),
                            'memcpy ranges do not overlap: ' + txt, e)
            cc = concrete(cnt)
            if dr.kind == 'cell' or sr.kind == 'cell':
                if cc is None or cc > 1:
                    raise Unsupported('memcpy on scalar object with size != element')
                if cc == 1:
                    v = self._get(sr, soff)
                    self._put(dr, doff, v)
                return d
            src_arr = self.st.mem[sr.id]
            dst_arr = self.st.mem[dr.id]
            ext_ = self._lit_extent(doff, dlen, soff, slen, cnt)
            if cc is None and ext_ is not None:
                # literal positions, symbolic count: element t is copied iff t < cnt (all array indices stay literal)
                do, so, mx = ext_
                mx = min(mx, self.upper_bound(cnt, mx))
                vals = [z3.Select(src_arr, bv(so + t, 64)) for t in range(mx)]
                for t, v in enumerate(vals):
                    keep = z3.Select(dst_arr, bv(do + t, 64))
                    dst_arr = z3.Store(dst_arr, bv(do + t, 64), z3.If(z3.ULT(bv(t, 64), cnt), v, keep))
            elif cc is not None and cc <= SMALL_COPY and concrete(doff) is not None:
                # (literal destination offsets: element stores; a symbolic destination is one range update -- a later read
                #  then costs one range test instead of `cc` index disequalities)
                vals = [self.select(src_arr, soff + bv(i, 64), sr.id) for i in range(cc)]
                for i, v in enumerate(vals):
                    self._put(dr, doff + bv(i, 64), v)
                return d
            else:
                k = z3.BitVec('k!cp%d' % self.fresh_id(), 64)
                dst_arr = z3.Lambda([k], z3.If(z3.And(z3.UGE(k, doff), z3.ULT(k - doff, cnt)),
                                                z3.Select(src_arr, k - doff + soff), z3.Select(dst_arr, k)))
            self.st.mem[dr.id] = dst_arr
            self.st.written.add(dr.id)
            self.st.version += 1
            return d
        # different element widths: constant byte count, little-endian byte order (PYCRYPTO_LITTLE_ENDIAN, x86-64)
        if nc is None or nc > 256:
            raise Unsupported('memcpy between element sizes with non-constant size')
        ssz, dsz = sbits // 8, dbits // 8
        if nc % ssz or nc % dsz:
            raise Unsupported('memcpy size not a multiple of both element sizes')
        self.oblige('in_bounds', 'w:' + txt, self._range_ok(doff, bv(nc // dsz, 64), dlen), 'destination range of %s within %s' % (txt, dr.name), e)
        self.oblige('in_bounds', 'r:' + txt, self._range_ok(soff, bv(nc // ssz, 64), slen), 'source range of %s within %s' % (txt, sr.name), e)
        if dr is sr:
            raise Unsupported('memcpy within one region at two types')
        bytes_ = []
        for i in range(nc // ssz):
            v = self._get(sr, soff + bv(i, 64)) if sr.kind == 'cell' else self.select(self.st.mem[sr.id], soff + bv(i, 64), sr.id)
            for j in range(ssz):
                bytes_.append(z3.Extract(8 * j + 7, 8 * j, v))
        for i in range(nc // dsz):
            chunk = bytes_[i * dsz:(i + 1) * dsz]
            v = z3.Concat(*reversed(chunk)) if len(chunk) > 1 else chunk[0]
            self._put(dr, doff + bv(i, 64), v)
        return d

    def _lit_extent(self, doff, dlen, soff=None, slen=None, cnt=None):
        """(dst offset, src offset, max element count) when offsets and region lengths are literals and the extent is small"""
        do, dl = concrete(doff), concrete(dlen)
        if do is None or dl is None or do > dl:
            return None
        mx = dl - do
        so = None
        if soff is not None:
            so, sl = concrete(soff), concrete(slen)
            if so is None or sl is None or so > sl:
                return None
            mx = min(mx, sl - so)
        if cnt is not None and concrete(cnt) is None:
            mx = min(mx, self.upper_bound(cnt, min(mx, 4096)))
        if mx > 64:
            return None
        return do, so, mx

    def _put(self, r, idx, v):
        if r.kind == 'cell':
            self.st.mem[r.id] = v
        else:
            si = idx if z3.is_bv_value(idx) else z3.simplify(idx)
            old_arr = self.st.mem[r.id]
            new_arr = z3.Store(old_arr, si if z3.is_bv_value(si) else idx, v)
            self.st.mem[r.id] = new_arr
            if z3.is_bv_value(si):
                self.store_lit(r.id, old_arr, new_arr, si.as_long(), v)
        self.st.written.add(r.id)
        self.st.version += 1

    def bi_memcpy(self, args, e, argn):
        return self._copy(args, e, False)

    def bi_memmove(self, args, e, argn):
        return self._copy(args, e, True)

    def bi_memset(self, args, e, argn):
        d, c, n = args
        txt = self.text(e)
        if isinstance(d, Ptr) and d.region is not None and d.region.kind == 'struct':
            raise Unsupported('memset of a struct')
        dr, dbits, doff, dlen = self._elem_view(d, e)
        if dr.const:
            self.oblige('in_bounds', 'w:' + txt, False, 'destination of %s is writable' % txt, e)
        b = z3.Extract(7, 0, c)
        sz = dbits // 8
        if sz == 1:
            cnt = n
            val = b
        else:
            nc = concrete(n)
            if nc is None or nc % sz:
                raise Unsupported('memset of wide elements with non-constant size')
            cnt = bv(nc // sz, 64)
            val = z3.Concat(*([b] * sz))
        self.oblige('in_bounds', 'w:' + txt, self._range_ok(doff, cnt, dlen), 'range of %s within %s' % (txt, dr.name), e)
        cc = concrete(cnt)
        if dr.kind == 'cell':
            if cc != 1:
                raise Unsupported('memset of scalar object')
            self._put(dr, doff, val)
            return d
        arr = self.st.mem[dr.id]
        ext_ = self._lit_extent(doff, dlen, cnt=cnt)
        if cc is None and ext_ is not None:
            do, _so, mx = ext_
            mx = min(mx, self.upper_bound(cnt, mx))
            for t in range(mx):
                keep = z3.Select(arr, bv(do + t, 64))
                arr = z3.Store(arr, bv(do + t, 64), z3.If(z3.ULT(bv(t, 64), cnt), val, keep))
        elif cc is not None and cc <= SMALL_COPY:
            for i in range(cc):
                arr = z3.Store(arr, doff + bv(i, 64), val)
        else:
            k = z3.BitVec('k!ms%d' % self.fresh_id(), 64)
            arr = z3.Lambda([k], z3.If(z3.And(z3.UGE(k, doff), z3.ULT(k - doff, cnt)), val, z3.Select(arr, k)))
        self.st.mem[dr.id] = arr
        self.st.written.add(dr.id)
        self.st.version += 1
        return d

    def bi_memcmp(self, args, e, argn):
        a, b, n = args
        txt = self.text(e)
        ar, abits, aoff, alen = self._elem_view(a, e)
        br, bbits, boff, blen = self._elem_view(b, e)
        if abits != 8 or bbits != 8:
            raise Unsupported('memcmp on non-byte elements')
        self.oblige('in_bounds', 'r:' + txt, z3.And(self._range_ok(aoff, n, alen), self._range_ok(boff, n, blen)),
                    'ranges of %s within their regions' % txt, e)
        res = self.fresh_bv('memcmp', 32)
        A, B = self.st.mem[ar.id], self.st.mem[br.id]
        nc = concrete(n)
        if nc is not None and nc <= 64:
            eq = z3.And(*[z3.Select(A, aoff + bv(i, 64)) == z3.Select(B, boff + bv(i, 64)) for i in range(nc)]) if nc else z3.BoolVal(True)
        else:
            k = z3.BitVec('k!mc%d' % self.fresh_id(), 64)
            eq = z3.ForAll([k], z3.Implies(z3.ULT(k, n), z3.Select(A, aoff + k) == z3.Select(B, boff + k)))
        self.assume((res == 0) == eq)
        return res

    # ------------------------------------------------------------------ callee contracts
    def wrap_arg(self, v, ct):
        if isinstance(v, (Ptr, FuncPtr)):
            return v
        if v is None:
            raise Unsupported('void argument')
        return TV(v, bool(ct is not None and ct.kind == 'int' and ct.signed))

    def callee_params(self, c, fdecl):
        if fdecl is not None:
            ps = [p for p in fdecl.get('inner', []) if p.get('kind') == 'ParmVarDecl']
            return [(p.get('name'), self.tu.ctype(p['type'])) for p in ps]
        return [(n, None) for n in getattr(c, 'params', [])]

    def apply_contract(self, c, args, e, fdecl):
        txt = self.text(e)
        self.contracts_used.add(c.name)
        params = self.callee_params(c, fdecl) if not hasattr(c, 'params') else [(n, None) for n in c.params]
        if fdecl is not None:
            params = self.callee_params(c, fdecl)
        if len(params) != len(args):
            raise Unsupported('argument count for %s' % c.name)
        names = {}
        for (pn, pct), a in zip(params, args):
            names[pn] = self.wrap_arg(a, pct)
        old = self.st.copy()
        ctx = self.clause_ctx(self.frame, 'call', names, old, None)
        tr = Translator(ctx, self.reg.defs)
        for ln, ldef in c.logical.items():
            if ldef.strip().startswith('fresh:'):
                raise Unsupported('contract of %s has ghost parameters: it can only be inlined' % c.name)
            names[ln] = tr.expr(ldef)
        if c.allocates:
            # ghost: "an allocation failed inside this activation of the callee"
            af = self.fresh('alloc_failed', z3.BoolSort())
            names['alloc_failed'] = af
            self.st.ghost['alloc_failed'] = z3.Or(self.st.ghost.get('alloc_failed', z3.BoolVal(False)), af)
        # 1. shape / validity of pointer arguments
        extents = {}
        for path, spec in list(c.regions.items()):
            self.check_shape_at_call(c, path, spec, tr, names, extents, e, txt)
        # 2. preconditions
        for rn, rtext in c.requires.items():
            self.oblige('requires_at_call', '%s.%s@%s' % (c.name, rn, self.site(e)), tr.clause(rtext),
                        'precondition of %s at %s: %s' % (c.name, txt, rtext), e)
        # 3. separation of written ranges from the other ranges handed to the callee
        self.check_separation(c, extents, e, txt)
        # 4. effects
        for m in c.modifies:
            self.havoc_target(c, m, tr, extents)
        for fr_ in c.frees:
            p = tr.expr(fr_)
            self.bi_free([p], e, None)
        result = None
        rct = None
        if fdecl is not None:
            rct = self.tu.ctype(fdecl['type']).ret if self.tu.ctype(fdecl['type']).kind == 'func' else None
        elif getattr(c, 'ret', None):
            rct = self.tu.tp_parse_nested(c.ret)
        if c.alloc_result is not None:
            kind = parse_region_spec(c.alloc_result)
            if not c.allocates:
                raise Unsupported('alloc_result needs allocates=True')
            if self.branch_alloc():
                self.assume(z3.Not(names['alloc_failed']))
                ln = to_index(tr.as_tv(tr.expr(kind[2])))
                r = self.new_array_region('%s.result@%s' % (c.name, self.site(e)), kind[1], ln, heap=True)
                self.st.allocated.append(r)
                result = Ptr(r)
            else:
                self.assume(names['alloc_failed'])
                result = NULL
        elif rct is not None and rct.kind == 'struct':
            # struct returned by value: a temporary whose integer fields are described by `ensures` (result.f) and whose pointer
            # fields by `result_ptrs`
            tmp = self.new_struct_region('%s.result@%s' % (c.name, self.site(e)), rct, 'fresh', stack=True)
            for fld, text in getattr(c, 'result_ptrs', {}).items():
                self.st.mem[tmp.fields[fld].id] = tr.expr(text)
            result = Ptr(tmp)
        elif rct is not None and rct.kind == 'int':
            result = self.fresh_bv(c.name + '.ret', rct.bits)
        elif rct is not None and rct.kind == 'ptr':
            raise Unsupported('pointer-returning callee %s without alloc_result' % c.name)
        ctx.result = self.wrap_arg(result, rct) if result is not None else None
        # 5. postconditions become facts
        for en, etext in c.ensures.items():
            if en.startswith('spec_'):
                continue      # stated and proved for the callee, not needed by callers (kept out of their queries)
            self.assume(tr.clause(etext))
        self.st.version += 1
        return result

    def site(self, e):
        return 'L%s' % self.tu.node_file_line(e)[1]

    def check_shape_at_call(self, c, path, spec, tr, names, extents, e, txt):
        kind = parse_region_spec(spec)
        try:
            v = tr.expr(path)
        except ClauseError as ex:
            raise Unsupported('shape of %s at call: %s' % (c.name, ex))
        root = path.split('.')[0].split('[')[0]
        if kind[0] == 'fn':
            if not (isinstance(v, FuncPtr) and v.name == kind[1]):
                raise Unsupported('function pointer %s is not the abstract %s' % (path, kind[1]))
            return
        if not isinstance(v, Ptr):
            raise Unsupported('shape: %s is not a pointer' % path)
        if v.region is None:
            if root in c.nullable and path == root:
                return
            self.oblige('requires_at_call', '%s.nonnull(%s)@%s' % (c.name, path, self.site(e)), False,
                        '%s passed to %s is not NULL' % (path, c.name), e)
            from .exec import PathEnd
            raise PathEnd()
        self.alive_check(v.region, txt, e)
        if kind[0] == 'arr':
            r = v.region
            if r.kind == 'raw':
                raise Unsupported('untyped block passed to %s' % c.name)
            if r.kind == 'cell' and r.ct.kind == 'int' and r.ct.bits == kind[1]:
                n = to_index(tr.as_tv(tr.expr(kind[2])))
                self.oblige('requires_at_call', '%s.valid(%s)@%s' % (c.name, path, self.site(e)), z3.ULE(n, bv(1, 64)),
                            '%s points to at least %s elements at %s' % (path, kind[2], txt), e)
                extents[path] = (r, bv(0, 64), n)
                return
            if r.kind != 'arr' or r.bits != kind[1]:
                raise Unsupported('shape: %s should point to u%d elements' % (path, kind[1]))
            n = to_index(tr.as_tv(tr.expr(kind[2])))
            self.oblige('requires_at_call', '%s.valid(%s)@%s' % (c.name, path, self.site(e)), self._range_ok(v.off, n, r.length),
                        '%s points to at least %s elements at %s' % (path, kind[2], txt), e)
            extents[path] = (r, v.off, n)
        elif kind[0] == 'struct':
            if v.region.kind != 'struct':
                raise Unsupported('shape: %s should point to a struct' % path)
            extents[path] = (v.region, None, None)
        elif kind[0] == 'cell':
            if v.region.kind != 'cell':
                raise Unsupported('shape: %s should point to a scalar object' % path)
            extents[path] = (v.region, None, None)
        elif kind[0] == 'into':
            w = tr.expr(kind[1])
            if not isinstance(w, Ptr) or w.region is not v.region:
                raise Unsupported('shape: %s does not point into %s' % (path, kind[1]))
        elif kind[0] == 'alias':
            w = tr.expr(kind[1])
            same = tr.ctx.ptr_same(v, w)
            self.oblige('requires_at_call', '%s.alias(%s)@%s' % (c.name, path, self.site(e)), same,
                        '%s == %s at %s' % (path, kind[1], txt), e)

    def check_separation(self, c, extents, e, txt):
        mods = set(c.modifies)
        keys = list(extents)
        allowed = set()
        for cfg in c.configs:
            for a, b in cfg.get('alias', []):
                allowed.add((a, b))
                allowed.add((b, a))
        for i, a in enumerate(keys):
            for b in keys[i + 1:]:
                if a not in mods and b not in mods:
                    continue
                ra, oa, na = extents[a]
                rb, ob, nb = extents[b]
                if ra is not rb:
                    continue
                if oa is None or ob is None:
                    raise Unsupported('aliasing objects passed to %s' % c.name)
                disj = z3.Or(na == 0, nb == 0, z3.ULE(oa + na, ob), z3.ULE(ob + nb, oa))
                if (a, b) in allowed:
                    disj = z3.Or(disj, oa == ob)
                self.oblige('requires_at_call', '%s.separated(%s,%s)@%s' % (c.name, a, b, self.site(e)), disj,
                            'ranges %s and %s handed to %s do not overlap' % (a, b, c.name), e)

    def havoc_target(self, c, m, tr, extents):
        if m in extents:
            r, off, n = extents[m]
            if off is None:
                self.havoc_region(r)
                for leaf in r.all_leaves():
                    self.st.written.add(leaf.id)
                return
            if r.kind == 'cell':
                self.havoc_region(r)
                self.st.written.add(r.id)
                return
            old = self.st.mem[r.id]
            fr = self.fresh(r.name, arr_sort(r.bits))
            whole = z3.simplify(z3.And(off == 0, n == r.length))
            ext_ = self._lit_extent(off, r.length, cnt=n)
            if z3.is_true(whole) and ext_ is None:
                self.st.mem[r.id] = fr
            elif ext_ is not None:
                do, _so, mx = ext_
                nc = concrete(n)
                if nc is None:
                    mx = min(mx, self.upper_bound(n, mx))
                arr = old
                for t in range(mx if nc is None else min(mx, nc)):
                    nv = z3.Select(fr, bv(do + t, 64))
                    if nc is None:
                        nv = z3.If(z3.ULT(bv(t, 64), n), nv, z3.Select(old, bv(do + t, 64)))
                    arr = z3.Store(arr, bv(do + t, 64), nv)
                self.st.mem[r.id] = arr
            else:
                k = z3.BitVec('k!hv%d' % self.fresh_id(), 64)
                self.st.mem[r.id] = z3.Lambda([k], z3.If(z3.And(z3.UGE(k, off), z3.ULT(k - off, n)), z3.Select(fr, k), z3.Select(old, k)))
            self.st.written.add(r.id)
            return
        for r in self.resolve_modifies(m, tr.ctx):
            self.havoc_region(r)
            for leaf in r.all_leaves():
                self.st.written.add(leaf.id)
