"""Expression evaluation: every C operator of the subset, with its undefined-behaviour obligations."""
import z3

from .clang_ast import Unsupported, sizeof
from .mem import *      # noqa


def _contains_call(node):
    todo = [node]
    while todo:
        x = todo.pop()
        if isinstance(x, dict):
            if x.get('kind') == 'CallExpr':
                return True
            todo.extend(x.get('inner') or [])
    return False


class ExprMixin:
    # ------------------------------------------------------------------ helpers
    def ct(self, node):
        return self.tu.ctype(node['type'])

    def text(self, node):
        return self.tu.node_text(node)

    def _strip_parens(self, e):
        while e.get('kind') in ('ParenExpr', 'ConstantExpr'):
            e = e['inner'][0]
        return e

    # ------------------------------------------------------------------ lvalues
    # ('var', decl_id) | ('cell', Region) | ('elem', Region, idx) | ('struct', Region) | ('arrobj', Region) | ('func', name)
    def lval(self, e):
        k = e['kind']
        if k in ('ParenExpr',):
            return self.lval(e['inner'][0])
        if k == 'DeclRefExpr':
            rd = e['referencedDecl']
            if rd['kind'] == 'FunctionDecl':
                return ('func', rd['name'])
            did = rd['id']
            for f in reversed(self.frames):
                if did in f.cells:
                    r = f.cells[did]
                    return {'cell': ('cell', r), 'arr': ('arrobj', r), 'struct': ('struct', r)}[r.kind]
                break
            if did in self.st.env:
                return ('var', did)
            if rd['kind'] == 'VarDecl' and rd.get('name') in self.tu.globals and self.tu.globals[rd['name']]['id'] == did:
                return self.global_lval(self.tu.globals[rd['name']])
            if rd['kind'] in ('VarDecl', 'ParmVarDecl'):
                # declared but not yet executed (e.g. jumped over) or belongs to an outer frame
                for f in reversed(self.frames):
                    if did in f.cells:
                        r = f.cells[did]
                        return {'cell': ('cell', r), 'arr': ('arrobj', r), 'struct': ('struct', r)}[r.kind]
                raise Unsupported('variable %s not bound' % rd.get('name'))
            raise Unsupported('reference to %s' % rd['kind'])
        if k == 'UnaryOperator' and e['opcode'] == '*':
            p = self.rval(e['inner'][0])
            if self.ct(e).kind == 'arr' and isinstance(p, Ptr) and p.region is not None and p.region.kind == 'arr':
                return ('arrobj', p.region, p.off)      # *pointer-to-array: the array object at that offset
            return self.deref(p, e)
        if k == 'UnaryOperator' and e['opcode'] == '__extension__':
            return self.lval(e['inner'][0])
        if k == 'ArraySubscriptExpr':
            b = self.rval(e['inner'][0])
            i = self.rval(e['inner'][1])
            if not isinstance(b, Ptr):
                b, i = i, b
                it = self.ct(e['inner'][0])
            else:
                it = self.ct(e['inner'][1])
            if not isinstance(b, Ptr) or isinstance(i, (Ptr, FuncPtr)):
                raise Unsupported('subscript operands')
            rt = self.ct(e)
            p = self.ptr_add(b, self.scaled(cast_int(i, it.signed, 64), self.elems_of(rt)), e)
            if rt.kind == 'arr':
                self.check_nonnull(p, e)
                if p.region.kind != 'arr':
                    raise Unsupported('sub-array of %s region' % p.region.kind)
                return ('arrobj', p.region, p.off)
            return self.deref(p, e)
        if k == 'MemberExpr':
            if e.get('isArrow'):
                p = self.rval(e['inner'][0])
                if not isinstance(p, Ptr):
                    raise Unsupported('-> on non-pointer')
                self.check_nonnull(p, e)
                r = p.region
                if r.kind != 'struct':
                    raise Unsupported('-> into %s region' % r.kind)
                if concrete(p.off) != 0:
                    raise Unsupported('struct pointer with offset')
                self.alive_check(r, self.text(e), e)
            else:
                lv = self.lval(e['inner'][0])
                if lv[0] != 'struct':
                    raise Unsupported('. on %s' % lv[0])
                r = lv[1]
            fr = r.fields.get(e['name'])
            if fr is None:
                raise Unsupported('field %s' % e['name'])
            return {'cell': ('cell', fr), 'arr': ('arrobj', fr), 'struct': ('struct', fr)}[fr.kind]
        if k == 'StringLiteral':
            return ('arrobj', self.string_region(e))
        if k == 'PredefinedExpr':
            return self.lval(e['inner'][0])
        raise Unsupported('lvalue ' + k)

    def opaque_region(self, r):
        key = ('opaque', r.id)
        cache = self.__dict__.setdefault('_opaque', {})
        if key not in cache or cache[key][0] is not self.st:
            cache[key] = (self.st, Region(r.name + '[]', 'raw', length=bv(0, 64)))
        return cache[key][1]

    def scaled(self, v, n):
        return v if n == 1 else v * bv(n, 64)

    def elems_of(self, ct):
        """how many elements of the underlying flat region one object of type ct spans"""
        if ct.kind == 'arr':
            from .exec import flat_count
            n, _ = flat_count(ct)
            if n is None:
                raise Unsupported('array of unknown size')
            return n
        return 1

    def global_lval(self, d):
        g = getattr(self.reg, 'globals', {}) if self.reg else {}
        if d.get('name') in g:
            ct = self.tu.ctype(d['type'])
            if ct.kind != 'int' or not ct.const:
                raise Unsupported('global %s is not a const integer' % d.get('name'))
            return ('const', bv(g[d['name']], ct.bits))
        raise Unsupported('global variable %s' % d.get('name'))

    def check_nonnull(self, p, node):
        if p.region is None:
            self.oblige('null_deref', self.text(node), False, 'pointer is not NULL at ' + self.text(node), node)
            from .exec import PathEnd
            raise PathEnd()

    def deref(self, p, node):
        if not isinstance(p, Ptr):
            raise Unsupported('dereference of non-pointer')
        self.check_nonnull(p, node)
        r = p.region
        if r.kind == 'arr':
            return ('elem', r, p.off)
        if r.kind == 'raw':
            raise Unsupported('dereference of untyped heap memory')
        if concrete(p.off) != 0:
            raise Unsupported('offset pointer into %s region' % r.kind)
        return (r.kind, r)

    def load(self, lv, node, ct=None):
        t = lv[0]
        if t == 'const':
            return lv[1]
        if t == 'var':
            v = self.st.env[lv[1]]
            if v is None:
                ct = ct or self.ct(node)
                if ct.kind != 'int':
                    raise Unsupported('read of uninitialised pointer variable')
                v = self.fresh_bv('uninit', ct.bits)
                self.st.env[lv[1]] = v
            return v
        if t == 'cell':
            r = lv[1]
            self.alive_check(r, self.text(node), node)
            v = self.st.mem.get(r.id)
            if v is None:
                if r.ct.kind != 'int':
                    raise Unsupported('read of uninitialised pointer %s' % r.name)
                v = self.fresh_bv('uninit', r.ct.bits)
                self.st.mem[r.id] = v
            if r.ct.kind == 'int':
                want = (ct or self.ct(node))
                if want.kind != 'int' or want.bits != r.ct.bits:
                    raise Unsupported('type-punned load')
            return v
        if t == 'elem':
            r, idx = lv[1], lv[2]
            want = (ct or self.ct(node))
            if want.kind == 'ptr' and r.bits == 64 and getattr(r, 'ptr_elems', False):
                # element of an array of pointers the contract does not describe further: an opaque, non-NULL pointer
                self.alive_check(r, self.text(node), node)
                self.oblige('in_bounds', 'r:' + self.text(node), z3.ULT(idx, r.length),
                            'read %s within %s' % (self.text(node), r.name), node)
                return Ptr(self.opaque_region(r))
            if want.kind != 'int' or want.bits != r.bits:
                raise Unsupported('load of %r from %d-bit array' % (want, r.bits))
            self.alive_check(r, self.text(node), node)
            self.oblige('in_bounds', 'r:' + self.text(node), z3.ULT(idx, r.length),
                        'read %s within %s' % (self.text(node), r.name), node)
            return self.select(self.st.mem[r.id], idx, r.id)
        if t == 'func':
            return FuncPtr(lv[1])
        raise Unsupported('load of %s lvalue' % t)

    def store(self, lv, v, node):
        t = lv[0]
        self.st.version += 1
        if t == 'var':
            self.st.env[lv[1]] = v
            return
        if t == 'cell':
            r = lv[1]
            if r.const:
                raise Unsupported('store to const object')
            self.alive_check(r, self.text(node), node)
            if r.ct.kind == 'int' and (isinstance(v, (Ptr, FuncPtr)) or v.size() != r.ct.bits):
                raise Unsupported('type-punned store')
            self.st.mem[r.id] = v
            self.st.written.add(r.id)
            return
        if t == 'elem':
            r, idx = lv[1], lv[2]
            if isinstance(v, (Ptr, FuncPtr)) or v.size() != r.bits:
                raise Unsupported('store of wrong width')
            self.alive_check(r, self.text(node), node)
            g = z3.ULT(idx, r.length)
            if r.const:
                g = z3.BoolVal(False)
            self.oblige('in_bounds', 'w:' + self.text(node), g, 'write %s within %s' % (self.text(node), r.name), node)
            si = idx if z3.is_bv_value(idx) else z3.simplify(idx)
            old_arr = self.st.mem[r.id]
            new_arr = z3.Store(old_arr, si if z3.is_bv_value(si) else idx, v)
            self.st.mem[r.id] = new_arr
            if z3.is_bv_value(si):
                self.store_lit(r.id, old_arr, new_arr, si.as_long(), v)
            self.st.written.add(r.id)
            return
        raise Unsupported('store to %s lvalue' % t)

    def ptr_add(self, p, delta64, node):
        if p.region is None:
            raise Unsupported('arithmetic on NULL')
        if p.region.kind not in ('arr',):
            if concrete(delta64) == 0:
                return p
            raise Unsupported('pointer arithmetic on %s region' % p.region.kind)
        return Ptr(p.region, p.off + delta64)

    # ------------------------------------------------------------------ rvalues
    def rval(self, e):
        k = e['kind']
        m = getattr(self, 'rv_' + k, None)
        if m is None:
            raise Unsupported('expression ' + k)
        return m(e)

    def rv_ParenExpr(self, e):
        return self.rval(e['inner'][0])

    def rv_ConstantExpr(self, e):
        return self.rval(e['inner'][0])

    def rv_IntegerLiteral(self, e):
        t = self.ct(e)
        return bv(int(e['value']), t.bits)

    def rv_CharacterLiteral(self, e):
        t = self.ct(e)
        return bv(int(e['value']), t.bits)

    def rv_StringLiteral(self, e):
        raise Unsupported('string literal as rvalue')

    def rv_DeclRefExpr(self, e):
        rd = e['referencedDecl']
        if rd['kind'] == 'EnumConstantDecl':
            return bv(self.tu.enum_consts[rd['id']], self.ct(e).bits)
        if rd['kind'] == 'FunctionDecl':
            return FuncPtr(rd['name'])
        raise Unsupported('DeclRefExpr as rvalue')

    def rv_ImplicitCastExpr(self, e):
        return self.cast(e)

    def rv_CStyleCastExpr(self, e):
        return self.cast(e)

    def cast(self, e):
        ck = e['castKind']
        sub = e['inner'][0]
        if ck == 'LValueToRValue':
            return self.load(self.lval(sub), sub, self.ct(e))
        if ck == 'IntegralCast':
            v = self.rval(sub)
            st, tt = self.ct(sub), self.ct(e)
            if isinstance(v, (Ptr, FuncPtr)) or tt.kind != 'int':
                raise Unsupported('IntegralCast operand')
            return cast_int(v, st.signed, tt.bits)
        if ck == 'NoOp':
            return self.rval(sub)
        if ck == 'ArrayToPointerDecay':
            lv = self.lval(sub)
            if lv[0] == 'arrobj':
                return Ptr(lv[1], lv[2] if len(lv) > 2 else None)
            raise Unsupported('decay of %s' % lv[0])
        if ck in ('FunctionToPointerDecay', 'BuiltinFnToFnPtr'):
            s = self._strip_parens(sub)
            if s['kind'] == 'DeclRefExpr' and s['referencedDecl']['kind'] == 'FunctionDecl':
                return FuncPtr(s['referencedDecl']['name'])
            raise Unsupported('function designator')
        if ck == 'NullToPointer':
            return NULL
        if ck == 'BitCast':
            v = self.rval(sub)
            return self.ptr_cast(v, self.ct(sub), self.ct(e), e)
        if ck == 'IntegralToBoolean':
            return from_bool(truth(self.rval(sub)), self.ct(e).bits)
        if ck == 'PointerToBoolean':
            return from_bool(truth(self.rval(sub)), self.ct(e).bits)
        if ck == 'ToVoid':
            s = self._strip_parens(sub)
            if s['kind'] == 'UnaryExprOrTypeTraitExpr':
                return None
            self.rval(sub)
            return None
        raise Unsupported('cast ' + ck)

    def ptr_cast(self, v, st, tt, node):
        if isinstance(v, FuncPtr):
            return v
        if not isinstance(v, Ptr):
            raise Unsupported('BitCast of non-pointer')
        if v.region is None or tt.kind != 'ptr':
            return v
        to = tt.to
        r = v.region
        if to.kind == 'void':
            return v
        if r.kind == 'raw':
            return Ptr(self.retype(r, to, node), v.off)
        if r.kind == 'arr':
            base = to
            while base.kind == 'arr':
                base = base.to
            if base.kind == 'int' and base.bits == r.bits:
                return v
            raise Unsupported('pointer cast from %d-bit elements to %r' % (r.bits, to))
        if r.kind == 'struct':
            if to.kind == 'struct' and to.name == r.ct.name:
                return v
            raise Unsupported('pointer cast between struct types')
        if r.kind == 'cell':
            if to.kind == r.ct.kind and (to.kind != 'int' or to.bits == r.ct.bits):
                return v
            raise Unsupported('pointer cast of scalar object')
        raise Unsupported('pointer cast')

    def retype(self, raw, to, node):
        if raw.id in self.st.retyped:
            t = self.st.retyped[raw.id]
            ok = (t.kind == 'arr' and to.kind == 'int' and to.bits == t.bits) or (t.kind == 'struct' and to.kind == 'struct' and to.name == t.ct.name)
            if not ok:
                raise Unsupported('heap block used at two types')
            return t
        init = self.st.mem.get(raw.id, 'undef')
        if to.kind == 'int':
            sz = to.bits // 8
            length = raw.length if sz == 1 else z3.UDiv(raw.length, bv(sz, 64))
            content = z3.K(BV64, bv(0, to.bits)) if init == 'zero' else None
            t = Region(raw.name, 'arr', bits=to.bits, length=length, heap=True)
            self.st.mem[t.id] = content if content is not None else self.fresh(raw.name, arr_sort(to.bits))
        elif to.kind == 'struct':
            self.oblige('in_bounds', 'alloc:' + self.text(node), z3.UGE(raw.length, bv(sizeof(to), 64)),
                        'allocation holds a %s' % to.name, node)
            t = self.new_struct_region(raw.name, to, 'zero' if init == 'zero' else 'undef', heap=True)
        else:
            raise Unsupported('heap block of %r' % (to,))
        self.st.retyped[raw.id] = t
        # the typed region replaces the raw one as the heap root
        self.st.allocated = [t if a is raw else a for a in self.st.allocated]
        return t

    def rv_UnaryExprOrTypeTraitExpr(self, e):
        if e.get('name') != 'sizeof':
            raise Unsupported(e.get('name'))
        t = e.get('argType')
        ctp = self.tu.ctype(t) if t else self.ct(e['inner'][0])
        return bv(sizeof(ctp), self.ct(e).bits)

    def rv_ArraySubscriptExpr(self, e):
        raise Unsupported('array subscript as prvalue')

    def rv_MemberExpr(self, e):
        raise Unsupported('member as prvalue')

    def rv_UnaryOperator(self, e):
        op = e['opcode']
        sub = e['inner'][0]
        if op in ('++', '--'):
            lv = self.lval(sub)
            t = self.ct(sub)
            old = self.load(lv, sub, t)
            d = 1 if op == '++' else -1
            if isinstance(old, Ptr):
                new = self.ptr_add(old, bv(d * (self.elems_of(t.to) if t.kind == 'ptr' else 1), 64), e)
            else:
                if t.signed:
                    one = bv(1, t.bits)
                    ok = z3.BVAddNoOverflow(old, one, True) if d == 1 else z3.BVSubNoUnderflow(old, one, True)
                    self.oblige('no_overflow', self.text(e), ok, 'no signed overflow in ' + self.text(e), e)
                new = old + bv(d, t.bits)
            self.store(lv, new, sub)
            return old if e.get('isPostfix') else new
        if op == '&':
            lv = self.lval(sub)
            if lv[0] == 'arrobj':
                return Ptr(lv[1], lv[2] if len(lv) > 2 else None)
            if lv[0] in ('cell', 'struct'):
                return Ptr(lv[1])
            if lv[0] == 'elem':
                return Ptr(lv[1], lv[2])
            if lv[0] == 'func':
                return FuncPtr(lv[1])
            raise Unsupported('address of %s' % lv[0])
        if op == '*':
            raise Unsupported('* as prvalue')
        if op == '__extension__':
            return self.rval(sub)
        v = self.rval(sub)
        t = self.ct(e)
        if op == '!':
            return from_bool(z3.Not(truth(v)), t.bits)
        if isinstance(v, (Ptr, FuncPtr)):
            raise Unsupported('unary %s on pointer' % op)
        if op == '~':
            return ~v
        if op == '-':
            if t.signed:
                self.oblige('no_overflow', self.text(e), v != bv(1 << (t.bits - 1), t.bits), 'no signed overflow in ' + self.text(e), e)
            return -v
        if op == '+':
            return v
        raise Unsupported('unary ' + op)

    def rv_BinaryOperator(self, e):
        op = e['opcode']
        L, R = e['inner']
        if op == '=':
            if self.ct(L).kind == 'struct':
                return self.struct_assign(L, R, e)
            v = self.rval(R)
            lv = self.lval(L)
            if lv[0] in ('struct', 'arrobj'):
                raise Unsupported('aggregate assignment')
            self.store(lv, v, L)
            return v
        if op == ',':
            self.rval(L)
            return self.rval(R)
        if op in ('&&', '||'):
            return self.logical(op, L, R, e)
        a = self.rval(L)
        b = self.rval(R)
        return self.binop(op, a, b, self.ct(L), self.ct(R), self.ct(e), e)

    def rv_CompoundAssignOperator(self, e):
        op = e['opcode'][:-1]
        L, R = e['inner']
        lv = self.lval(L)
        lt = self.ct(L)
        a = self.load(lv, L, lt)
        b = self.rval(R)
        if isinstance(a, Ptr):
            r = self.binop(op, a, b, lt, self.ct(R), lt, e)
            self.store(lv, r, L)
            return r
        ct = self.tu.ctype(e['computeLHSType'])
        rt = self.tu.ctype(e['computeResultType'])
        a2 = cast_int(a, lt.signed, ct.bits)
        r = self.binop(op, a2, b, ct, self.ct(R), rt, e)
        r = cast_int(r, rt.signed, lt.bits)
        self.store(lv, r, L)
        return r

    def struct_assign(self, L, R, e):
        """dst = src for two objects of the same struct type: field by field (arrays as whole contents)"""
        src = R
        while src.get('kind') in ('ParenExpr',) or (src.get('kind') == 'ImplicitCastExpr' and src.get('castKind') in ('LValueToRValue', 'NoOp')):
            src = src['inner'][0]
        lvd = self.lval(L)
        if src.get('kind') == 'CallExpr':
            v = self.rval(src)
            if not (isinstance(v, Ptr) and v.region is not None and v.region.kind == 'struct'):
                raise Unsupported('struct-valued call without a contract that describes the result')
            lvs = ('struct', v.region)
        else:
            lvs = self.lval(src)
        if lvd[0] != 'struct' or lvs[0] != 'struct':
            raise Unsupported('struct assignment form')
        d, s = lvd[1], lvs[1]
        if d.ct.name != s.ct.name and [f for f, _ in d.ct.fields] != [f for f, _ in s.ct.fields]:
            raise Unsupported('struct assignment between different types')
        self.alive_check(d, self.text(L), L)
        self.alive_check(s, self.text(src), src)
        if d.const:
            raise Unsupported('assignment to const struct')
        self.copy_struct(d, s)
        self.st.version += 1
        return None

    def copy_struct(self, d, s):
        for name, fd in d.fields.items():
            fs = s.fields[name]
            if fd.kind == 'struct':
                self.copy_struct(fd, fs)
                continue
            v = self.st.mem.get(fs.id)
            if v is None and fd.kind == 'cell' and fd.ct.kind == 'int':
                v = self.fresh_bv('uninit', fd.ct.bits)
                self.st.mem[fs.id] = v
            self.st.mem[fd.id] = v
            self.st.lit.pop(fd.id, None)
            self.st.written.add(fd.id)

    def guarded(self, guard, fn):
        """evaluate fn() under an extra path-condition conjunct; the evaluation must be free of side effects"""
        ver = self.st.version
        n = len(self.st.pc)
        self.st.pc.append(guard)
        try:
            v = fn()
        finally:
            del self.st.pc[n:]
        if self.st.version != ver:
            raise Unsupported('side effect in a conditionally evaluated operand')
        return v

    def logical(self, op, L, R, e):
        a = truth(self.rval(L))
        t = self.ct(e)
        ca = concrete(a)
        if ca is not None:
            if (op == '&&' and ca == 0) or (op == '||' and ca == 1):
                return bv(ca, t.bits)
            return from_bool(truth(self.rval(R)), t.bits)
        g = a if op == '&&' else z3.Not(a)
        # a right operand that contains a call may have side effects (`blocks > 0 && add_bits(hs, ...)`): then the path forks on the
        # left operand, as C's sequencing prescribes, instead of evaluating both operands in one state
        saved = self.st.copy() if _contains_call(R) else None
        try:
            b = self.guarded(g, lambda: truth(self.rval(R)))
        except Unsupported as ex:
            if saved is None or 'side effect in a conditionally evaluated operand' not in str(ex):
                raise
            from .exec import PathEnd
            self.st = saved
            if self.decide(2) == 0:
                self.assume(g)
                if not self.feasible():
                    raise PathEnd()
                return from_bool(truth(self.rval(R)), t.bits)
            self.assume(z3.Not(g))
            if not self.feasible():
                raise PathEnd()
            return bv(0 if op == '&&' else 1, t.bits)
        return from_bool(z3.And(a, b) if op == '&&' else z3.Or(a, b), t.bits)

    def rv_ConditionalOperator(self, e):
        C, X, Y = e['inner']
        c = truth(self.rval(C))
        cc = concrete(c)
        if cc is not None:
            return self.rval(X if cc else Y)
        try:
            x = self.guarded(c, lambda: self.rval(X))
            y = self.guarded(z3.Not(c), lambda: self.rval(Y))
            if x is None and y is None:
                return None
            if isinstance(x, Ptr) and isinstance(y, Ptr) and x.region is y.region and x.region is not None:
                return Ptr(x.region, z3.If(c, x.off, y.off))
            if not isinstance(x, (Ptr, FuncPtr)) and not isinstance(y, (Ptr, FuncPtr)) and x is not None and y is not None:
                return z3.If(c, x, y)
        except Unsupported:
            pass
        # values that cannot be merged (different regions, function designators, side effects): fork the path
        if self.branch(c):
            return self.rval(X)
        return self.rval(Y)

    def rv_StmtExpr(self, e):
        comp = e['inner'][0]
        self.exec_stmt(comp)
        return None

    def rv_CallExpr(self, e):
        return self.call_expr(e)

    # ------------------------------------------------------------------ arithmetic
    def binop(self, op, a, b, lt, rt, t, e):
        pa, pb = isinstance(a, Ptr), isinstance(b, Ptr)
        if pa or pb:
            sc = self.elems_of(t.to) if t.kind == 'ptr' else 1
            if op == '+' and pa and not pb:
                return self.ptr_add(a, self.scaled(cast_int(b, rt.signed, 64), sc), e)
            if op == '+' and pb and not pa:
                return self.ptr_add(b, self.scaled(cast_int(a, lt.signed, 64), sc), e)
            if op == '-' and pa and not pb:
                return self.ptr_add(a, -self.scaled(cast_int(b, rt.signed, 64), sc), e)
            if op in ('==', '!=') and pa and pb:
                if a.region is None or b.region is None:
                    c = z3.BoolVal(a.region is b.region)
                elif a.region is not b.region:
                    c = z3.BoolVal(False)
                else:
                    c = a.off == b.off
                return from_bool(c if op == '==' else z3.Not(c), t.bits)
            if op == '-' and pa and pb and a.region is b.region and a.region is not None:
                return a.off - b.off
            if op in ('<', '<=', '>', '>=') and pa and pb and a.region is b.region and a.region is not None:
                c = {'<': a.off < b.off, '<=': a.off <= b.off, '>': a.off > b.off, '>=': a.off >= b.off}[op]
                return from_bool(c, t.bits)
            raise Unsupported('pointer operation ' + op)
        if isinstance(a, FuncPtr) or isinstance(b, FuncPtr):
            raise Unsupported('function pointer operation')
        txt = self.text(e)
        if op in ('+', '-', '*'):
            r = {'+': a + b, '-': a - b, '*': a * b}[op]
            if t.kind == 'int' and t.signed:
                if op == '+':
                    ok = z3.And(z3.BVAddNoOverflow(a, b, True), z3.BVAddNoUnderflow(a, b))
                elif op == '-':
                    ok = z3.And(z3.BVSubNoOverflow(a, b), z3.BVSubNoUnderflow(a, b, True))
                else:
                    ok = z3.And(z3.BVMulNoOverflow(a, b, True), z3.BVMulNoUnderflow(a, b))
                self.oblige('no_overflow', txt, ok, 'no signed overflow in ' + txt, e)
            return r
        if op in ('/', '%'):
            self.oblige('div_by_zero', txt, b != 0, 'divisor non-zero in ' + txt, e)
            if t.signed:
                self.oblige('no_overflow', txt, z3.Not(z3.And(a == bv(1 << (t.bits - 1), t.bits), b == bv(-1, t.bits))),
                            'no signed overflow in ' + txt, e)
                return (a / b) if op == '/' else z3.SRem(a, b)
            return z3.UDiv(a, b) if op == '/' else z3.URem(a, b)
        if op in ('&', '|', '^'):
            return {'&': a & b, '|': a | b, '^': a ^ b}[op]
        if op in ('<<', '>>'):
            w = a.size()
            bw = b.size()
            self.oblige('shift_range', txt, z3.ULT(b, bv(w, bw)) if (1 << bw) > w else z3.BoolVal(True),
                        'shift count in [0,%d) in %s' % (w, txt), e)
            bb = b if bw == w else (z3.Extract(w - 1, 0, b) if bw > w else z3.ZeroExt(w - bw, b))
            if op == '<<':
                r = a << bb
                if lt.signed:
                    self.oblige('no_overflow', txt, z3.And(a >= 0, (r >> bb) == a, r >= 0), 'signed left shift representable in ' + txt, e)
                return r
            return (a >> bb) if lt.signed else z3.LShR(a, bb)
        sg = lt.kind == 'int' and lt.signed
        if op == '==':
            c = a == b
        elif op == '!=':
            c = a != b
        elif op == '<':
            c = (a < b) if sg else z3.ULT(a, b)
        elif op == '<=':
            c = (a <= b) if sg else z3.ULE(a, b)
        elif op == '>':
            c = (a > b) if sg else z3.UGT(a, b)
        elif op == '>=':
            c = (a >= b) if sg else z3.UGE(a, b)
        else:
            raise Unsupported('operator ' + op)
        return from_bool(c, t.bits)
