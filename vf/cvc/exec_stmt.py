"""Statements: compound, declarations, if / switch / loops (unrolled, bounded-unrolled or by invariant), goto-forward."""
import z3

from .clang_ast import Unsupported
from .contracts import ClauseError, TV, tv_cmp
from .mem import *      # noqa


class ReturnEx(Exception):
    def __init__(self, value):
        self.value = value


class BreakEx(Exception):
    pass


class ContinueEx(Exception):
    pass


class GotoEx(Exception):
    def __init__(self, label):
        self.label = label


class StmtMixin:
    def exec_stmt(self, n):
        k = n.get('kind')
        if k is None:
            return
        m = getattr(self, 'st_' + k, None)
        if m is not None:
            return m(n)
        if k.endswith('Stmt') and k not in ('StmtExpr',):
            raise Unsupported('statement ' + k)
        self.rval(n)

    def st_NullStmt(self, n):
        pass

    def st_CompoundStmt(self, n):
        items = n.get('inner', [])
        i = 0
        while i < len(items):
            try:
                self.exec_stmt(items[i])
            except GotoEx as g:
                tgt = None
                for j, it in enumerate(items):
                    if it.get('kind') == 'LabelStmt' and it.get('declId') == g.label:
                        tgt = j
                if tgt is None:
                    raise
                if tgt <= i:
                    raise Unsupported('backward goto')
                i = tgt
                continue
            i += 1

    def st_LabelStmt(self, n):
        for c in n.get('inner', []):
            self.exec_stmt(c)

    def st_GotoStmt(self, n):
        raise GotoEx(n['targetLabelDeclId'])

    def st_DeclStmt(self, n):
        for d in n.get('inner', []):
            k = d.get('kind')
            if k == 'VarDecl':
                self.declare_var(d)
            elif k in ('RecordDecl', 'TypedefDecl', 'EnumDecl', 'StaticAssertDecl'):
                pass
            else:
                raise Unsupported('declaration ' + str(k))

    def declare_var(self, d):
        f = self.frame
        ct = self.tu.ctype(d['type'])
        name = d['name']
        if d.get('storageClass') == 'static':
            raise Unsupported('static local %s' % name)
        f.scope[name] = d['id']
        init = None
        for c in d.get('inner', []):
            if 'kind' in c and not c['kind'].endswith('Attr'):
                init = c
        if ct.kind in ('arr', 'struct') or d['id'] in f.addr_taken:
            if ct.kind == 'arr' and ct.n is None:
                raise Unsupported('array of unknown size')
            r = self.new_typed_region(name, ct, 'undef' if ct.kind != 'arr' else 'fresh', stack=True)
            f.cells[d['id']] = r
            self.st.env.pop(d['id'], None)
            if init is not None:
                if r.kind == 'cell':
                    self.st.mem[r.id] = self.rval(init)
                elif r.kind == 'arr' and init['kind'] == 'InitListExpr':
                    self.init_array(r, ct, init)
                else:
                    raise Unsupported('aggregate initialiser')
            return
        if ct.kind not in ('int', 'ptr'):
            raise Unsupported('local of type %r' % (ct,))
        self.st.env[d['id']] = self.rval(init) if init is not None else None
        self.st.version += 1

    def init_array(self, r, ct, init):
        arr = z3.K(BV64, bv(0, ct.to.bits))
        items = [c for c in init.get('inner', []) if c.get('kind') != 'ImplicitValueInitExpr']
        if 'array_filler' in init:
            items = [c for c in init.get('array_filler', []) if c.get('kind') not in ('ImplicitValueInitExpr',)]
        for i, c in enumerate(items):
            arr = z3.Store(arr, bv(i, 64), self.rval(c))
        self.st.mem[r.id] = arr

    def st_ReturnStmt(self, n):
        inner = [c for c in n.get('inner', []) if c.get('kind')]
        raise ReturnEx(self.rval(inner[0]) if inner else None)

    def st_BreakStmt(self, n):
        raise BreakEx()

    def st_ContinueStmt(self, n):
        raise ContinueEx()

    def st_IfStmt(self, n):
        inner = n['inner']
        if n.get('hasInit') or n.get('hasVar'):
            raise Unsupported('if with init/var')
        cond, then = inner[0], inner[1]
        els = inner[2] if len(inner) > 2 else None
        c = truth(self.rval(cond))
        if self.branch(c):
            self.exec_stmt(then)
        elif els is not None:
            self.exec_stmt(els)

    # ------------------------------------------------------------------ switch
    def st_SwitchStmt(self, n):
        cond, body = n['inner'][0], n['inner'][-1]
        if body.get('kind') != 'CompoundStmt':
            raise Unsupported('switch body form')
        v = self.rval(cond)
        items = body.get('inner', [])
        labels = []     # (index, value or None for default)
        for i, it in enumerate(items):
            x = it
            while x.get('kind') in ('CaseStmt', 'DefaultStmt'):
                if x['kind'] == 'CaseStmt':
                    ce = x['inner'][0]
                    cv = concrete(self.rval(ce))
                    if cv is None:
                        raise Unsupported('case label value')
                    labels.append((i, cv))
                else:
                    labels.append((i, None))
                x = x['inner'][-1]
        start = None
        for i, cv in labels:
            if cv is None:
                continue
            if self.branch(v == bv(cv, v.size())):
                start = i
                break
        if start is None:
            for i, cv in labels:
                if cv is None:
                    start = i
        if start is None:
            return
        try:
            j = start
            while j < len(items):
                x = items[j]
                while x.get('kind') in ('CaseStmt', 'DefaultStmt'):
                    x = x['inner'][-1]
                try:
                    self.exec_stmt(x)
                except GotoEx:
                    raise
                j += 1
        except BreakEx:
            pass

    # ------------------------------------------------------------------ loops
    def st_ForStmt(self, n):
        init, _var, cond, inc, body = n['inner']
        if _var.get('kind'):
            raise Unsupported('for with condition variable')
        if init.get('kind'):
            self.exec_stmt(init)
        self.loop(n, cond if cond.get('kind') else None, inc if inc.get('kind') else None, body, False)

    def st_WhileStmt(self, n):
        cond, body = n['inner'][0], n['inner'][-1]
        self.loop(n, cond, None, body, False)

    def st_DoStmt(self, n):
        body, cond = n['inner'][0], n['inner'][1]
        self.loop(n, cond, None, body, True)

    def loop_cond(self, cond):
        if cond is None:
            return z3.BoolVal(True)
        return truth(self.rval(cond))

    def loop(self, n, cond, inc, body, do_first):
        from .exec import PathEnd
        f = self.frame
        ordinal = f.loop_ord[id(n)]
        spec = f.contract.loops.get(ordinal) if f.contract is not None else None
        if spec is not None and spec.invariants:
            if do_first:
                raise Unsupported('do-while with invariant')
            return self.loop_invariant(n, ordinal, spec, cond, inc, body)
        bound = spec.unroll if spec is not None else None
        count = 0
        first = do_first
        while True:
            if first:
                first = False
            else:
                c = self.loop_cond(cond)
                if bound is not None:
                    if count >= bound:
                        self.oblige('unwind', 'loop%d' % ordinal, z3.Not(c),
                                    'loop %d of %s stops within %d iterations' % (ordinal, f.fname, bound), n)
                        self.assume(z3.Not(c))
                        break
                    if not self.branch(c):
                        break
                else:
                    cc = concrete(c)
                    if cc is None:
                        raise Unsupported('loop %d of %s: trip count is not a compile-time constant (needs an invariant or an unroll bound)'
                                          % (ordinal, f.fname))
                    if not cc:
                        break
                    if count >= self.CONST_UNROLL_LIMIT:
                        raise Unsupported('unroll limit')
            try:
                self.exec_stmt(body)
            except BreakEx:
                break
            except ContinueEx:
                pass
            if inc is not None:
                self.rval(inc)
            count += 1

    def assigned_locals(self, nodes):
        """decl ids of variables assigned (syntactically) inside the given nodes"""
        out = set()

        def target(x):
            while x.get('kind') in ('ParenExpr',):
                x = x['inner'][0]
            if x.get('kind') == 'DeclRefExpr' and x['referencedDecl']['kind'] in ('VarDecl', 'ParmVarDecl'):
                out.add(x['referencedDecl']['id'])

        def walk(x):
            if not isinstance(x, dict):
                return
            k = x.get('kind')
            if k in ('BinaryOperator',) and x.get('opcode') == '=':
                target(x['inner'][0])
            elif k == 'CompoundAssignOperator':
                target(x['inner'][0])
            elif k == 'UnaryOperator' and x.get('opcode') in ('++', '--'):
                target(x['inner'][0])
            for c in x.get('inner', []):
                walk(c)
        for nd in nodes:
            if nd is not None:
                walk(nd)
        return out

    def pointer_sources(self, did, nodes):
        """right-hand sides of the plain assignments to the variable inside the nodes"""
        out = []

        def walk(x):
            if not isinstance(x, dict):
                return
            if x.get('kind') == 'BinaryOperator' and x.get('opcode') == '=':
                l = x['inner'][0]
                while l.get('kind') == 'ParenExpr':
                    l = l['inner'][0]
                if l.get('kind') == 'DeclRefExpr' and l['referencedDecl'].get('id') == did:
                    out.append(x['inner'][1])
            for c in x.get('inner', []):
                walk(c)
        for nd in nodes:
            if nd is not None:
                walk(nd)
        return out

    def declared_locals(self, nodes):
        out = set()

        def walk(x):
            if isinstance(x, dict):
                if x.get('kind') == 'VarDecl':
                    out.add(x['id'])
                for c in x.get('inner', []):
                    walk(c)
        for nd in nodes:
            if nd is not None:
                walk(nd)
        return out

    def havoc_region(self, r):
        for leaf in r.all_leaves():
            if leaf.kind == 'arr':
                self.st.mem[leaf.id] = self.fresh(leaf.name, arr_sort(leaf.bits))
            elif leaf.kind == 'cell':
                if leaf.ct.kind == 'int':
                    self.st.mem[leaf.id] = self.fresh_bv(leaf.name, leaf.ct.bits)
                else:
                    v = self.st.mem.get(leaf.id)
                    if isinstance(v, Ptr) and v.region is not None and v.region.kind == 'arr':
                        self.st.mem[leaf.id] = Ptr(v.region, self.fresh_bv(leaf.name + '.off', 64))
                    elif v is not None and not (isinstance(v, Ptr) and v.region is None):
                        raise Unsupported('havoc of pointer cell %s' % leaf.name)
            else:
                raise Unsupported('havoc of %s region' % leaf.kind)

    def loop_invariant(self, n, ordinal, spec, cond, inc, body):
        from .exec import PathEnd
        f = self.frame
        key = (f.fname, ordinal)
        tag = 'loop%d' % ordinal
        ctx = self.clause_ctx(f, 'inv')
        ctx.pre_state = self.st.copy()
        # 1. invariant holds on entry
        for name, text in spec.invariants.items():
            self.oblige('loop_inv_entry', '%s.%s' % (tag, name), self.inv_clause(text, ctx), 'on entry: ' + text, n)
        # 2. havoc everything the loop may change
        assigned = self.assigned_locals([cond, inc, body]) - self.declared_locals([body])
        for did in sorted(assigned):
            if did in f.cells:
                self.havoc_region(f.cells[did])
                continue
            if did not in self.st.env:
                continue
            v = self.st.env[did]
            d = self.tu.decl_by_id[did]
            if isinstance(v, Ptr):
                # at an arbitrary iteration the pointer is what it was before the loop (offset unknown) or points into one of
                # the regions the body assigns to it: one path per candidate
                cands = []
                if v.region is None:
                    cands.append(None)
                elif v.region.kind == 'arr':
                    cands.append(v.region)
                else:
                    raise Unsupported('loop modifies pointer %s into %s region' % (d['name'], v.region.kind))
                for rhs in self.pointer_sources(did, [cond, inc, body]):
                    try:
                        w = self.guarded(z3.BoolVal(True), lambda: self.rval(rhs))
                    except Unsupported:
                        raise Unsupported('loop assigns %s from an expression that cannot be evaluated at the loop head' % d['name'])
                    if not isinstance(w, Ptr):
                        raise Unsupported('loop assigns a non-pointer to %s' % d['name'])
                    if w.region is None:
                        if None not in cands:
                            cands.append(None)
                    elif w.region.kind != 'arr':
                        raise Unsupported('loop modifies pointer %s into %s region' % (d['name'], w.region.kind))
                    elif not any(c is w.region for c in cands):
                        cands.append(w.region)
                pick = cands[self.decide(len(cands))] if len(cands) > 1 else cands[0]
                self.st.env[did] = NULL if pick is None else Ptr(pick, self.fresh_bv(d['name'] + '.off', 64))
            elif isinstance(v, FuncPtr):
                raise Unsupported('loop modifies function pointer')
            else:
                ct = self.tu.ctype(d['type'])
                self.st.env[did] = self.fresh_bv(d['name'], ct.bits)
        mod_regions = set()
        mctx = self.clause_ctx(f, 'inv')
        for mexpr in spec.modifies:
            for r in self.resolve_modifies(mexpr, mctx):
                mod_regions.add(r)
        for rid in sorted(self.loop_extra_mod.get(key, ())):
            mod_regions.add(Region.by_id[rid])
        hav_ids = set()
        for r in sorted(mod_regions, key=lambda r: r.id):
            self.havoc_region(r)
            for leaf in r.all_leaves():
                hav_ids.add(leaf.id)
        self.st.version += 1
        # 3. assume the invariant in the arbitrary iteration
        for name, text in spec.invariants.items():
            self.assume(self.inv_clause(text, ctx))
        for name, text in spec.unfold.items():
            self.assume(self.inv_clause(text, ctx))
        ctx.iter_state = self.st.copy()
        dec0 = None
        if spec.decreases:
            dec0 = self.eval_tv(spec.decreases, ctx)
        written_before = set(self.st.written)
        mark = Region._n[0]
        self.st.written = set()
        c = self.loop_cond(cond)
        choice = self.decide(2)
        if choice == 1:
            # exit path
            self.assume(z3.Not(c))
            if not self.feasible():
                raise PathEnd()
            self.st.written |= written_before
            return
        self.assume(c)
        if not self.feasible():
            raise PathEnd()
        broke = False
        try:
            self.exec_stmt(body)
        except BreakEx:
            broke = True
        except ContinueEx:
            pass
        if broke:
            self.check_loop_frame(key, hav_ids, mark)
            self.st.written |= written_before
            return
        if inc is not None:
            self.rval(inc)
        self.check_loop_frame(key, hav_ids, mark)
        for name, text in spec.lemmas.items():
            g = self.inv_clause(text, ctx)
            self.oblige('loop_lemma', '%s.%s' % (tag, name), g, 'at the end of the body: ' + text, n)
            self.assume(g)
        for name, text in spec.invariants.items():
            cases = None
            if name in spec.split:
                from .contracts import to_index
                sp = spec.split[name]
                var, term = sp[0], sp[1]
                other = None
                if len(sp) > 2:
                    # the remaining case as a clause over the bound variable (a placeholder constant stands for it)
                    from .contracts import Translator, TV
                    ph = z3.BitVec('%s!case' % var, 64)
                    tr = Translator(ctx, self.reg.defs)
                    tr.bound.append({var: TV(ph, False)})
                    other = (ph, tr.clause(sp[2]))
                cases = [(var, to_index(self.eval_tv(term, ctx)), other)]
            self.oblige('loop_inv_preserved', '%s.%s' % (tag, name), self.inv_clause(text, ctx), 'preserved: ' + text, n, cases=cases)
        if dec0 is not None:
            dec1 = self.eval_tv(spec.decreases, ctx)
            self.oblige('loop_variant', '%s.decreases' % tag, tv_cmp('<', dec1, dec0), 'variant decreases: ' + spec.decreases, n)
        raise PathEnd()

    def check_loop_frame(self, key, hav_ids, mark):
        """every pre-existing region written by the body must have been havocked (otherwise the proof would be unsound);
        the set is grown automatically and the function re-explored"""
        from .exec import LoopFrameGrow
        extra = {rid for rid in self.st.written if rid not in hav_ids and rid <= mark}
        if extra:
            raise LoopFrameGrow(key, extra)

    def inv_clause(self, text, ctx):
        return self.eval_clause(text, ctx)

    def eval_tv(self, text, ctx):
        from .contracts import Translator
        tr = Translator(ctx, self.reg.defs)
        return tr.as_tv(tr.expr(text))

    def resolve_modifies(self, mexpr, ctx):
        """'out' / 'state.keyStream' / 'state' -> regions"""
        from .contracts import Translator
        tr = Translator(ctx, self.reg.defs)
        v = tr.expr(mexpr)
        if isinstance(v, Ptr) and v.region is not None:
            return [v.region]
        # scalar field: find the cell
        import ast as _ast
        node = _ast.parse(mexpr.strip(), mode='eval').body
        if isinstance(node, _ast.Attribute):
            base = tr.ev(node.value)
            if isinstance(base, Ptr) and base.region is not None and base.region.kind == 'struct':
                return [base.region.fields[node.attr]]
        if isinstance(node, _ast.Name):
            f = self.frame
            did = f.scope.get(node.id)
            if did in f.cells:
                return [f.cells[did]]
        raise ClauseError('cannot resolve modifies target %r' % mexpr)
