"""Values, regions and the symbolic state of the CVC executor (region memory model, DESIGN.md 2.4)."""
import z3

from .clang_ast import Unsupported, CT, sizeof

BV64 = z3.BitVecSort(64)
PTRDIFF_MAX = (1 << 63) - 1


def bv(v, w):
    return z3.BitVecVal(v, w)


class Ptr:
    """pointer = (region, offset in ELEMENTS of the region); region None = NULL"""
    __slots__ = ('region', 'off')

    def __init__(self, region, off=None):
        self.region = region
        self.off = off if off is not None else bv(0, 64)

    def __repr__(self):
        return 'Ptr(%s,%s)' % (self.region.name if self.region else 'NULL', self.off)


NULL = Ptr(None)


class FuncPtr:
    """function designator: a function of the TU (name) or an abstract callee (kind, e.g. 'block_encrypt')"""
    __slots__ = ('name', 'abstract')

    def __init__(self, name, abstract=False):
        self.name = name
        self.abstract = abstract

    def __repr__(self):
        return 'FuncPtr(%s)' % self.name


class Region:
    """kind: 'arr' (elements of `bits` width, `length` BV64 elements) | 'cell' (one scalar of type ct) |
             'struct' (fields: name -> Region) | 'raw' (untyped heap bytes, `length` BV64 bytes)"""
    _n = [0]
    by_id = {}
    __slots__ = ('id', 'name', 'kind', 'bits', 'ct', 'length', 'fields', 'heap', 'const', 'root', 'stack', 'ptr_elems')

    def __init__(self, name, kind, bits=None, ct=None, length=None, fields=None, heap=False, const=False, root=None, stack=False):
        Region._n[0] += 1
        self.id = Region._n[0]
        self.name = name
        self.kind = kind
        self.bits = bits
        self.ct = ct
        self.length = length
        self.fields = fields
        self.heap = heap
        self.const = const
        self.root = root or self
        self.stack = stack
        self.ptr_elems = False
        Region.by_id[self.id] = self

    def __repr__(self):
        return 'Region(%s:%s)' % (self.name, self.kind)

    def all_leaves(self):
        if self.kind == 'struct':
            for f in self.fields.values():
                for x in f.all_leaves():
                    yield x
        else:
            yield self


class State:
    __slots__ = ('pc', 'env', 'mem', 'dead', 'retyped', 'written', 'allocated', 'version', 'ghost', 'lit')

    def __init__(self):
        self.pc = []
        self.env = {}        # decl id -> value (locals / parameters whose address is not taken)
        self.mem = {}        # region id -> z3 array ('arr') | python value ('cell') | 'zero'/'undef' ('raw')
        self.dead = set()    # ids of freed heap root regions
        self.retyped = {}    # raw region id -> typed Region
        self.written = set() # region ids stored to (loop frame checking)
        self.allocated = []  # heap root regions allocated since function entry
        self.version = 0
        self.ghost = {}
        self.lit = {}        # region id -> (array term id, {literal index: value}): reads at literal indices without the solver's rewriter

    def copy(self):
        s = State()
        s.pc = list(self.pc)
        s.env = dict(self.env)
        s.mem = dict(self.mem)
        s.dead = set(self.dead)
        s.retyped = dict(self.retyped)
        s.written = set(self.written)
        s.allocated = list(self.allocated)
        s.version = self.version
        s.ghost = dict(self.ghost)
        s.lit = {k: (v[0], dict(v[1]), v[2]) for k, v in self.lit.items()}
        return s


def arr_sort(bits):
    return z3.ArraySort(BV64, z3.BitVecSort(bits))


def truth(v):
    """C scalar -> z3 Bool"""
    if isinstance(v, Ptr):
        return z3.BoolVal(v.region is not None)
    if isinstance(v, FuncPtr):
        return z3.BoolVal(True)
    if z3.is_bool(v):
        return v
    if z3.is_app_of(v, z3.Z3_OP_ITE):
        a, b = v.arg(1), v.arg(2)
        if z3.is_bv_value(a) and z3.is_bv_value(b):
            if a.as_long() != 0 and b.as_long() == 0:
                return v.arg(0)
            if a.as_long() == 0 and b.as_long() != 0:
                return z3.Not(v.arg(0))
    return v != 0


def from_bool(c, bits=32):
    return z3.If(c, bv(1, bits), bv(0, bits))


def cast_int(v, from_signed, bits):
    w = v.size()
    if w == bits:
        return v
    if w > bits:
        return z3.Extract(bits - 1, 0, v)
    return z3.SignExt(bits - w, v) if from_signed else z3.ZeroExt(bits - w, v)


def concrete(v):
    """python int if the z3 term simplifies to a numeral, else None"""
    s = z3.simplify(v)
    if z3.is_bv_value(s):
        return s.as_long()
    if z3.is_true(s):
        return 1
    if z3.is_false(s):
        return 0
    return None
