"""Native replay of a counter-model: compile the CURRENT C file with gcc (address sanitizer on) into a temporary .so,
call the function through ctypes in a child process with the witness inputs, and evaluate the violated clause on the
real outputs.  `replayed` becomes True only if the real compiled code breaks the clause (or the sanitizer reports the
memory error the obligation is about).  Replay trouble never changes a verdict."""
import json
import os
import shutil
import subprocess
import sys
import tempfile

import z3

from .clang_ast import Unsupported, sizeof, field_offset
from .contracts import TV, Translator
from .mem import *      # noqa

MAX_LEN = 4096
MEMORY_KINDS = ('in_bounds', 'use_after_free', 'double_free', 'free_valid', 'memcpy_overlap', 'null_deref')

CHILD = r'''
import ctypes, json, sys
spec = json.load(open(sys.argv[1]))
lib = ctypes.CDLL(spec['so'])
libc = ctypes.CDLL(None)
libc.malloc.restype = ctypes.c_void_p
libc.malloc.argtypes = [ctypes.c_size_t]
INT = {8: ctypes.c_uint8, 16: ctypes.c_uint16, 32: ctypes.c_uint32, 64: ctypes.c_uint64}
SINT = {8: ctypes.c_int8, 16: ctypes.c_int16, 32: ctypes.c_int32, 64: ctypes.c_int64}
args = []
bufs = {}
for p in spec['params']:
    if p['kind'] == 'int':
        t = (SINT if p['signed'] else INT)[p['bits']]
        args.append(t(p['value']))
    elif p['kind'] == 'buf':
        n = len(p['data'])
        addr = libc.malloc(max(n, 1) if n else 1)      # exact-size heap block: the sanitizer guards both ends
        if n == 0:
            addr = libc.malloc(0) or addr
        ctypes.memmove(addr, bytes(p['data']), n)
        bufs[p['name']] = (addr, n)
        args.append(ctypes.c_void_p(addr))
    elif p['kind'] == 'alias':
        args.append(ctypes.c_void_p(bufs[p['of']][0]))
    elif p['kind'] == 'null':
        args.append(ctypes.c_void_p(0))
fn = getattr(lib, spec['symbol'])
rt = spec['ret']
fn.restype = None if rt is None else (SINT if rt['signed'] else INT)[rt['bits']]
fn.argtypes = [type(a) for a in args]
sys.stdout.write('CALL\n'); sys.stdout.flush()
r = fn(*args)
out = {'result': r, 'bufs': {k: list(ctypes.string_at(a, n)) for k, (a, n) in bufs.items()}}
sys.stdout.write('RESULT ' + json.dumps(out) + '\n'); sys.stdout.flush()
'''


class NotReplayable(Exception):
    pass


def _c_decl(tu, fnode, fname):
    """a trampoline with external linkage (the function may be static)"""
    params = [p for p in fnode['inner'] if p.get('kind') == 'ParmVarDecl']
    ps = []
    names = []
    for i, p in enumerate(params):
        q = p['type']['qualType']
        if '(' in q or '[' in q:
            raise NotReplayable('parameter type %s' % q)
        nm = 'a%d' % i
        ps.append('%s %s' % (q, nm))
        names.append(nm)
    rt = fnode['type']['qualType'].split('(')[0].strip()
    call = '%s(%s)' % (fname, ', '.join(names))
    body = call + ';' if rt == 'void' else 'return %s;' % call
    return '%s __cvc_replay_%s(%s) { %s }\n' % (rt, fname, ', '.join(ps) or 'void', body)


def build_so(tu, fname, workdir, sanitize=True):
    src = os.path.join(workdir, 'wrap_%s.c' % fname)
    with open(src, 'w') as f:
        f.write('#include "%s"\n' % tu.path)
        f.write(_c_decl(tu, tu.funcs[fname], fname))
    so = os.path.join(workdir, 'replay_%s.so' % fname)
    flags = [x for x in tu.flags if x.startswith('-D') or x.startswith('-I') or x.startswith('-m')]
    cmd = ['gcc', '-shared', '-fPIC', '-O1', '-g', '-w'] + (['-fsanitize=address', '-fno-omit-frame-pointer'] if sanitize else []) + flags + [src, '-o', so]
    r = subprocess.run(cmd, capture_output=True, text=True)
    if r.returncode != 0:
        raise NotReplayable('gcc failed: %s' % r.stderr[-400:])
    return so


def _flat_bytes(witness, name, ct, reg_name):
    """little-endian image of a pointer-free struct from the witness"""
    size = sizeof(ct)
    img = bytearray(size)
    for fname, ft in ct.fields:
        off = field_offset(ct, fname)
        key = '%s.%s' % (reg_name, fname)
        if ft.kind == 'int':
            v = witness['ints'].get(key, 0)
            img[off:off + ft.bits // 8] = (v % (1 << ft.bits)).to_bytes(ft.bits // 8, 'little')
        elif ft.kind == 'arr' and ft.to.kind == 'int':
            a = witness['arrays'].get(key)
            data = a.get('data') if a else None
            if data is None:
                raise NotReplayable('no data for %s' % key)
            w = ft.to.bits // 8
            for i, x in enumerate(data[:ft.n]):
                img[off + i * w: off + (i + 1) * w] = int(x).to_bytes(w, 'little')
        else:
            raise NotReplayable('field %s of type %r' % (fname, ft))
    return img


def replay_violation(tu, reg, fname, res, ob):
    w = res.get('witness')
    if not w or 'ints' not in w:
        raise NotReplayable('no concrete witness')
    c = reg.contracts[fname]
    fnode = tu.funcs[fname]
    cfg = next((x for x in c.configs if x.get('name', 'default') == w.get('config', 'default')), c.configs[0])
    params = [p for p in fnode['inner'] if p.get('kind') == 'ParmVarDecl']
    spec = {'symbol': '__cvc_replay_' + fname, 'params': [], 'ret': None}
    aliases = {b: a for a, b in cfg.get('alias', [])}
    layout = {}
    for p in params:
        ct = tu.ctype(p['type'])
        name = p['name']
        if ct.kind == 'int':
            spec['params'].append({'kind': 'int', 'bits': ct.bits, 'signed': ct.signed, 'value': w['ints'][name]})
        elif ct.kind == 'ptr':
            if name in cfg.get('null', []):
                spec['params'].append({'kind': 'null'})
            elif name in aliases:
                spec['params'].append({'kind': 'alias', 'of': aliases[name]})
            elif ct.to.kind == 'int' and name in w['arrays']:
                a = w['arrays'][name]
                if a.get('data') is None or a['length'] > MAX_LEN:
                    raise NotReplayable('buffer %s of %d elements is too large to replay' % (name, a['length']))
                wb = a['bits'] // 8
                raw = b''.join(int(x).to_bytes(wb, 'little') for x in a['data'])
                spec['params'].append({'kind': 'buf', 'name': name, 'data': list(raw)})
                layout[name] = ('arr', a['bits'])
            elif ct.to.kind == 'int' and ('*' + name) in w['ints']:
                raw = (w['ints']['*' + name] % (1 << ct.to.bits)).to_bytes(ct.to.bits // 8, 'little')
                spec['params'].append({'kind': 'buf', 'name': name, 'data': list(raw)})
                layout[name] = ('cell', ct.to.bits)
            elif ct.to.kind == 'struct':
                img = _flat_bytes(w, name, ct.to, name)
                spec['params'].append({'kind': 'buf', 'name': name, 'data': list(img)})
                layout[name] = ('struct', ct.to)
            else:
                raise NotReplayable('pointer parameter %s' % name)
        else:
            raise NotReplayable('parameter %s' % name)
    fct = tu.ctype(fnode['type'])
    if fct.ret.kind == 'int':
        spec['ret'] = {'bits': fct.ret.bits, 'signed': fct.ret.signed}
    elif fct.ret.kind != 'void':
        raise NotReplayable('return type')
    work = tempfile.mkdtemp(prefix='cvc_replay_')
    try:
        asan = subprocess.run(['gcc', '-print-file-name=libasan.so'], capture_output=True, text=True).stdout.strip()
        sanitize = os.path.isabs(asan) and os.path.exists(asan)
        spec['so'] = build_so(tu, fname, work, sanitize)
        sp = os.path.join(work, 'spec.json')
        with open(sp, 'w') as f:
            json.dump(spec, f)
        child = os.path.join(work, 'child.py')
        with open(child, 'w') as f:
            f.write(CHILD)
        env = dict(os.environ)
        if sanitize:
            env['LD_PRELOAD'] = asan
            env['ASAN_OPTIONS'] = 'detect_leaks=0:abort_on_error=0:exitcode=97'
        try:
            r = subprocess.run([sys.executable, child, sp], capture_output=True, text=True, env=env, timeout=60)
        except subprocess.TimeoutExpired:
            res['replay'] = {'how': 'native call of %s timed out' % fname}
            if res['kind'] == 'loop_variant':
                res['replayed'] = True
            return
        how = {'how': 'gcc -fsanitize=address build of %s, ctypes call %s(...) with the witness inputs' % (os.path.basename(tu.path), fname),
               'inputs': {'ints': w['ints'], 'arrays': {k: v.get('data') for k, v in w['arrays'].items()}}}
        res['replay'] = how
        if 'RESULT ' not in r.stdout:
            summary = [l for l in r.stderr.splitlines() if 'ERROR: AddressSanitizer' in l or 'SUMMARY' in l]
            how['native'] = 'process died: ' + (' | '.join(summary)[:400] or r.stderr[-300:])
            if summary and (res['kind'] in MEMORY_KINDS or res['kind'] in ('ensures', 'loop_inv_preserved', 'loop_inv_entry', 'requires_at_call')):
                # the real code performs an invalid memory access on this input
                res['replayed'] = True
                res['detail'] += ' | native replay: ' + how['native']
            return
        out = json.loads(r.stdout.split('RESULT ', 1)[1].splitlines()[0])
        how['native'] = {'result': out['result']}
        if res['kind'] == 'ensures':
            names = [res['id'].rsplit('.', 1)[-1]]
        else:
            # an inner obligation (invariant, lemma, bounds): does the real function break its own postcondition on this input?
            names = list(c.ensures)
        broken = [n for n in names if eval_post_concrete(tu, reg, fname, cfg, w, out, layout, n)]
        how['native']['clauses_broken'] = broken
        if broken:
            res['replayed'] = True
            res['detail'] += ' | native replay: the compiled function returns %s and breaks ensures.%s' % (out['result'], ','.join(broken))
        else:
            res['detail'] += ' | native replay: real code satisfies the postcondition on this input (returned %s)' % out['result']
    finally:
        shutil.rmtree(work, ignore_errors=True)


def eval_post_concrete(tu, reg, fname, cfg, w, out, layout, clause_name):
    """True iff the named ensures clause is FALSE on the concrete (inputs, native outputs)"""
    from .verify import FunctionRun
    run = FunctionRun(tu, reg, fname, cfg)
    run.eng.decisions = []
    run.eng.worklist = []
    f = run.build_entry()
    e = run.eng
    info = run.entry_info
    subs = []
    for name, (v, signed) in info['ints'].items():
        if name in w['ints']:
            subs.append((v, z3.BitVecVal(w['ints'][name], v.size())))
    for name, (arr, n, bits) in info['arrays'].items():
        a = w['arrays'].get(name)
        if a and a.get('data') is not None:
            subs.append((arr, _conc_array(a['data'], bits)))
    # post state: native buffers
    for pname, (kind, x) in layout.items():
        ptr = f.params[pname][0]
        raw = bytes(out['bufs'][pname])
        if kind == 'arr':
            wb = x // 8
            vals = [int.from_bytes(raw[i:i + wb], 'little') for i in range(0, len(raw), wb)]
            e.st.mem[ptr.region.id] = _conc_array(vals, x)
        elif kind == 'cell':
            e.st.mem[ptr.region.id] = z3.BitVecVal(int.from_bytes(raw, 'little'), x)
        elif kind == 'struct':
            for fname_, ft in x.fields:
                off = field_offset(x, fname_)
                fr = ptr.region.fields[fname_]
                if ft.kind == 'int':
                    e.st.mem[fr.id] = z3.BitVecVal(int.from_bytes(raw[off:off + ft.bits // 8], 'little'), ft.bits)
                else:
                    wb = ft.to.bits // 8
                    vals = [int.from_bytes(raw[off + i * wb: off + (i + 1) * wb], 'little') for i in range(ft.n)]
                    e.st.mem[fr.id] = _conc_array(vals, ft.to.bits)
    e.st.ghost['alloc_failed'] = z3.BoolVal(False)
    fct = tu.ctype(tu.funcs[fname]['type'])
    result = None
    if fct.ret.kind == 'int':
        result = TV(z3.BitVecVal(out['result'], fct.ret.bits), fct.ret.signed)
    ctx = e.clause_ctx(f, 'post', result=result)
    tr = Translator(ctx, reg.defs)
    text = reg.contracts[fname].ensures[clause_name]
    g = tr.clause(text)
    g = z3.substitute(g, *subs) if subs else g
    # the preconditions must hold for the witness, otherwise the run says nothing
    pre = z3.And(*[z3.substitute(p, *subs) if subs else p for p in f.entry.pc])
    s = z3.Solver()
    s.set('timeout', 20000)
    s.add(pre)
    if s.check() != z3.sat:
        raise NotReplayable('witness does not satisfy the precondition concretely')
    s = z3.Solver()
    s.set('timeout', 20000)
    s.add(z3.Not(g))
    return s.check() == z3.sat


def _conc_array(vals, bits):
    a = z3.K(BV64, bv(0, bits))
    for i, x in enumerate(vals):
        if x:
            a = z3.Store(a, bv(i, 64), bv(x, bits))
    return a
