"""Whole-library scans over ALL translation units of src/ (front end only: clang's typed AST, no symbolic execution).

  static_const   every object of static storage duration defined in src/ (file scope or `static` local) is const-qualified down
                 to its elements; no cast removes `const` from a pointer into such an object                      (C19)
  alloc_checked  every malloc/calloc/realloc/align_alloc result is tested against NULL before its first use (syntactic: the first
                 later statement that mentions the result must be a recognised NULL test)                          (C17)
  const_index    every array subscript with a compile-time-constant index into an array of known bound is in range  (C17)

One result per (scan, file).  A file that is not a translation unit of its own (`#include`d by others: hash_SHA2_template.c,
block_common.c, ...) is scanned inside every TU that includes it; a file that neither parses alone nor is reached through
another TU is reported `undecided`."""
import glob
import os
import time

from .clang_ast import TU, FrontEndError, Unsupported, CT

ALLOCATORS = ('malloc', 'calloc', 'realloc', 'align_alloc', 'strdup')
SCANS = ('static_const', 'alloc_checked', 'const_index')


# ----------------------------------------------------------------------------------------------- helpers
def walk(n, parents=()):
    if not isinstance(n, dict):
        return
    yield n, parents
    for c in n.get('inner', []) or []:
        for x in walk(c, parents + (n,)):
            yield x


def strip(e):
    while isinstance(e, dict) and e.get('kind') in ('ParenExpr', 'ImplicitCastExpr', 'CStyleCastExpr', 'ConstantExpr') and e.get('inner'):
        e = e['inner'][0]
    return e


def callee_name(call):
    f = strip(call['inner'][0]) if call.get('inner') else None
    if f and f.get('kind') == 'DeclRefExpr':
        return f.get('referencedDecl', {}).get('name')
    return None


def const_eval(e):
    """value of a simple integer constant expression, else None"""
    if not isinstance(e, dict):
        return None
    k = e.get('kind')
    if k in ('IntegerLiteral', 'CharacterLiteral'):
        return int(e['value'])
    if k == 'ConstantExpr' and 'value' in e:
        try:
            return int(e['value'])
        except ValueError:
            return None
    if k in ('ParenExpr', 'ImplicitCastExpr', 'CStyleCastExpr', 'ConstantExpr'):
        if k in ('ImplicitCastExpr', 'CStyleCastExpr') and e.get('castKind') not in ('IntegralCast', 'NoOp'):
            return None
        return const_eval(e['inner'][0])
    if k == 'UnaryOperator' and e.get('opcode') in ('-', '+', '~'):
        v = const_eval(e['inner'][0])
        if v is None:
            return None
        return {'-': -v, '+': v, '~': ~v}[e['opcode']]
    if k == 'BinaryOperator':
        a, b = const_eval(e['inner'][0]), const_eval(e['inner'][1])
        if a is None or b is None:
            return None
        try:
            return {'+': a + b, '-': a - b, '*': a * b, '/': a // b if b else None, '%': a % b if b else None,
                    '<<': a << b if 0 <= b < 128 else None, '>>': a >> b if 0 <= b < 128 else None, '&': a & b, '|': a | b, '^': a ^ b}.get(e['opcode'])
        except Exception:      # noqa
            return None
    if k == 'DeclRefExpr' and e.get('referencedDecl', {}).get('kind') == 'EnumConstantDecl':
        return None
    return None


def fully_const(t):
    """the object of type t cannot be written: const down to its elements"""
    if t.kind == 'arr':
        return fully_const(t.to)
    if t.kind in ('int', 'float', 'struct'):
        return t.const
    if t.kind == 'ptr':
        return t.const          # the pointer object itself (what it points to is another object)
    return t.const


class FileScan:
    def __init__(self, src_dir):
        self.src_dir = os.path.abspath(src_dir)
        self.findings = {s: {} for s in SCANS}       # scan -> file -> [finding]
        self.seen = {s: set() for s in SCANS}         # de-duplication across TUs (file, offset, what)
        self.covered = {}                             # file -> set of TUs it was seen in
        self.tu_errors = {}
        self.checked = {s: {} for s in SCANS}         # scan -> file -> number of objects / sites examined

    def in_src(self, f):
        return f is not None and os.path.abspath(f).startswith(self.src_dir + os.sep)

    def add(self, scan, f, offset, line, msg):
        key = (f, offset, msg)
        if key in self.seen[scan]:
            return
        self.seen[scan].add(key)
        self.findings[scan].setdefault(f, []).append({'file': os.path.relpath(f, os.path.dirname(self.src_dir)), 'line': line, 'what': msg})

    def count(self, scan, f, offset):
        s = self.checked[scan].setdefault(f, set())
        s.add(offset)

    # ------------------------------------------------------------------ one TU
    def scan_tu(self, path):
        try:
            tu = TU(path, src_dir=self.src_dir)
        except FrontEndError as ex:
            self.tu_errors[path] = str(ex)[-400:]
            return
        for d in tu.json.get('inner', []):
            f, line = tu.node_file_line(d)
            if not self.in_src(f):
                continue
            self.covered.setdefault(f, set()).add(path)
            if d.get('kind') == 'VarDecl':
                self.check_static(tu, d, f, line, 'file scope')
            elif d.get('kind') == 'FunctionDecl' and any(c.get('kind') == 'CompoundStmt' for c in d.get('inner', [])):
                self.scan_function(tu, d, f)
        self.scan_casts(tu)

    def check_static(self, tu, d, f, line, where):
        sc = d.get('storageClass')
        if sc == 'extern' and 'init' not in d:
            return              # declaration only; the definition is checked where it is
        off = tu._bare(d.get('loc')).get('offset')
        self.count('static_const', f, off)
        try:
            t = tu.ctype(d['type'])
            ok = fully_const(t)
        except Unsupported:
            ok = d['type']['qualType'].lstrip().startswith('const ')
        if not ok:
            self.add('static_const', f, off, line, 'writable object of static storage duration: `%s %s` (%s)' % (d['type']['qualType'], d.get('name'), where))

    def scan_function(self, tu, fn, f):
        statics = []
        for n, parents in walk(fn):
            k = n.get('kind')
            if k == 'VarDecl' and n.get('storageClass') == 'static':
                ff, line = tu.node_file_line(n)
                self.check_static(tu, n, ff or f, line, 'static local of %s' % fn.get('name'))
            elif k == 'ArraySubscriptExpr':
                self.check_subscript(tu, n, parents, f)
        self.check_allocs(tu, fn, f)

    # ------------------------------------------------------------------ constant subscripts
    def check_subscript(self, tu, n, parents, f):
        base, idx = n['inner'][0], n['inner'][1]
        v = const_eval(idx)
        if v is None:
            return
        b = base
        while b.get('kind') == 'ParenExpr':
            b = b['inner'][0]
        if not (b.get('kind') == 'ImplicitCastExpr' and b.get('castKind') == 'ArrayToPointerDecay'):
            return
        arr = b['inner'][0]
        try:
            t = tu.ctype(arr['type'])
        except Unsupported:
            return
        if t.kind != 'arr' or t.n is None:
            return
        ff, line = tu.node_file_line(n)
        ff = ff or f
        if not self.in_src(ff):
            return
        off = tu._bare(n['range']['begin']).get('offset')
        self.count('const_index', ff, off)
        addr_of = bool(parents) and parents[-1].get('kind') == 'UnaryOperator' and parents[-1].get('opcode') == '&'
        if v < 0 or v > t.n or (v == t.n and not addr_of):
            self.add('const_index', ff, off, line, 'constant index %d outside array of %d elements: %s' % (v, t.n, tu.node_text(n)))

    # ------------------------------------------------------------------ allocation results
    def check_allocs(self, tu, fn, f):
        body = next((c for c in fn.get('inner', []) if c.get('kind') == 'CompoundStmt'), None)
        if body is None:
            return
        self._allocs_in(tu, fn, body, f)

    def _allocs_in(self, tu, fn, comp, f):
        items = comp.get('inner', []) or []
        for i, st in enumerate(items):
            for n, parents in walk(st):
                if n.get('kind') != 'CallExpr' or callee_name(n) not in ALLOCATORS:
                    continue
                if any(p.get('kind') == 'CompoundStmt' for p in parents):
                    continue        # handled when that inner compound is visited
                ff, line = tu.node_file_line(n)
                ff = ff or f
                if not self.in_src(ff):
                    continue
                off = tu._bare(n['range']['begin']).get('offset')
                self.count('alloc_checked', ff, off)
                targets = self.alloc_targets(tu, n, parents)
                if targets is None:
                    self.add('alloc_checked', ff, off, line, 'result of %s is not stored in a variable / member that can be tested: %s' % (callee_name(n), tu.node_text(st)))
                    continue
                if targets == 'returned':
                    continue        # handed straight to the caller, whose test is checked at its own site
                why = self.first_use_is_test(tu, items, i, st, targets, parents)
                if why:
                    self.add('alloc_checked', ff, off, line, '%s result `%s` in %s: %s' % (callee_name(n), targets[0], fn.get('name'), why))
        for st in items:
            for n, parents in walk(st):
                if n.get('kind') == 'CompoundStmt' and n is not comp:
                    if not any(p.get('kind') == 'CompoundStmt' for p in parents):
                        self._allocs_in(tu, fn, n, f)

    def alloc_targets(self, tu, call, parents):
        """texts of the lvalues that receive the result (a = b = malloc()), 'returned', or None"""
        out = []
        for p in reversed(parents):
            k = p.get('kind')
            if k in ('ParenExpr', 'ImplicitCastExpr', 'CStyleCastExpr'):
                continue
            if k == 'BinaryOperator' and p.get('opcode') == '=':
                out.append(tu.node_text(p['inner'][0], 80))
                continue
            if k == 'VarDecl':
                out.append(p.get('name'))
                break
            if k == 'ReturnStmt':
                return 'returned' if not out else out
            break
        return out or None

    def mentions(self, tu, n, targets):
        for x, _ in walk(n):
            if x.get('kind') in ('DeclRefExpr', 'MemberExpr', 'UnaryOperator', 'ArraySubscriptExpr'):
                t = tu.node_text(x, 80)
                if t in targets:
                    return True
        return False

    def is_null_test(self, tu, cond, targets):
        """does the condition contain a comparison of a target with NULL / a truth test of a target?"""
        for x, parents in walk(cond):
            k = x.get('kind')
            if k == 'BinaryOperator' and x.get('opcode') in ('==', '!='):
                a, b = strip(x['inner'][0]), strip(x['inner'][1])
                ta, tb = tu.node_text(a, 80), tu.node_text(b, 80)
                za = const_eval(a) == 0 or ta in ('NULL', '0')
                zb = const_eval(b) == 0 or tb in ('NULL', '0')
                if (ta in targets and zb) or (tb in targets and za):
                    return True
            if k == 'UnaryOperator' and x.get('opcode') == '!' and tu.node_text(strip(x['inner'][0]), 80) in targets:
                return True
            if k in ('ImplicitCastExpr',) and x.get('castKind') == 'PointerToBoolean' and tu.node_text(strip(x), 80) in targets:
                return True
        # `if (p)` : the condition itself is the pointer
        if tu.node_text(strip(cond), 80) in targets:
            return True
        return False

    def first_use_is_test(self, tu, items, i, st, targets, parents):
        """None if fine, else the reason"""
        targets = set(targets)
        # the allocation may itself sit inside the condition of an if: `if ((p = malloc(n)) == NULL)`
        for p in parents:
            if p.get('kind') == 'IfStmt' and self.is_null_test(tu, p['inner'][0], targets):
                return None
        if st.get('kind') == 'IfStmt' and self.is_null_test(tu, st['inner'][0], targets):
            return None
        for later in items[i + 1:]:
            if not self.mentions(tu, later, targets):
                continue
            k = later.get('kind')
            if k == 'IfStmt' and self.is_null_test(tu, later['inner'][0], targets):
                return None
            if k == 'ReturnStmt':
                # returned to the caller (possibly through `cond ? NULL : p`): the caller's test is checked at its site
                return None
            if k in ('BinaryOperator',) and later.get('opcode') == '=' and not self._derefs(tu, later, targets):
                # copied into another place without being dereferenced: follow the copy as an additional target
                targets.add(tu.node_text(later['inner'][0], 80))
                continue
            if k == 'CallExpr' and callee_name(later) in ('free', 'align_free'):
                continue
            if k == 'CallExpr' and callee_name(later) == '__assert_fail':
                continue
            txt = tu.node_text(later, 70)
            if 'assert' in txt and self.is_null_test(tu, later, targets):
                return None
            return 'first later statement mentioning it is not a NULL test: `%s` (line %s)' % (txt, tu.node_file_line(later)[1])
        return None     # never used afterwards

    def _derefs(self, tu, n, targets):
        for x, _ in walk(n):
            k = x.get('kind')
            if k == 'MemberExpr' and x.get('isArrow') and tu.node_text(strip(x['inner'][0]), 80) in targets:
                return True
            if k == 'UnaryOperator' and x.get('opcode') == '*' and tu.node_text(strip(x['inner'][0]), 80) in targets:
                return True
            if k == 'ArraySubscriptExpr' and tu.node_text(strip(x['inner'][0]), 80) in targets:
                return True
            if k == 'CallExpr':
                for a in x['inner'][1:]:
                    if tu.node_text(strip(a), 80) in targets:
                        return True
        return False

    # ------------------------------------------------------------------ casts that drop const from static objects
    def scan_casts(self, tu):
        static_ids = set()
        for d in tu.json.get('inner', []):
            if d.get('kind') == 'VarDecl' and self.in_src(tu.node_file_line(d)[0]):
                static_ids.add(d['id'])
        for d in tu.json.get('inner', []):
            if d.get('kind') != 'FunctionDecl' or not self.in_src(tu.node_file_line(d)[0]):
                continue
            for n, parents in walk(d):
                if n.get('kind') == 'VarDecl' and n.get('storageClass') == 'static':
                    static_ids.add(n['id'])
        for d in tu.json.get('inner', []):
            if d.get('kind') != 'FunctionDecl' or not self.in_src(tu.node_file_line(d)[0]):
                continue
            for n, parents in walk(d):
                if n.get('kind') != 'CStyleCastExpr' or n.get('castKind') not in ('BitCast', 'NoOp'):
                    continue
                to_q = n['type']['qualType']
                frm_q = n['inner'][0]['type']['qualType']
                if '*' not in to_q or '*' not in frm_q:
                    continue
                if 'const' in frm_q.split('*')[0] and 'const' not in to_q.split('*')[0]:
                    refs = [x for x, _ in walk(n) if x.get('kind') == 'DeclRefExpr' and x.get('referencedDecl', {}).get('id') in static_ids]
                    if refs:
                        f, line = tu.node_file_line(n)
                        off = tu._bare(n['range']['begin']).get('offset')
                        self.add('static_const', f, off, line, 'cast removes const from a pointer into static object %s: %s'
                                 % (refs[0]['referencedDecl'].get('name'), tu.node_text(n)))


# ----------------------------------------------------------------------------------------------- unit entry point
import re


def includers(src_dir, name):
    """translation units of src/ that textually #include the given .c file (hash_SHA2_template.c, block_common.c, ...)"""
    out = []
    pat = re.compile(r'#\s*include\s*"%s"' % re.escape(name))
    for p in sorted(glob.glob(os.path.join(src_dir, '*.c'))):
        try:
            with open(p, errors='replace') as f:
                if pat.search(f.read()):
                    out.append(p)
        except OSError:
            pass
    return out


def all_files(src_dir):
    return sorted(glob.glob(os.path.join(src_dir, '*.c')))


_INC = re.compile(r'#\s*include\s*"([^"]+\.c)"')


def library_files(src_dir):
    """the .c files that are library code: sources of an Extension in setup.py plus every .c they #include (transitively).
    Build-time generators (make_p256_table.c ...) and perf/test mains are not library code and are left out of the scans.
    None if setup.py cannot be read (then every file is scanned)."""
    setup = os.path.join(os.path.dirname(os.path.abspath(src_dir)), 'setup.py')
    try:
        with open(setup, errors='replace') as f:
            txt = f.read()
    except OSError:
        return None
    lib = set()
    for m in re.finditer(r'sources\s*=\s*\[(.*?)\]', txt, re.S):
        for q in re.findall(r'["\']src/([^"\']+\.c)["\']', m.group(1)):
            lib.add(os.path.basename(q))
    if not lib:
        return None
    todo = list(lib)
    while todo:
        f = todo.pop()
        try:
            with open(os.path.join(src_dir, f), errors='replace') as fh:
                body = fh.read()
        except OSError:
            continue
        for inc in _INC.findall(body):
            b = os.path.basename(inc)
            if b not in lib:
                lib.add(b)
                todo.append(b)
    return lib


def run_scan(prop, which, src_dir, chunk=None):
    """chunk = (i, n): only the i-th of n slices of the file list (units run in parallel); None = all files"""
    if which not in SCANS:
        raise ValueError(which)
    t0 = time.time()
    files = all_files(src_dir)
    lib = library_files(src_dir)
    skipped = []
    if lib is not None:
        skipped = [os.path.basename(p) for p in files if os.path.basename(p) not in lib]
        files = [p for p in files if os.path.basename(p) in lib]
    mine = files if chunk is None else files[chunk[0]::chunk[1]]
    fs = FileScan(src_dir)
    parsed = set()
    for p in mine:
        fs.scan_tu(p)
        if p not in fs.tu_errors:
            parsed.add(os.path.abspath(p))
    # files that are not translation units of their own are scanned through the TUs that include them
    for p in mine:
        ap = os.path.abspath(p)
        if ap not in fs.covered:
            for q in includers(src_dir, os.path.basename(p)):
                if os.path.abspath(q) not in parsed and q not in fs.tu_errors:
                    fs.scan_tu(q)
                    if q not in fs.tu_errors:
                        parsed.add(os.path.abspath(q))
    clause = {
        'static_const': 'every object of static storage duration defined in %s is const-qualified; no cast strips const from one',
        'alloc_checked': 'every malloc/calloc/align_alloc result in %s is tested against NULL before its first use',
        'const_index': 'every constant array index in %s is within the constant bound of the array',
    }[which]
    results = []
    for p in mine:
        rel = os.path.join('src', os.path.basename(p))
        ap = os.path.abspath(p)
        rid = '%s.scan.%s.%s' % (prop, which, os.path.basename(p))
        if ap not in fs.covered and ap not in parsed:
            why = fs.tu_errors.get(p, 'no declaration of this file was seen in any translation unit')
            results.append({'id': rid, 'kind': 'scan', 'clause': clause % rel, 'status': 'undecided', 'backend': 'clang-ast', 'seconds': 0,
                            'detail': 'file does not parse as a translation unit and no translation unit includes it: ' + why[:300],
                            'witness': None, 'replayed': False})
            continue
        fnd = fs.findings[which].get(ap, [])
        n = len(fs.checked[which].get(ap, ()))
        via = sorted(os.path.basename(x) for x in fs.covered.get(ap, ()))
        note = ''
        if ap not in fs.covered:
            note = ' (the file only #includes other files; their contents are examined under their own names, with this file\'s macros too)'
        elif os.path.basename(p) not in via:
            note = ' (as included by %s)' % ', '.join(via[:4])
        results.append({'id': rid, 'kind': 'scan', 'clause': clause % rel, 'status': 'violated' if fnd else 'discharged', 'backend': 'clang-ast',
                        'seconds': 0, 'detail': ('%d site(s) examined' % n) + note
                        + (': ' + '; '.join('%s:%s %s' % (x['file'], x['line'], x['what']) for x in fnd[:6]) if fnd else ''),
                        'witness': {'findings': fnd} if fnd else None, 'replayed': bool(fnd), 'sites': n,
                        'replay': {'how': 'front-end finding: read the cited line'} if fnd else None})
    # headers (common.h, endianess.h, ...) are examined inside every TU; reported once, by the first slice
    if chunk is None or chunk[0] == 0:
        hdrs = {}
        for f in set(list(fs.covered) + list(fs.findings[which])):
            if not f.endswith('.c'):
                hdrs[f] = fs.findings[which].get(f, [])
        for f, lst in sorted(hdrs.items()):
            n = len(fs.checked[which].get(f, ()))
            results.append({'id': '%s.scan.%s.%s' % (prop, which, os.path.basename(f)), 'kind': 'scan', 'clause': clause % os.path.join('src', os.path.basename(f)),
                            'status': 'violated' if lst else 'discharged', 'backend': 'clang-ast', 'seconds': 0, 'sites': n,
                            'detail': ('%d site(s) examined' % n) + (': ' + '; '.join('%s:%s %s' % (x['file'], x['line'], x['what']) for x in lst[:6]) if lst else ''),
                            'witness': {'findings': lst} if lst else None, 'replayed': bool(lst)})
    dt = time.time() - t0
    if results:
        results[0]['seconds'] = round(dt, 2)
    assumptions = []
    if skipped and (chunk is None or chunk[0] == 0):
        assumptions.append('not library code (no Extension of setup.py compiles or includes them), not scanned: ' + ', '.join(skipped))
    return {'functions': [], 'results': results, 'assumptions': assumptions,
            'trusted': ['clang-14 parse of every src/*.c with the build macros (branches the build does not compile are not seen)',
                        'alloc_checked is a syntactic dominance test (first later mention must be a NULL test); it does not follow pointers through calls']}
