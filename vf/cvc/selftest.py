"""python3-vt -m vf.cvc.selftest [--only substr] [--jobs N] [--skip-base] [--skip-mutants]

(i)   verifies every registered function / scan on the unchanged sources ($VERIF_REPO/src, default /repo/src) in a process pool
      and prints per function: obligations / discharged / seconds;
(ii)  applies textual mutants to COPIES of the C files in a temporary directory (never the repository) and shows that each one
      is reported `violated` on a named obligation (never a crash);
(iii) applies benign refactorings and shows they stay discharged or become `undecided`, never `violated`.
Exit code 0 iff all three hold."""
import argparse
import multiprocessing as mp
import os
import shutil
import sys
import tempfile
import time
import traceback

from . import units as U

# genuine findings of the current tree (NOTES.md): reported, but they do not make the self-test fail
KNOWN_FINDINGS = {'SELF.scan.alloc_checked.mod25519.c': 'F-ALLOC-1: src/mod25519.c:223 calloc result written without a NULL test'}

MODULES = ['contracts.c.pkcs1_decode', 'contracts.c.raw_ctr', 'contracts.c.chacha20', 'contracts.c.raw_ocb', 'contracts.c.raw_cbc',
           'contracts.c.pbkdf2_sha224', 'contracts.c.pbkdf2_sha256', 'contracts.c.pbkdf2_sha384', 'contracts.c.pbkdf2_sha512',
           'contracts.c.pbkdf2_sha1', 'contracts.c.pbkdf2_md5', 'contracts.c.ec_ws_p256', 'contracts.c.ec_ws_p384', 'contracts.c.ec_ws_p521']

# (name, file, old text, new text, contract module, functions, configs or None, kind of the obligation expected to fail or None)
MUTANTS = [
    ('safe_select: i<len -> i<=len', 'pkcs1_decode.c',
     'for (i=0; i<len; i++) {\n        out[i] = (in1[i] & mask2)', 'for (i=0; i<=len; i++) {\n        out[i] = (in1[i] & mask2)',
     'contracts.c.pkcs1_decode', ['safe_select'], None, 'in_bounds'),
    ('safe_select: masks swapped', 'pkcs1_decode.c',
     'out[i] = (in1[i] & mask2) | (in2[i] & mask1);', 'out[i] = (in1[i] & mask1) | (in2[i] & mask2);',
     'contracts.c.pkcs1_decode', ['safe_select'], None, None),
    ('pkcs1_decode: position test >= 10 -> > 10 (search starts at em+11)', 'pkcs1_decode.c',
     'pos = safe_search(em + 10, 0, len_em_output - 10);', 'pos = safe_search(em + 11, 0, len_em_output - 11);\n    pos += 1;',
     'contracts.c.pkcs1_decode', ['pkcs1_decode'], None, None),
    ('pkcs1_decode: expected_pt_len test dropped', 'pkcs1_decode.c',
     'set_if_no_match(&selector, pt_len, expected_pt_len);', '(void)pt_len;',
     'contracts.c.pkcs1_decode', ['pkcs1_decode'], None, None),
    ('pkcs1_decode: padded_sentinel not freed on the error path', 'pkcs1_decode.c',
     '        result = -1;\n        goto end;\n    }\n    pos += 10;', '        return -1;\n    }\n    pos += 10;',
     'contracts.c.pkcs1_decode', ['pkcs1_decode'], None, 'leak'),
    ('oaep_decode: 0x01 separator search for 0x02', 'pkcs1_decode.c',
     'one_pos = safe_search(db + hLen, 0x01, search_len);', 'one_pos = safe_search(db + hLen, 0x02, search_len);',
     'contracts.c.pkcs1_decode', ['oaep_decode'], None, None),
    ('increment_be: carry loop off by one (i<counter_len-1)', 'raw_ctr.c',
     '    pCounter += counter_len - 1;\n    for (i=0; i<counter_len && amount>0; i++, pCounter--) {',
     '    pCounter += counter_len - 1;\n    for (i=0; i+1<counter_len && amount>0; i++, pCounter--) {',
     'contracts.c.raw_ctr', ['increment_be'], ['len1', 'len2', 'len3'], None),
    ('increment_be: wrong byte order (walks up from the first byte)', 'raw_ctr.c',
     '    pCounter += counter_len - 1;\n    for (i=0; i<counter_len && amount>0; i++, pCounter--) {',
     '    for (i=0; i<counter_len && amount>0; i++, pCounter++) {',
     'contracts.c.raw_ctr', ['increment_be'], ['len2', 'len3'], None),
    ('CTR_encrypt: limit comparison > -> >= on the low word', 'raw_ctr.c',
     'ctr_state->length_lo > max_lo)', 'ctr_state->length_lo >= max_lo)',
     'contracts.c.raw_ctr', ['CTR_encrypt'], ['bl16.disjoint'], None),
    ('CTR_start_operation: length_max shift uses counter_len*4', 'raw_ctr.c',
     'ctr_state->length_max_lo = (uint64_t)block_len << (counter_len*8);', 'ctr_state->length_max_lo = (uint64_t)block_len << (counter_len*4);',
     'contracts.c.raw_ctr', ['CTR_start_operation'], ['bl16.p3'], None),
    ('update_keystream: blocks advance by 7 instead of 8', 'raw_ctr.c',
     'increment_be(counter, ctr_state->counter_len, NR_BLOCKS);', 'increment_be(counter, ctr_state->counter_len, NR_BLOCKS-1);',
     'contracts.c.raw_ctr', ['update_keystream'], ['bl16.p3'], None),
    ('chacha20_seek: block_high range check removed (silent truncation, finding D9)', 'chacha20.c',
     '        if (block_high > 0xFFFFFFFFUL) {\n            return ERR_MAX_OFFSET;\n        }\n', '',
     'contracts.c.chacha20', ['chacha20_seek'], ['default'], None),
    ('chacha20_core: 64-bit counter carry dropped', 'chacha20.c',
     '                if (++state->h[12] == 0) {\n                    if (++state->h[13] == 0) {\n                        return ERR_MAX_DATA;\n                    }\n                }',
     '                if (++state->h[12] == 0) {\n                        return ERR_MAX_DATA;\n                }',
     'contracts.c.chacha20', ['chacha20_core'], None, None),
    ('chacha20_core: rotation 12 -> 13 in the quarter round', 'chacha20.c',
     'c+=d; b^=c; b=ROTL(b,12);', 'c+=d; b^=c; b=ROTL(b,13);',
     'contracts.c.chacha20', ['chacha20_core'], None, None),
    ('OCB_start_operation: L table loop shortened to i<BLOCK_SIZE (L[16..64] stay zero)', 'raw_ocb.c',
     '    for (i=1; i<=64; i++)\n        double_L(&state->L[i], &state->L[i-1]);', '    for (i=1; i<BLOCK_SIZE; i++)\n        double_L(&state->L[i], &state->L[i-1]);',
     'contracts.c.raw_ocb', ['OCB_start_operation'], ['default'], None),
    ('double_L: reduction constant 0x87 -> 0x86', 'raw_ocb.c',
     '(carry & 0x87)', '(carry & 0x86)',
     'contracts.c.raw_ocb', ['double_L'], None, None),
    ('CBC_decrypt: next IV copied from the caller buffer (wrong in place; seeded C09)', 'raw_cbc.c',
     [('            iv[MAX_BLOCK_LEN];\n    size_t block_len;\n\n    if ((NULL == cbcState) || (NULL == in) || (NULL == out))\n        return ERR_NULL;\n\n    block_len = cbcState->cipher->block_len;\n    if (block_len > MAX_BLOCK_LEN)\n        return ERR_BLOCK_SIZE;\n\n    memcpy(iv, cbcState->iv, block_len);\n    while (data_len >= block_len) {\n        unsigned i;\n        int result;\n\n        result = cbcState->cipher->decrypt(',
       '            iv[MAX_BLOCK_LEN];\n    const uint8_t *last_ct = NULL;\n    size_t block_len;\n\n    if ((NULL == cbcState) || (NULL == in) || (NULL == out))\n        return ERR_NULL;\n\n    block_len = cbcState->cipher->block_len;\n    if (block_len > MAX_BLOCK_LEN)\n        return ERR_BLOCK_SIZE;\n\n    memcpy(iv, cbcState->iv, block_len);\n    while (data_len >= block_len) {\n        unsigned i;\n        int result;\n\n        result = cbcState->cipher->decrypt('),
      ('        memcpy(out, pt, block_len);\n', '        memcpy(out, pt, block_len);\n        last_ct = in;\n'),
      ('        out += block_len;\n    }\n    memcpy(cbcState->iv, iv, block_len);\n\n    if (data_len > 0)\n        return ERR_NOT_ENOUGH_DATA;\n\n    return 0;\n}\n\n\nEXPORT_SYM int CBC_stop',
       '        out += block_len;\n    }\n    if (NULL != last_ct)\n        memcpy(cbcState->iv, last_ct, block_len);\n\n    if (data_len > 0)\n        return ERR_NOT_ENOUGH_DATA;\n\n    return 0;\n}\n\n\nEXPORT_SYM int CBC_stop')],
     None, 'contracts.c.raw_cbc', ['CBC_decrypt'], ['bl16.inplace'], None),
    ('CBC_encrypt: chains the plaintext block instead of the ciphertext block', 'raw_cbc.c',
     '        memcpy(iv, out, block_len);', '        memcpy(iv, in, block_len);',
     'contracts.c.raw_cbc', ['CBC_encrypt'], ['bl16.disjoint'], None),
    ('pbkdf2 assist: 64-bit word xor drops the digest_size % 8 tail (seeded C12, SHA-224)', 'hash_SHA2_template.c',
     '        for (j=0; j<digest_size; j++) {\n            result[j] ^= last_hmac[j];\n        }',
     '        for (j=0; j<digest_size/sizeof(uint64_t); j++) {\n            uint64_t acc, u;\n            memcpy(&acc, result + j*sizeof(uint64_t), sizeof acc);\n            memcpy(&u, last_hmac + j*sizeof(uint64_t), sizeof u);\n            acc ^= u;\n            memcpy(result + j*sizeof(uint64_t), &acc, sizeof acc);\n        }',
     'contracts.c.pbkdf2_sha224', ['SHA224_pbkdf2_hmac_assist'], ['ds28'], None),
    ('ec_scalar_g_p256: table guard moved before the window count and computed with floor (seeded C17)', 'ec_ws.c',
     [('    bw = init_bit_window_rl(p256_window_size, exp, exp_size);\n\n    /** The tables only cover scalars up to the size of the order **/\n    if (bw.nr_windows > p256_n_tables)\n        return ERR_VALUE;\n',
       '\n    /** The tables only cover scalars up to the size of the order **/\n    if ((exp_size*8)/p256_window_size > p256_n_tables)\n        return ERR_VALUE;\n\n    bw = init_bit_window_rl(p256_window_size, exp, exp_size);\n')],
     None, 'contracts.c.ec_ws_p256', ['ec_scalar_g_p256'], None, 'in_bounds'),
    ('MD4: writable static buffer re-introduced (finding D12)', 'MD4.c',
     '    static const uint8_t padding[64] = {', '    static uint8_t s_len[8];\n    static const uint8_t padding[64] = {',
     'scan:static_const', None, None, 'scan'),
    ('strxor: malloc result used without test (synthetic)', 'strxor.c',
     None, None, 'scan:alloc_checked', None, None, 'scan'),
]

# benign refactorings: must stay discharged or become undecided, never violated
BENIGN = [
    ('safe_select: loop variable renamed i -> idx', 'pkcs1_decode.c',
     [('    size_t i;\n    uint8_t mask1, mask2;', '    size_t idx;\n    uint8_t mask1, mask2;'),
      ('for (i=0; i<len; i++) {\n        out[i] = (in1[i] & mask2) | (in2[i] & mask1);', 'for (idx=0; idx<len; idx++) {\n        out[idx] = (in1[idx] & mask2) | (in2[idx] & mask1);')],
     'contracts.c.pkcs1_decode', ['safe_select'], None),
    ('safe_select: independent statements reordered', 'pkcs1_decode.c',
     [('        mask1 = rol8(mask1);\n        mask2 = rol8(mask2);', '        mask2 = rol8(mask2);\n        mask1 = rol8(mask1);')],
     'contracts.c.pkcs1_decode', ['safe_select'], None),
    ('pkcs1_decode: argument checks reordered', 'pkcs1_decode.c',
     [('    if (len_em_output < (PKCS1_PREFIX_LEN + 2)) {\n        return -1;\n    }\n    if (len_sentinel > len_em_output) {\n        return -1;\n    }',
       '    if (len_sentinel > len_em_output) {\n        return -1;\n    }\n    if (len_em_output < (PKCS1_PREFIX_LEN + 2)) {\n        return -1;\n    }')],
     'contracts.c.pkcs1_decode', ['pkcs1_decode'], None),
    ('increment_be: temporary introduced for the sum', 'raw_ctr.c',
     [('        *pCounter = (uint8_t)(*pCounter + amount);\n        amount = *pCounter < amount;\n    }\n}\n\n/*\n * Create',
       '        unsigned sum = *pCounter + amount;\n        *pCounter = (uint8_t)sum;\n        amount = *pCounter < amount;\n    }\n}\n\n/*\n * Create')],
     'contracts.c.raw_ctr', ['increment_be'], ['len1', 'len4', 'len16']),
    ('CBC_decrypt: xor loop and the two copies reordered', 'raw_cbc.c',
     [('        memcpy(iv, in, block_len);\n        memcpy(out, pt, block_len);\n\n        data_len -= block_len;\n        in += block_len;\n        out += block_len;',
       '        memcpy(iv, in, block_len);\n        memcpy(out, pt, block_len);\n\n        out += block_len;\n        in += block_len;\n        data_len -= block_len;')],
     'contracts.c.raw_cbc', ['CBC_decrypt'], ['bl16.disjoint']),
    ('ec_scalar_g_p384: guard written as !(nr_windows <= n_tables)', 'ec_ws.c',
     [('    if (bw.nr_windows > p384_n_tables)\n        return ERR_VALUE;', '    if (!(bw.nr_windows <= p384_n_tables))\n        return ERR_VALUE;')],
     'contracts.c.ec_ws_p384', ['ec_scalar_g_p384'], None),
    ('chacha20_seek: checks reordered (offset before nonce size)', 'chacha20.c',
     [('    if ((state->nonceSize != 8) && (state->nonceSize != 12))\n        return ERR_NONCE_SIZE;\n\n    if (offset >= sizeof state->keyStream)\n        return ERR_MAX_OFFSET;\n\n    if (state->nonceSize == 8) {',
       '    if ((state->nonceSize != 8) && (state->nonceSize != 12))\n        return ERR_NONCE_SIZE;\n\n    if (!(offset < sizeof state->keyStream))\n        return ERR_MAX_OFFSET;\n\n    if (state->nonceSize == 8) {')],
     'contracts.c.chacha20', ['chacha20_seek'], ['default']),
]


def src_dir():
    return os.environ.get('VERIF_C_SRC') or U.default_src()


# ------------------------------------------------------------------------------------------------ workers
def _task(t):
    kind = t[0]
    t0 = time.time()
    try:
        if kind == 'fn':
            _, mod, fn, cfgs, c_file = t[:5]
            shard = t[5] if len(t) > 5 else None
            out = U.run_functions('SELF', mod, [fn], configs=cfgs, c_file=c_file, replay=c_file is not None, shard=shard)
        else:
            _, which, chunk, sdir = t
            from . import scan
            out = scan.run_scan('SELF', which, sdir or src_dir(), chunk)
        out['task'] = t
        out['seconds'] = time.time() - t0
        return out
    except Exception as ex:      # noqa
        return {'task': t, 'seconds': time.time() - t0, 'functions': [],
                'results': [{'id': 'SELF.crash.%s' % (t[2] if kind == 'fn' else t[1]), 'kind': 'engine', 'clause': 'engine ran', 'status': 'error',
                             'backend': '', 'seconds': 0, 'detail': '%s\n%s' % (ex, traceback.format_exc()[-1500:]), 'witness': None}]}


def run_pool(tasks, jobs):
    if not tasks:
        return []
    ctx = mp.get_context('fork')
    outs = []
    with ctx.Pool(min(jobs, len(tasks)), maxtasksperchild=1) as pool:
        for r in pool.imap_unordered(_task, tasks):
            outs.append(r)
            if os.environ.get('VERIF_CVC_PROGRESS'):
                t = r['task']
                print('    [done %.0fs] %s' % (r['seconds'], ' '.join(str(x) for x in t[1:4])[:110]), flush=True)
    return outs


def have(mod):
    try:
        __import__(mod)
        return True
    except ImportError:
        return False


# ------------------------------------------------------------------------------------------------ (i) baseline
def baseline(jobs, only, quick_only=False):
    tasks = []
    for mod in MODULES:
        if not have(mod):
            continue
        for fn, cfgs, shard, w, tiers in U.plan(mod):
            if only and not any(o in fn or o in mod for o in only):
                continue
            if quick_only and 'quick' not in tiers:
                continue
            tasks.append((w, ('fn', mod, fn, tuple(cfgs) if cfgs else None, None, shard)))
    if not only or any('scan' in o for o in only):
        for which in ('static_const', 'alloc_checked', 'const_index'):
            for i in range(8):
                tasks.append((10, ('scan', which, (i, 8), None)))
    tasks.sort(key=lambda x: -x[0])
    t0 = time.time()
    outs = run_pool([t for _, t in tasks], jobs)
    wall = time.time() - t0
    per = {}
    bad = []
    known = []
    for o in outs:
        t = o['task']
        key = ('%s:%s' % (t[1].split('.')[-1], t[2])) if t[0] == 'fn' else 'scan:%s' % t[1]
        p = per.setdefault(key, {'ob': 0, 'dis': 0, 'sec': 0.0, 'inst': 0, 'maxq': 0.0})
        p['sec'] += o['seconds']
        for r in o['results']:
            p['ob'] += 1
            p['inst'] += r.get('instances', 1) or 1
            p['maxq'] = max(p['maxq'], r.get('seconds') or 0)
            if r['status'] == 'discharged':
                p['dis'] += 1
            elif r['status'] == 'violated' and r['id'] in KNOWN_FINDINGS:
                known.append(r)
            else:
                bad.append(r)
    print('=== (i) unchanged sources: %s (%s)' % (src_dir(), 'quick tier: representative configurations' if quick_only else 'all configurations'))
    print('%-44s %11s %10s %10s %9s' % ('function / scan', 'obligations', 'discharged', 'instances', 'cpu s'))
    for k in sorted(per):
        p = per[k]
        print('%-44s %11d %10d %10d %9.1f' % (k, p['ob'], p['dis'], p['inst'], p['sec']))
    tot = sum(p['ob'] for p in per.values())
    dis = sum(p['dis'] for p in per.values())
    print('total: %d obligations, %d discharged, cpu %.0f s, wall %.1f s with %d processes' % (tot, dis, sum(p['sec'] for p in per.values()), wall, jobs))
    for r in known:
        print('  KNOWN FINDING %s (%s): %s' % (r['id'], KNOWN_FINDINGS[r['id']], (r.get('detail') or '')[:300]))
    for r in bad:
        print('  NOT DISCHARGED %s %s: %s' % (r['status'], r['id'], (r.get('detail') or '')[:400]))
    return not bad


# ------------------------------------------------------------------------------------------------ (ii) mutants / (iii) benign
def make_copy(tmp, fname, edits, mod=None):
    """copy of the (edited) file; if the file is not the translation unit of the contract module (an included template), the
    TU is copied next to it so that its `#include "..."` picks up the edited copy"""
    src = os.path.join(src_dir(), fname)
    with open(src) as f:
        text = f.read()
    for old, new in edits:
        if old is None:
            continue
        if text.count(old) < 1:
            raise RuntimeError('mutation anchor not found in %s: %r' % (fname, old[:60]))
        text = text.replace(old, new, 1)
    d = tempfile.mkdtemp(prefix='m_', dir=tmp)
    dst = os.path.join(d, fname)
    with open(dst, 'w') as f:
        f.write(text)
    if mod is not None and not mod.startswith('scan:'):
        tu_name = os.path.basename(U.load_registry(mod).file)
        if tu_name != fname:
            shutil.copy(os.path.join(src_dir(), tu_name), os.path.join(d, tu_name))
            return os.path.join(d, tu_name)
    return dst


def scan_copy_dir(tmp, fname, edits, extra_text=None):
    """a full copy of src/ (scans look at every file) with one file changed"""
    d = tempfile.mkdtemp(prefix='scan_', dir=tmp)
    dst = os.path.join(d, 'src')
    shutil.copytree(src_dir(), dst, ignore=shutil.ignore_patterns('test', '*.o', '*.so'))
    p = os.path.join(dst, fname)
    with open(p) as f:
        text = f.read()
    for old, new in edits:
        if old is None:
            continue
        if text.count(old) < 1:
            raise RuntimeError('mutation anchor not found in %s' % fname)
        text = text.replace(old, new, 1)
    if extra_text:
        text += extra_text
    with open(p, 'w') as f:
        f.write(text)
    return dst


def mutants(jobs, only, tmp):
    tasks = []
    meta = {}
    for i, (name, fname, old, new, mod, fns, cfgs, expect) in enumerate(MUTANTS):
        if only and not any(o in name or o in fname for o in only):
            continue
        if mod.startswith('scan:'):
            which = mod.split(':')[1]
            extra = None
            if old is None:
                extra = '\nstatic void cvc_selftest_unchecked(size_t n) { uint8_t *p; p = (uint8_t*) malloc(n); p[0] = 1; free(p); }\n'
            d = scan_copy_dir(tmp, fname, [(old, new)], extra)
            files = sorted(os.path.basename(x) for x in os.listdir(d) if x.endswith('.c'))
            idx = files.index(fname)
            t = ('scan', which, (idx % 8, 8), d)
            tasks.append(t)
            meta[t] = (name, fname, expect)
            continue
        if not have(mod):
            continue
        edits = old if isinstance(old, list) else [(old, new)]
        path = make_copy(tmp, fname, edits, mod)
        for fn in fns:
            t = ('fn', mod, fn, tuple(cfgs) if cfgs else None, path)
            tasks.append(t)
            meta[t] = (name, fname, expect)
    outs = run_pool(tasks, jobs)
    print('=== (ii) mutants (applied to copies under %s)' % tmp)
    ok = True
    by_name = {}
    for o in outs:
        t = o['task']
        t = (t[0], t[1], t[2], tuple(t[3]) if isinstance(t[3], list) else t[3], t[4]) if t[0] == 'fn' else t
        by_name.setdefault(meta[t][0], []).append(o)
    for name, fname, old, new, mod, fns, cfgs, expect in MUTANTS:
        if name not in by_name:
            continue
        res = [r for o in by_name[name] for r in o['results']]
        viol = [r for r in res if r['status'] == 'violated']
        err = [r for r in res if r['status'] == 'error']
        secs = sum(o['seconds'] for o in by_name[name])
        if err:
            ok = False
            print('  CRASH     %-70s %s' % (name, err[0]['detail'][-300:]))
        elif viol:
            v = next((r for r in viol if os.path.splitext(fname)[0] in r['id']), viol[0])
            print('  violated  %-72s %-58s replayed=%s  (%d violated obligation(s), %.0fs)' % (name[:72], v['id'].split('.', 1)[1][:58], v.get('replayed'), len(viol), secs))
            if expect and not any(r['kind'] == expect for r in viol):
                print('            note: expected a %s obligation among the violated ones' % expect)
            w = v.get('witness')
            if w and 'ints' in w:
                small = {k: x for k, x in list(w['ints'].items())[:6]}
                arrs = {k: (a.get('data') if a.get('length', 0) <= 24 else '%d elements' % a['length']) for k, a in list(w.get('arrays', {}).items())[:3]}
                print('            witness %s %s' % (small, arrs))
            elif w:
                print('            finding %s' % (str(w)[:200]))
        else:
            ok = False
            und = [r for r in res if r['status'] == 'undecided']
            print('  MISSED    %-70s (%d undecided) %s' % (name, len(und), (und[0]['id'] + ': ' + und[0]['detail'][:200]) if und else ''))
    return ok


def benign(jobs, only, tmp):
    tasks = []
    meta = {}
    for name, fname, edits, mod, fns, cfgs in BENIGN:
        if only and not any(o in name or o in fname for o in only):
            continue
        if not have(mod):
            continue
        path = make_copy(tmp, fname, edits, mod)
        for fn in fns:
            t = ('fn', mod, fn, tuple(cfgs) if cfgs else None, path)
            tasks.append(t)
            meta[t] = name
    outs = run_pool(tasks, jobs)
    print('=== (iii) benign refactorings')
    ok = True
    for o in outs:
        t = o['task']
        t = (t[0], t[1], t[2], tuple(t[3]) if isinstance(t[3], list) else t[3], t[4])
        name = meta[t]
        st = {}
        for r in o['results']:
            st[r['status']] = st.get(r['status'], 0) + 1
        bad = [r for r in o['results'] if r['status'] in ('violated', 'error')]
        if bad:
            ok = False
            print('  FALSE ALARM %-66s %s %s' % (name, bad[0]['id'], bad[0]['detail'][:300]))
        else:
            und = [r for r in o['results'] if r['status'] == 'undecided']
            print('  %-11s %-66s %s%s' % ('undecided' if und else 'discharged', name, st, (' -- ' + und[0]['detail'][:120]) if und else ''))
    return ok


def main(argv=None):
    ap = argparse.ArgumentParser(prog='vf.cvc.selftest')
    ap.add_argument('--only', action='append')
    ap.add_argument('--jobs', type=int, default=int(os.environ.get('VERIF_JOBS', '16')))
    ap.add_argument('--skip-base', action='store_true')
    ap.add_argument('--quick', action='store_true', help='baseline: only the quick-tier units (representative configurations)')
    ap.add_argument('--skip-mutants', action='store_true')
    ap.add_argument('--skip-benign', action='store_true')
    a = ap.parse_args(argv)
    t0 = time.time()
    ok = True
    if not a.skip_base:
        ok = baseline(a.jobs, a.only, a.quick) and ok
    tmp = tempfile.mkdtemp(prefix='cvc_selftest_')
    try:
        if not a.skip_mutants:
            ok = mutants(a.jobs, a.only, tmp) and ok
        if not a.skip_benign:
            ok = benign(a.jobs, a.only, tmp) and ok
    finally:
        shutil.rmtree(tmp, ignore_errors=True)
    print('=== selftest %s in %.0f s' % ('PASSED' if ok else 'FAILED', time.time() - t0))
    return 0 if ok else 1


if __name__ == '__main__':
    sys.exit(main())
