"""Glue: CVC contracts -> runner units (vf/README_UNITS.md).

    c_unit(prop, uid, contract_module, function_names, kinds='all'|'safety'|'functional', src_dir='/repo/src')
    scan_unit(prop, which, src_dir='/repo/src')       which in ('static_const', 'alloc_checked', 'const_index')
"""
import importlib
import os

from ..core import Unit
from . import DEFAULT_SRC

TRUSTED = [
    'clang-14 parse (typed JSON AST, macros expanded, implicit casts explicit) agrees with gcc for the C subset used',
    'LP64 (char 8, short 16, int 32, long/size_t/pointer 64), two\'s complement, little endian (PYCRYPTO_LITTLE_ENDIAN build)',
    'region memory model: distinct objects do not overlap; a pointer is (region, offset); no pointer is made from an integer',
    'libc models of malloc/calloc/free/memcpy/memmove/memset/memcmp/posix_memalign (vf/cvc/exec_call.py)',
    'z3 5.1',
]


def load_registry(contract_module):
    mod = importlib.import_module(contract_module) if isinstance(contract_module, str) else contract_module
    return mod.registry()


def src_path(reg, src_dir):
    return os.path.join(src_dir, os.path.basename(reg.file))


def run_functions(prop, contract_module, function_names, kinds='all', src_dir=None, timeout_ms=None, replay=True, c_file=None, configs=None):
    from .clang_ast import TU, FrontEndError
    from .verify import verify_function, SAFETY_KINDS, FUNCTIONAL_KINDS
    from . import replay as rp
    src_dir = src_dir or os.environ.get('VERIF_C_SRC') or default_src()
    reg = load_registry(contract_module)
    out = {'functions': [], 'results': [], 'assumptions': [], 'trusted': list(TRUSTED)}
    path = c_file or src_path(reg, src_dir)
    try:
        tu = TU(path, src_dir=src_dir)
    except FrontEndError as ex:
        for fn in function_names:
            out['results'].append({'id': '%s.%s.%s.engine.translate' % (prop, reg.area, fn), 'kind': 'engine', 'clause': 'clang parses %s' % path,
                                   'status': 'undecided', 'backend': 'clang', 'seconds': 0, 'detail': str(ex)[-800:], 'witness': None, 'replayed': False})
        return out
    ks = None
    if kinds == 'safety':
        ks = SAFETY_KINDS + ('engine', 'vacuity')
    elif kinds == 'functional':
        ks = FUNCTIONAL_KINDS + ('engine', 'vacuity')
    used = set()
    for fn in function_names:
        fe, res = verify_function(tu, reg, fn, prop=prop, timeout_ms=timeout_ms, kinds=ks, replayer=rp.replay_violation if replay else None,
                                  only_configs=configs)
        out['functions'].append(fe)
        out['results'] += res
        used.update(fe.get('callee_contracts_used', []))
    for q in sorted(used):
        cc = reg.contracts.get(q)
        if cc is not None and cc.abstract:
            out['assumptions'].append('abstract callee contract %s: %s' % (q, cc.note or ''))
    out['assumptions'] += list(reg.assumptions)
    return out


def c_unit(prop, uid, contract_module, function_names, kinds='all', src_dir=None, timeout_ms=None, tiers=('quick', 'thorough'), weight=1,
           configs=None):
    """one runner unit verifying the listed functions of one C file (all configurations of their contracts, or only the
    named ones: heavy functions are spread over several units, see plan())"""
    fns = list(function_names)

    def run():
        return run_functions(prop, contract_module, fns, kinds, src_dir, timeout_ms, configs=configs)
    return Unit(uid, run, 'cvc', tiers, weight)


def plan(contract_module, function_names=None, chunk_seconds=25):
    """[(function, [config names] | None, weight)]: the work of a contract module cut into pieces of roughly equal cost
    (weights from the registry's `cost` hints: seconds per configuration)"""
    reg = load_registry(contract_module)
    out = []
    for fn, c in reg.contracts.items():
        if c.abstract or (function_names is not None and fn not in function_names):
            continue
        per = getattr(c, 'cost', None) or 1.0
        names = [cfg.get('name', 'default') for cfg in c.configs]
        if len(names) == 1 or per * len(names) <= chunk_seconds:
            out.append((fn, None, per * len(names)))
            continue
        k = max(1, int(chunk_seconds / per))
        for i in range(0, len(names), k):
            out.append((fn, names[i:i + k], per * len(names[i:i + k])))
    return out


def c_units(prop, contract_module, function_names=None, kinds='all', src_dir=None, timeout_ms=None, tiers=('quick', 'thorough')):
    """the units of a whole contract module, heavy functions split by configuration"""
    reg = load_registry(contract_module)
    us = []
    for fn, cfgs, w in plan(contract_module, function_names):
        uid = '%s.%s' % (reg.area, fn) + ('' if cfgs is None else '[%s..%s]' % (cfgs[0], cfgs[-1]))
        us.append(c_unit(prop, uid, contract_module, [fn], kinds, src_dir, timeout_ms, tiers, weight=w, configs=cfgs))
    return us


def scan_unit(prop, which, src_dir=None, tiers=('quick', 'thorough'), weight=10, chunk=None):
    """whole-library front-end scan `which` in ('static_const', 'alloc_checked', 'const_index') over every src/*.c;
    chunk=(i, n) restricts the unit to the i-th of n slices of the file list"""
    def run():
        from . import scan
        return scan.run_scan(prop, which, src_dir or os.environ.get('VERIF_C_SRC') or default_src(), chunk)
    uid = 'scan.' + which + ('' if chunk is None else '.%d_of_%d' % (chunk[0] + 1, chunk[1]))
    return Unit(uid, run, 'cvc-scan', tiers, weight)


def scan_units(prop, which, nchunks=8, src_dir=None, tiers=('quick', 'thorough')):
    return [scan_unit(prop, which, src_dir, tiers, 10, (i, nchunks)) for i in range(nchunks)]


def default_src():
    return os.environ.get('VERIF_REPO_SRC') or os.path.join(os.environ.get('VERIF_REPO', '/repo'), 'src')
