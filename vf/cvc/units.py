"""Glue: CVC contracts -> runner units (vf/README_UNITS.md).

    c_unit(prop, uid, contract_module, function_names, kinds='all'|'safety'|'functional', src_dir='/repo/src')
    scan_unit(prop, which, src_dir='/repo/src')       which in ('static_const', 'alloc_checked', 'const_index')
"""
import importlib
import os

from ..core import Unit
from . import DEFAULT_SRC

TRUSTED = [
    'clang-14 parse (typed JSON AST, macros expanded, implicit casts explicit) agrees with gcc for the C subset used',
    'LP64 (char 8, short 16, int 32, long/size_t/pointer 64), two\'s complement, little endian (PYCRYPTO_LITTLE_ENDIAN build)',
    'region memory model: distinct objects do not overlap; a pointer is (region, offset); no pointer is made from an integer',
    'libc models of malloc/calloc/free/memcpy/memmove/memset/memcmp/posix_memalign (vf/cvc/exec_call.py)',
    'z3 5.1',
]


def load_registry(contract_module):
    mod = importlib.import_module(contract_module) if isinstance(contract_module, str) else contract_module
    return mod.registry()


def src_path(reg, src_dir):
    return os.path.join(src_dir, os.path.basename(reg.file))


def run_functions(prop, contract_module, function_names, kinds='all', src_dir=None, timeout_ms=None, replay=True, c_file=None, configs=None,
                  shard=None):
    from .clang_ast import TU, FrontEndError
    from .verify import verify_function, SAFETY_KINDS, FUNCTIONAL_KINDS
    from . import replay as rp
    src_dir = src_dir or os.environ.get('VERIF_C_SRC') or default_src()
    reg = load_registry(contract_module)
    out = {'functions': [], 'results': [], 'assumptions': [], 'trusted': list(TRUSTED)}
    path = c_file or src_path(reg, src_dir)
    try:
        tu = TU(path, src_dir=src_dir)
    except FrontEndError as ex:
        for fn in function_names:
            out['results'].append({'id': '%s.%s.%s.engine.translate' % (prop, reg.area, fn), 'kind': 'engine', 'clause': 'clang parses %s' % path,
                                   'status': 'undecided', 'backend': 'clang', 'seconds': 0, 'detail': str(ex)[-800:], 'witness': None, 'replayed': False})
        return out
    ks = None
    if kinds == 'safety':
        ks = SAFETY_KINDS + ('engine', 'vacuity')
    elif kinds == 'functional':
        ks = FUNCTIONAL_KINDS + ('engine', 'vacuity')
    used = set()
    for fn in function_names:
        fe, res = verify_function(tu, reg, fn, prop=prop, timeout_ms=timeout_ms, kinds=ks, replayer=rp.replay_violation if replay else None,
                                  only_configs=configs, shard=shard)
        out['functions'].append(fe)
        out['results'] += res
        used.update(fe.get('callee_contracts_used', []))
    for q in sorted(used):
        cc = reg.contracts.get(q)
        if cc is not None and cc.abstract:
            out['assumptions'].append('abstract callee contract %s: %s' % (q, cc.note or ''))
    out['assumptions'] += list(reg.assumptions)
    return out


def c_unit(prop, uid, contract_module, function_names, kinds='all', src_dir=None, timeout_ms=None, tiers=('quick', 'thorough'), weight=1,
           configs=None, shard=None):
    """one runner unit verifying the listed functions of one C file: all configurations of their contracts or only the named
    ones; shard=(i, n) discharges only the i-th of n shares of the obligations (heavy functions are spread over several units)"""
    fns = list(function_names)

    def run():
        return run_functions(prop, contract_module, fns, kinds, src_dir, timeout_ms, configs=configs, shard=shard)
    return Unit(uid, run, 'cvc', tiers, weight)


UNIT_SECONDS = 60        # planned cpu seconds of one unit (costs are per configuration, measured on an idle machine)


def plan(contract_module, function_names=None, chunk_seconds=UNIT_SECONDS):
    """[(function, [config names] | None, shard | None, weight, tiers)].

    Every function appears in tier `quick` with its representative configurations (`quick=[...]` in the contract; default: the
    first one) and in tier `thorough` with all of them; work is cut into units of about chunk_seconds using the contract's
    `cost` (seconds per configuration); a single configuration above the limit is sharded by obligation."""
    reg = load_registry(contract_module)
    out = []
    for fn, c in reg.contracts.items():
        if c.abstract or (c.inline and not c.ensures) or (function_names is not None and fn not in function_names):
            continue
        per = float(getattr(c, 'cost', None) or 1.0)
        cost = {cfg.get('name', 'default'): float(cfg.get('cost', per)) for cfg in c.configs}
        names = [cfg.get('name', 'default') for cfg in c.configs]
        quick = [n for n in (getattr(c, 'quick', None) or names[:1]) if n in names]
        if sum(cost.values()) <= chunk_seconds:
            quick = names          # cheap: everything in both tiers
        rest = [n for n in names if n not in quick]
        for group, tiers in ((quick, ('quick', 'thorough')), (rest, ('thorough',))):
            cur, cur_cost = [], 0.0
            for n in group:
                if cost[n] > chunk_seconds:
                    nsh = int(-(-cost[n] // chunk_seconds))
                    for i in range(nsh):
                        out.append((fn, [n], (i, nsh), cost[n] / nsh, tiers))
                    continue
                if cur and cur_cost + cost[n] > chunk_seconds:
                    out.append((fn, cur, None, cur_cost, tiers))
                    cur, cur_cost = [], 0.0
                cur.append(n)
                cur_cost += cost[n]
            if cur:
                out.append((fn, cur, None, cur_cost, tiers))
    return out


def c_units(prop, contract_module, function_names=None, kinds='all', src_dir=None, timeout_ms=None, tiers=None, config_filter=None):
    """the units of a whole contract module (see plan()); `tiers` overrides the planned tiers"""
    reg = load_registry(contract_module)
    us = []
    for fn, cfgs, shard, w, tr in plan(contract_module, function_names):
        if config_filter is not None:
            if cfgs is None:
                cfgs = [c.get('name', 'default') for c in reg.contracts[fn].configs]
            cfgs = [c for c in cfgs if config_filter(c)]
            if not cfgs:
                continue
        uid = '%s.%s' % (reg.area, fn)
        if cfgs is not None and len(reg.contracts[fn].configs) > 1:
            uid += '[%s]' % (cfgs[0] if len(cfgs) == 1 else '%s..%s' % (cfgs[0], cfgs[-1]))
        if shard is not None:
            uid += '#%d/%d' % (shard[0] + 1, shard[1])
        if kinds != 'all':
            uid += ':' + kinds
        us.append(c_unit(prop, uid, contract_module, [fn], kinds, src_dir, timeout_ms, tiers or tr, weight=w, configs=cfgs, shard=shard))
    return us


def scan_unit(prop, which, src_dir=None, tiers=('quick', 'thorough'), weight=10, chunk=None):
    """whole-library front-end scan `which` in ('static_const', 'alloc_checked', 'const_index') over every src/*.c;
    chunk=(i, n) restricts the unit to the i-th of n slices of the file list"""
    def run():
        from . import scan
        return scan.run_scan(prop, which, src_dir or os.environ.get('VERIF_C_SRC') or default_src(), chunk)
    uid = 'scan.' + which + ('' if chunk is None else '.%d_of_%d' % (chunk[0] + 1, chunk[1]))
    return Unit(uid, run, 'cvc-scan', tiers, weight)


def scan_units(prop, which, nchunks=8, src_dir=None, tiers=('quick', 'thorough')):
    return [scan_unit(prop, which, src_dir, tiers, 10, (i, nchunks)) for i in range(nchunks)]


def default_src():
    return os.environ.get('VERIF_REPO_SRC') or os.path.join(os.environ.get('VERIF_REPO', '/repo'), 'src')
