"""Verify one C function against its sidecar contract: build the entry state, explore all paths, collect obligations,
discharge them with z3, turn counter-models into witnesses."""
import os
import re
import time
import traceback

import z3

from .clang_ast import Unsupported, FrontEndError
from .contracts import TV, Translator, ClauseError, to_index
from .exec import Engine, PathEnd, LoopFrameGrow
from .exec_call import parse_region_spec
from .exec_stmt import ReturnEx, BreakEx, ContinueEx, GotoEx
from .mem import *      # noqa

QUERY_TIMEOUT_MS = int(os.environ.get('VERIF_CVC_TIMEOUT_MS', '60000'))
MAX_PATHS = 4000
TRACE = bool(os.environ.get('VERIF_CVC_TRACE'))
SAFETY_KINDS = ('frame', 'in_bounds', 'null_deref', 'use_after_free', 'double_free', 'free_valid', 'leak', 'no_overflow', 'shift_range',
                'div_by_zero', 'memcpy_overlap', 'assert', 'unwind')
FUNCTIONAL_KINDS = ('ensures', 'requires_at_call', 'loop_inv_entry', 'loop_inv_preserved', 'loop_variant', 'lemma', 'loop_lemma')


class FunctionRun:
    """exploration of one function in one configuration"""

    def __init__(self, tu, reg, fname, config):
        self.tu, self.reg, self.fname, self.config = tu, reg, fname, config
        self.contract = reg.contracts[fname]
        self.node = tu.funcs[fname]
        self.eng = Engine(tu, reg)
        self.eng.config = config.get('name', 'default')
        self.entry_info = None
        self.returns = 0

    # -------------------------------------------------------------- entry state
    def build_entry(self):
        e = self.eng
        c = self.contract
        Region._n[0] = 0
        e.nfresh = 0
        e.strlits = {}
        e.st = State()
        e.frames = []
        f = e.push_frame(self.fname, self.node, c)
        f.logical = {}
        params = [p for p in self.node['inner'] if p.get('kind') == 'ParmVarDecl']
        ptr_params = {}
        info = {'ints': {}, 'arrays': {}, 'cells': {}, 'fixed': {}}
        pending = dict(self.config.get('set', {}))
        aliases = {}
        for a, b in self.config.get('alias', []):
            aliases[b] = a       # b is the same pointer as a
        # integers first (region lengths refer to them)
        for p in params:
            ct = self.tu.ctype(p['type'])
            if ct.kind == 'int':
                if p['name'] in pending:
                    info['fixed'][p['name']] = pending[p['name']]
                    f.params[p['name']] = (bv(pending.pop(p['name']), ct.bits), ct)
                    continue
                v = z3.BitVec(p['name'], ct.bits)
                info['ints'][p['name']] = (v, ct.signed)
                f.params[p['name']] = (v, ct)
        ctx = e.clause_ctx(f, 'post')
        tr = Translator(ctx, self.reg.defs)

        def try_sets():
            for path in list(pending):
                base_path, _, fld = path.rpartition('.')
                try:
                    base = tr.expr(base_path)
                except (ClauseError, Unsupported):
                    continue
                if not isinstance(base, Ptr) or base.region is None or base.region.kind != 'struct' or fld not in base.region.fields:
                    continue
                cell = base.region.fields[fld]
                info['fixed'][cell.name] = pending[path]
                e.st.mem[cell.id] = bv(pending.pop(path), cell.ct.bits)
                info['ints'].pop(cell.name, None)
        for ln, ldef in self.config.get('let', {}).items():
            f.logical[ln] = tr.expr(ldef)
        # ghost parameters of the contract: fresh symbols constrained only by `requires`
        for ln, ldef in c.logical.items():
            m = re.match(r'^fresh:([ui])(\d+)$', ldef.strip())
            if m:
                v = z3.BitVec(ln, int(m.group(2)))
                f.logical[ln] = TV(v, m.group(1) == 'i')
                info['ints'][ln] = (v, m.group(1) == 'i')
        for p in params:
            ct = self.tu.ctype(p['type'])
            name = p['name']
            if ct.kind == 'int':
                continue
            if ct.kind != 'ptr':
                raise Unsupported('parameter %s of type %r' % (name, ct))
            if ct.to.kind == 'func':
                tgt = self.config.get('funcptr', {}).get(name)
                if tgt is None:
                    raise Unsupported('no target configured for function-pointer parameter %s' % name)
                f.params[name] = (FuncPtr(tgt), ct)
                continue
            if name in self.config.get('null', []):
                f.params[name] = (NULL, ct)
                continue
            spec = c.regions.get(name)
            if spec is None:
                raise Unsupported('contract of %s gives no region for pointer parameter %s' % (self.fname, name))
            if name in aliases:
                continue         # bound below, once its partner exists
            f.params[name] = (self.make_pointee(name, spec, ct.to, tr, info), ct)
            try_sets()
        for p in params:
            if p.get('name') in aliases:
                f.params[p['name']] = (f.params[aliases[p['name']]][0], self.tu.ctype(p['type']))
        # nested shape entries ('a.b': spec), in contract order
        for path, spec in c.regions.items():
            if '.' not in path and '[' not in path:
                continue
            if path.split('.')[0] in self.config.get('null', []):
                continue
            self.make_nested(path, spec, tr, info)
            try_sets()
        try_sets()
        if pending:
            raise Unsupported('config set: cannot resolve %s' % sorted(pending))
        for ln, ldef in list(c.logical.items()) + list(self.config.get('let', {}).items()):
            if ln not in f.logical:
                f.logical[ln] = tr.expr(ldef)
        for p in params:
            e.bind_param(f, p, f.params[p['name']][0]) if p.get('name') in f.params else None
        # parameters that are modified keep their entry value in f.params
        for rn, rtext in c.requires.items():
            e.assume(tr.clause(rtext))
        for atext in self.config.get('assume', []):
            e.assume(tr.clause(atext))
        e.st.ghost['alloc_failed'] = z3.BoolVal(False)
        f.entry = e.st.copy()
        e.st.written = set()
        self.entry_mark = Region._n[0]
        # frame: leaves the contract allows the function to write
        self.may_write = set()
        for m in c.modifies:
            root = m.split('.')[0].split('[')[0]
            if root in self.config.get('null', []):
                continue
            try:
                for r in e.resolve_modifies(m, ctx):
                    for leaf in r.all_leaves():
                        self.may_write.add(leaf.id)
            except (ClauseError, Unsupported) as ex:
                raise Unsupported('modifies clause %r: %s' % (m, ex))
        self.entry_info = info
        return f

    def make_pointee(self, name, spec, pointee_ct, tr, info):
        e = self.eng
        kind = parse_region_spec(spec)
        if kind[0] in ('arr', 'parr'):
            n = to_index(tr.as_tv(tr.expr(kind[2])))
            content = z3.Array(name, BV64, z3.BitVecSort(kind[1]))
            r = e.new_array_region(name, kind[1], n, content)
            r.ptr_elems = kind[0] == 'parr'
            if r.ptr_elems:
                e.assume(z3.ULE(n, bv(PTRDIFF_MAX // 8, 64)))
                return Ptr(r)
            e.assume(z3.ULE(n, bv(PTRDIFF_MAX // (kind[1] // 8), 64)))
            info['arrays'][name] = (content, n, kind[1])
            return Ptr(r)
        if kind[0] == 'struct':
            if pointee_ct.kind != 'struct':
                raise Unsupported('%s is not a pointer to struct' % name)
            r = e.new_struct_region(name, pointee_ct, 'undef')
            # scalar fields get named entry values
            for leaf in r.all_leaves():
                if leaf.kind == 'cell' and leaf.ct.kind == 'int':
                    v = z3.BitVec(leaf.name, leaf.ct.bits)
                    e.st.mem[leaf.id] = v
                    info['ints'][leaf.name] = (v, leaf.ct.signed)
                elif leaf.kind == 'arr':
                    content = z3.Array(leaf.name, BV64, z3.BitVecSort(leaf.bits))
                    e.st.mem[leaf.id] = content
                    info['arrays'][leaf.name] = (content, leaf.length, leaf.bits)
            return Ptr(r)
        if kind[0] == 'cell':
            r = e.new_typed_region(name, pointee_ct, 'undef')
            if r.kind != 'cell':
                raise Unsupported('cell spec for %s' % name)
            if pointee_ct.kind == 'int':
                v = z3.BitVec('*' + name, pointee_ct.bits)
                e.st.mem[r.id] = v
                info['ints']['*' + name] = (v, pointee_ct.signed)
            return Ptr(r)
        if kind[0] == 'null':
            return NULL
        raise Unsupported('region spec %r for parameter' % spec)

    def make_nested(self, path, spec, tr, info):
        e = self.eng
        base_path, _, fld = path.rpartition('.')
        base = tr.expr(base_path)
        if not isinstance(base, Ptr) or base.region is None or base.region.kind != 'struct':
            raise Unsupported('shape path %s' % path)
        cell = base.region.fields.get(fld)
        if cell is None or cell.kind != 'cell':
            raise Unsupported('shape path %s: no pointer field' % path)
        kind = parse_region_spec(spec)
        if kind[0] == 'fn':
            e.st.mem[cell.id] = FuncPtr(kind[1], abstract=True)
        elif kind[0] == 'alias':
            e.st.mem[cell.id] = tr.expr(kind[1])
        elif kind[0] == 'into':
            tgt = tr.expr(kind[1])
            if not isinstance(tgt, Ptr) or tgt.region is None:
                raise Unsupported('shape into: target')
            lit = self.config.get('offsets', {}).get(path)
            if lit is not None:
                off = tgt.off + bv(lit, 64)
                info['fixed'][path + '.off'] = lit
            else:
                off = z3.BitVec(path + '.off', 64)
                info['ints'][path + '.off'] = (off, False)
            e.st.mem[cell.id] = Ptr(tgt.region, off)
        elif kind[0] == 'null':
            e.st.mem[cell.id] = NULL
        else:
            if cell.ct.kind != 'ptr':
                raise Unsupported('shape path %s is not a pointer field' % path)
            e.st.mem[cell.id] = self.make_pointee(path, spec, cell.ct.to, tr, info)

    # -------------------------------------------------------------- exploration
    def explore(self):
        e = self.eng
        e.worklist = [[]]
        e.obligations = []
        e.ob_seen = set()
        npaths = 0
        while e.worklist:
            prefix = e.worklist.pop()
            e.decisions = list(prefix)
            e.dpos = 0
            npaths += 1
            e.path_no = npaths
            if npaths > MAX_PATHS:
                raise Unsupported('more than %d paths' % MAX_PATHS)
            f = self.build_entry()
            body = next(x for x in self.node['inner'] if x.get('kind') == 'CompoundStmt')
            try:
                try:
                    e.exec_stmt(body)
                    ret = None
                except ReturnEx as r:
                    ret = r.value
                self.at_return(f, ret)
            except PathEnd:
                pass
            except (BreakEx, ContinueEx, GotoEx):
                raise Unsupported('stray control flow')
        e.stats['paths'] = npaths

    def at_return(self, f, ret):
        e = self.eng
        c = self.contract
        self.returns += 1
        fct = self.tu.ctype(self.node['type'])
        rct = fct.ret if fct.kind == 'func' else None
        result = e.wrap_arg(ret, rct) if ret is not None else None
        ctx = e.clause_ctx(f, 'post', result=result)
        tr = Translator(ctx, self.reg.defs)
        if c.lemmas:
            lctx = e.clause_ctx(f, 'inv', result=result)
            ltr = Translator(lctx, self.reg.defs)
            for ln, ltext in c.lemmas.items():
                try:
                    g = ltr.clause(ltext)
                except ClauseError:
                    continue        # a local of the lemma is not in scope on this return path
                e.oblige('lemma', ln, g, ltext, self.node)
                e.assume(g)
        for en, etext in c.ensures.items():
            e.oblige('ensures', en, tr.clause(etext), etext, self.node)
        # frame: only the regions named in `modifies` (and objects created during the call) were written
        for rid in sorted(e.st.written):
            if rid <= self.entry_mark and rid not in self.may_write:
                r = Region.by_id.get(rid)
                if r is not None and r.stack:
                    continue
                e.oblige('frame', r.name if r is not None else str(rid), False,
                         'the function writes only what its contract lists under modifies (wrote %s)' % (r.name if r is not None else rid), self.node)
        e.oblige('frame', 'modifies', True, 'the function writes only what its contract lists under modifies', self.node)
        # leaks: every block allocated during the call is freed or handed over
        keep = set()
        for ex in c.escapes:
            try:
                v = tr.expr(ex)
            except ClauseError:
                continue
            self.reach(v, keep)
        for r in e.st.allocated:
            t = e.st.retyped.get(r.id, r)
            if r.id in e.st.dead or t.id in e.st.dead:
                continue
            if r.id in keep or t.id in keep:
                continue
            e.oblige('leak', r.name, False, 'block %s is freed (or handed to the caller) on every path' % r.name, self.node)
        for r in e.st.allocated:
            e.oblige('leak', r.name, True, 'block %s is freed (or handed to the caller) on every path' % r.name, self.node)

    def reach(self, v, keep):
        e = self.eng
        if not isinstance(v, Ptr) or v.region is None:
            return
        root = v.region.root
        if root.id in keep:
            return
        keep.add(root.id)
        for leaf in root.all_leaves():
            if leaf.kind == 'cell' and leaf.ct.kind == 'ptr':
                self.reach(e.st.mem.get(leaf.id), keep)


# ----------------------------------------------------------------------------------------------------- discharge
STRATEGIES = [s for s in os.environ.get('VERIF_CVC_STRATEGIES', 'simp,default,noematch').split(',') if s]
# share of the query budget given to each strategy, in order; `unsat` and `sat` from any of them are definite answers
SHARES = {'simp': 0.4, 'default': 0.3, 'noematch': 0.3}


def _solver(strategy):
    if strategy == 'simp':
        return z3.Then('simplify', 'smt').solver()
    s = z3.Solver()
    if strategy == 'noematch':
        s.set('smt.ematching', False)
    return s


_skn = [0]


def skolemise(g):
    """strip outer universals / implications of a goal without splitting conjunctions: returns (hypotheses, body)"""
    hyps = []
    while True:
        if z3.is_implies(g):
            hyps.append(g.arg(0))
            g = g.arg(1)
        elif z3.is_quantifier(g) and g.is_forall():
            consts = []
            for i in range(g.num_vars()):
                _skn[0] += 1
                consts.append(z3.Const('%s!sk%d' % (g.var_name(i), _skn[0]), g.var_sort(i)))
            g = z3.substitute_vars(g.body(), *reversed(consts))
        else:
            return hyps, g


def goal_pieces(ob):
    if not ob.cases:
        return split_goal(ob.goal)
    out = []
    # conjunctions ABOVE the quantifier are split as usual; below it the case analysis decides
    tops = [ob.goal]
    if z3.is_and(ob.goal):
        tops = list(ob.goal.children())
    for top in tops:
        hyps, body = skolemise(top)
        whole = z3.Implies(z3.And(*hyps), body) if hyps else body
        cs = case_split([whole], ob.cases)
        if len(cs) == 1:
            out += split_goal(top)
            continue
        out += split_goal(cs[0])      # var == term: ground, conjunct by conjunct
        out += cs[1:]                 # the other case + exhaustiveness: one query each (instantiations shared by the conjuncts)
    return out


def case_split(pieces, cases):
    """contract-directed case analysis on a skolemised bound variable: G(v) follows from G(T) and (v != T ==> G(v))"""
    if not cases:
        return pieces
    out = []
    for p in pieces:
        done = False
        for case in cases:
            var, term = case[0], case[1]
            other = case[2] if len(case) > 2 else None
            sk = None
            todo = [p]
            seen = set()
            while todo and sk is None:
                x = todo.pop()
                if x.get_id() in seen:
                    continue
                seen.add(x.get_id())
                if z3.is_const(x) and x.decl().kind() == z3.Z3_OP_UNINTERPRETED and x.decl().name().startswith(var + '!q') and '!sk' in x.decl().name():
                    sk = x
                elif z3.is_app(x):
                    todo.extend(x.children())
            if sk is not None and sk.sort() == term.sort():
                out.append(z3.substitute(p, (sk, term)))
                if other is None:
                    out.append(z3.Implies(sk != term, p))
                else:
                    # G(v) follows from G(T), (C(v) ==> G(v)) and the exhaustiveness  guard(v) ==> v == T or C(v)
                    cond = z3.substitute(other[1], (other[0], sk))
                    out.append(z3.Implies(cond, p))
                    hyps, _body = skolemise(p)
                    out.append(z3.Implies(z3.And(*hyps) if hyps else z3.BoolVal(True), z3.Or(sk == term, cond)))
                done = True
                break
        if not done:
            out.append(p)
    return out


def split_goal(g, limit=40):
    """valid(g) <=> every piece valid: conjunctions in positive positions are split through `Implies` and outer `ForAll`
    (whose variables become fresh constants).  Smaller queries are much steadier for the solver."""
    if z3.is_and(g):
        out = []
        for c in g.children():
            out += split_goal(c, limit)
        return out if len(out) <= limit else [g]
    if z3.is_implies(g):
        h, c = g.arg(0), g.arg(1)
        ps = split_goal(c, limit)
        return [z3.Implies(h, p) for p in ps]
    if z3.is_eq(g) and z3.is_bool(g.arg(0)):
        a, b = g.arg(0), g.arg(1)
        return split_goal(z3.Implies(a, b), limit) + split_goal(z3.Implies(b, a), limit)
    if z3.is_quantifier(g) and g.is_forall():
        consts = []
        for i in range(g.num_vars()):
            _skn[0] += 1
            consts.append(z3.Const('%s!sk%d' % (g.var_name(i), _skn[0]), g.var_sort(i)))
        body = z3.substitute_vars(g.body(), *reversed(consts))
        return split_goal(body, limit)       # outer universals of a goal are always skolemised
    return [g]


_sym_cache = {}
_array_syms = set()


def symbols(e):
    """names of the uninterpreted constants / functions of a term (cached per AST node)"""
    key = e.get_id()
    hit = _sym_cache.get(key)
    if hit is not None and hit[0].eq(e):
        return hit[1]
    out = set()
    todo = [e]
    seen = set()
    while todo:
        x = todo.pop()
        i = x.get_id()
        if i in seen:
            continue
        seen.add(i)
        if z3.is_quantifier(x):
            todo.append(x.body())
            continue
        if z3.is_app(x):
            d = x.decl()
            if d.kind() == z3.Z3_OP_UNINTERPRETED:
                out.add(d.name())
                if d.arity() == 0 and d.range().kind() == z3.Z3_ARRAY_SORT:
                    _array_syms.add(d.name())
            todo.extend(x.children())
    _sym_cache[key] = (e, out)
    return out


def cone(pc, goal, depth):
    """hypotheses within `depth` symbol-sharing steps of the goal.  Proving from a SUBSET of the hypotheses is sound;
    a `sat` answer on a subset is not a counter-model and is never reported."""
    want = set(symbols(goal))
    chosen = [False] * len(pc)
    ps = [symbols(p) for p in pc]
    for _ in range(depth):
        new = set()
        for i, s in enumerate(ps):
            if not chosen[i] and (s & want or not s):
                chosen[i] = True
                new |= s
        if not new - want:
            break
        want |= new
    return [p for p, c in zip(pc, chosen) if c]


_size_cache = {}


def term_size(e, cap=5000):
    """(number of distinct AST nodes up to cap, has quantifier or uninterpreted function application)"""
    key = e.get_id()
    hit = _size_cache.get(key)
    if hit is not None and hit[0].eq(e):
        return hit[1]
    n = 0
    heavy = False
    todo = [e]
    seen = set()
    while todo and n < cap:
        x = todo.pop()
        i = x.get_id()
        if i in seen:
            continue
        seen.add(i)
        n += 1
        if z3.is_quantifier(x):
            heavy = True
            todo.append(x.body())
        elif z3.is_app(x):
            if x.num_args() and x.decl().kind() == z3.Z3_OP_UNINTERPRETED:
                heavy = True
            todo.extend(x.children())
    _size_cache[key] = (e, (n, heavy))
    return n, heavy


_gen_n = [0]


def generalise(hyps, goal):
    """replace maximal "messy" (ite-containing) compound bit-vector subterms that occur in at least two of the formulas
    (hypotheses, goal) by fresh constants.  The generalised implication is at least as strong: if it is valid so is the
    original; a `sat` answer proves nothing and is discarded."""
    memo = {}

    def messy(t):
        i = t.get_id()
        if i in memo:
            return memo[i]
        r = False
        if z3.is_app_of(t, z3.Z3_OP_ITE):
            r = True
        elif z3.is_app(t):
            r = any(messy(c) for c in t.children())
        memo[i] = r
        return r

    skip = (z3.Z3_OP_ZERO_EXT, z3.Z3_OP_SIGN_EXT, z3.Z3_OP_CONCAT, z3.Z3_OP_ITE, z3.Z3_OP_SELECT, z3.Z3_OP_UNINTERPRETED, z3.Z3_OP_EXTRACT)

    def cands(f):
        out = {}
        todo = [f]
        seen = set()
        while todo:
            x = todo.pop()
            i = x.get_id()
            if i in seen or z3.is_quantifier(x) or not z3.is_app(x):
                continue
            seen.add(i)
            if z3.is_bv(x) and x.num_args() > 0 and not z3.is_bv_value(x) and x.decl().kind() not in skip and messy(x):
                out[i] = x
            todo.extend(x.children())
        return out

    forms = list(hyps) + [goal]
    count = {}
    terms = {}
    for f in forms:
        for i, x in cands(f).items():
            count[i] = count.get(i, 0) + 1
            terms[i] = x
    shared = {i for i, n in count.items() if n >= 2}
    if not shared:
        return None
    # maximal shared terms only
    chosen = {}
    for f in forms:
        todo = [f]
        seen = set()
        while todo:
            x = todo.pop()
            i = x.get_id()
            if i in seen or z3.is_quantifier(x) or not z3.is_app(x):
                continue
            seen.add(i)
            if i in shared:
                chosen[i] = x
                continue
            todo.extend(x.children())
    pairs = []
    for i, x in chosen.items():
        _gen_n[0] += 1
        pairs.append((x, z3.BitVec('gen!%d' % _gen_n[0], x.size())))
    return [z3.substitute(h, *pairs) for h in hyps], z3.substitute(goal, *pairs)


RLIMIT_PER_MS = 2000      # z3 resource units per nominal millisecond (~2.0-2.2 M units per cpu second on this machine)
WALL_FACTOR = 10          # the wall-clock limit is only a safety net: verdicts must not depend on the load of the machine


def _run(strat, pc, goal, ms, seed):
    """one solver call with a DETERMINISTIC budget: z3's resource limit (rlimit) instead of wall-clock time, so that a query
    that is discharged on an idle machine is discharged under load too (and vice versa)"""
    s = _solver(strat)
    ms = max(500, int(ms))
    s.set('rlimit', ms * RLIMIT_PER_MS)
    s.set('timeout', ms * WALL_FACTOR)
    if seed:
        s.set('random_seed', seed)
    s.add(*pc)
    s.add(z3.Not(goal))
    t0 = time.time()
    r = s.check()
    return r, time.time() - t0, s


def check(pc, goal, timeout_ms, prefer=None):
    """is /\\ pc => goal valid?  ('unsat'|'sat'|'unknown', seconds, model, reason)

    Hypothesis ladder first (proving from a SUBSET of the hypotheses is sound; `sat` on a subset is never reported):
      L1  the light hypotheses (small, quantifier-free, no uninterpreted function)
      L2  L1 + the heavier hypotheses that share a symbol with the goal
    then all hypotheses with the strategy portfolio."""
    seed = int(os.environ.get('VERIF_SEED', '0') or 0)
    zseed = seed if os.environ.get('VERIF_CVC_Z3_SEED') else 0     # z3's random_seed: default 0 (stable timings)
    total = 0.0
    sizes = [term_size(p) for p in pc]
    syms = [symbols(p) for p in pc]
    gs = symbols(goal)

    def select(max_size, allow_heavy, depth):
        want = set(gs)
        chosen = [False] * len(pc)
        for _ in range(depth):
            new = set()
            for i, p in enumerate(pc):
                if chosen[i]:
                    continue
                n, h = sizes[i]
                if n > max_size or (h and not allow_heavy):
                    continue
                if syms[i] & want or not syms[i]:
                    chosen[i] = True
                    new |= syms[i]
            if not new - want:
                break
            want |= new
        return [p for p, c in zip(pc, chosen) if c]

    tried = set()
    cap = min(5000, timeout_ms * 0.08)
    levels = (('L2', (80, False, 2)), ('L3', (200, False, 3)), ('L4', (1500, True, 2)))
    # a goal about array contents needs the quantified (heavy) hypotheses about those arrays: skip the light levels
    arrays = {d for d in gs if d in _array_syms}
    if arrays and any(h and (syms[i] & arrays) for i, (n, h) in enumerate(sizes)):
        levels = (('L3', (200, False, 3)), ('L4', (1500, True, 2)))
    for name, (mx, heavy, depth) in levels:
        sub = select(mx, heavy, depth)
        if len(sub) == len(pc) or len(sub) in tried:
            continue
        tried.add(len(sub))
        r, dt, s = _run('simp', sub, goal, cap, zseed)
        total += dt
        if r == z3.unsat:
            return 'unsat', total, None, '%s:%d/%d' % (name, len(sub), len(pc))
        t0 = time.time()
        gen = generalise(sub, goal)        # (walks every hypothesis: only after the plain attempt failed)
        total += time.time() - t0
        if gen is not None:
            r, dt, s = _run('simp', gen[0], gen[1], min(3000, cap), zseed)
            total += dt
            if r == z3.unsat:
                return 'unsat', total, None, '%s-generalised:%d/%d' % (name, len(sub), len(pc))
    # all hypotheses, strategy portfolio.  Which strategy wins differs from obligation to obligation by an order of magnitude
    # (MBQI for some contract-directed case analyses, E-matching for frame conditions, ...): the contract may name the one to
    # start with (`strategy={'<kind>.<name>': ...}`); VERIF_CVC_PARALLEL=1 races them in threads (own z3 context each).
    t0 = time.time()
    r, model, reason = portfolio(pc, goal, timeout_ms, zseed, prefer)
    total += time.time() - t0
    if r == 'unsat':
        return 'unsat', total, None, reason
    if r == 'sat':
        return 'sat', total, model, reason
    t0 = time.time()
    m = sample_refute(pc, goal, seed)
    total += time.time() - t0
    if m is not None:
        return 'sat', total, m, 'evaluation'
    return 'unknown', total, None, reason


def _solver_in(strategy, ctx):
    if strategy == 'simp':
        return z3.Then(z3.Tactic('simplify', ctx=ctx), z3.Tactic('smt', ctx=ctx), ctx=ctx).solver()
    s = z3.Solver(ctx=ctx)
    if strategy == 'noematch':
        s.set('smt.ematching', False)
    return s


def portfolio(pc, goal, timeout_ms, zseed, prefer=None):
    import threading
    if not os.environ.get('VERIF_CVC_PARALLEL') or len(STRATEGIES) < 2:
        # default: sequential, the strategies take turns with growing slices (iterative deepening: at most ~2x the best)
        order = list(STRATEGIES)
        if prefer in order:
            order.remove(prefer)
            order.insert(0, prefer)
        reasons = []
        if prefer in order:
            r, dt, s = _run(prefer, pc, goal, timeout_ms * 0.7, zseed)
            if r == z3.unsat:
                return 'unsat', None, prefer
            if r == z3.sat:
                return 'sat', s.model(), prefer
            order.remove(prefer)
        for frac in (0.05, 0.15, 0.45):
            reasons = []
            for strat in order:
                share = frac
                r, dt, s = _run(strat, pc, goal, timeout_ms * share, zseed)
                if r == z3.unsat:
                    return 'unsat', None, strat
                if r == z3.sat:
                    return 'sat', s.model(), strat
                reasons.append('%s:%s' % (strat, s.reason_unknown()))
        return 'unknown', None, ','.join(reasons)
    hyp = z3.And(*pc) if pc else z3.BoolVal(True)
    jobs = []
    for strat in STRATEGIES:
        ctx = z3.Context()
        s = _solver_in(strat, ctx)
        s.set('timeout', int(timeout_ms))
        if zseed:
            s.set('random_seed', zseed)
        s.add(hyp.translate(ctx))
        s.add(z3.Not(goal).translate(ctx))
        jobs.append([strat, ctx, s, None])
    done = threading.Event()

    def work(job):
        try:
            job[3] = str(job[2].check())
        except z3.Z3Exception:
            job[3] = 'unknown'
        if job[3] in ('unsat', 'sat'):
            done.set()

    threads = [threading.Thread(target=work, args=(j,), daemon=True) for j in jobs]
    for t in threads:
        t.start()
    deadline = time.time() + timeout_ms / 1000.0 + 5
    while time.time() < deadline and not done.is_set() and any(t.is_alive() for t in threads):
        done.wait(0.05)
    for j in jobs:
        if j[3] is None:
            try:
                j[1].interrupt()
            except Exception:      # noqa
                pass
    for t in threads:
        t.join(10)
    for j in jobs:
        if j[3] == 'unsat':
            return 'unsat', None, j[0]
    for j in jobs:
        if j[3] == 'sat':
            # the model lives in the worker's context: find it again in the main context with the strategy that found it
            r, dt, s = _run(j[0], pc, goal, timeout_ms, zseed)
            if r == z3.sat:
                return 'sat', s.model(), j[0]
            if r == z3.unsat:
                return 'unsat', None, j[0]
    return 'unknown', None, ','.join('%s:%s' % (j[0], j[3] or 'timeout') for j in jobs)


def sample_refute(pc, goal, seed, tries=6):
    import random
    # only for ground obligations (DESIGN.md 2.7): with quantified hypotheses the model search itself is the expensive part
    for f in list(pc) + [goal]:
        if term_size(f)[0] >= 5000:
            continue
        todo = [f]
        seen = set()
        while todo:
            x = todo.pop()
            if x.get_id() in seen:
                continue
            seen.add(x.get_id())
            if z3.is_quantifier(x):
                return None
            if z3.is_app(x):
                todo.extend(x.children())
    rnd = random.Random(1000 + seed)
    arrays = []
    seen = set()
    todo = list(pc) + [goal]
    visited = set()
    while todo:
        x = todo.pop()
        i = x.get_id()
        if i in visited:
            continue
        visited.add(i)
        if z3.is_quantifier(x):
            todo.append(x.body())
            continue
        if z3.is_app(x):
            d = x.decl()
            if d.kind() == z3.Z3_OP_UNINTERPRETED and d.arity() == 0 and d.range().kind() == z3.Z3_ARRAY_SORT and d.name() not in seen:
                seen.add(d.name())
                arrays.append(x)
            todo.extend(x.children())
    for t in range(tries):
        s = z3.Solver()
        s.set('timeout', 10000)
        s.set('random_seed', rnd.randrange(1 << 30))
        s.add(*pc)
        if t:
            # diversify: pin some elements of the input arrays to random values (kept only if consistent)
            extra = []
            for a in arrays:
                w = a.sort().range().size()
                for k in range(16):
                    extra.append(z3.Select(a, z3.BitVecVal(k, 64)) == z3.BitVecVal(rnd.randrange(1 << w), w))
            s.push()
            s.add(*extra)
            if s.check() != z3.sat:
                s.pop()
                if s.check() != z3.sat:
                    continue
        elif s.check() != z3.sat:
            continue
        try:
            m = s.model()
            val = m.eval(goal, model_completion=True)
        except z3.Z3Exception:
            continue
        if z3.is_false(z3.simplify(val)):
            return m
    return None


def small_model(pc, goal, info, model):
    """prefer a counter-model with short buffers (replayable, readable); any model is equally definite"""
    lens = [n for (_a, n, _b) in info['arrays'].values() if not z3.is_bv_value(n)]
    if not lens:
        return model
    for bound in (8, 24, 64, 1024):
        s = z3.Solver()
        s.set('timeout', 5000)
        s.add(*pc)
        s.add(z3.Not(goal))
        for n in lens:
            s.add(z3.ULE(n, bv(bound, 64)))
        if s.check() == z3.sat:
            return s.model()
    return model


def model_witness(model, info):
    """concrete entry inputs from a counter-model"""
    w = {'ints': dict(info.get('fixed', {})), 'arrays': {}}
    for name, (v, signed) in info['ints'].items():
        val = model.eval(v, model_completion=True)
        w['ints'][name] = val.as_signed_long() if signed else val.as_long()
    for name, (arr, n, bits) in info['arrays'].items():
        ln = model.eval(n, model_completion=True).as_long()
        ent = {'length': ln, 'bits': bits}
        if ln <= 4096:
            ent['data'] = [model.eval(z3.Select(arr, bv(i, 64)), model_completion=True).as_long() for i in range(ln)]
        w['arrays'][name] = ent
    return w


def verify_function(tu, reg, fname, prop='CVC', timeout_ms=None, kinds=None, replayer=None, only_configs=None, shard=None):
    """returns (function_entry, results) in the README_UNITS format"""
    timeout_ms = timeout_ms or QUERY_TIMEOUT_MS
    area = reg.area
    t0 = time.time()
    target = '%s:%s' % (area_file(reg), fname)
    fentry = {'target': target, 'engine': 'CVC', 'status': 'undecided', 'obligations': 0, 'seconds': 0.0}
    results = []

    def rid(kind, name):
        return '%s.%s.%s.%s.%s' % (prop, area, fname, kind, name)

    def und(detail, status='undecided'):
        fentry['seconds'] = round(time.time() - t0, 2)
        fentry['status'] = 'undecided' if status == 'undecided' else 'error'
        return fentry, [{'id': rid('engine', 'translate'), 'kind': 'engine', 'clause': 'function %s is inside the supported subset and its contract translates' % fname,
                         'status': status, 'backend': 'cvc', 'seconds': round(time.time() - t0, 2), 'detail': detail, 'witness': None, 'replayed': False}]

    if fname not in tu.funcs:
        return und('function %s not found in %s (renamed or removed)' % (fname, tu.path))
    if fname not in reg.contracts:
        return und('no contract for %s' % fname, 'error')
    try:
        fentry['source'] = tu.func_source(fname)
    except Exception:      # noqa
        pass
    c = reg.contracts[fname]
    obligations = []
    runs = []
    try:
        grow = {}        # inferred loop frames carry over to the next configuration (same code, same shapes)
        for cfg in c.configs:
            if only_configs is not None and cfg.get('name', 'default') not in only_configs:
                continue
            for attempt in range(8):
                run = FunctionRun(tu, reg, fname, cfg)
                run.eng.loop_extra_mod = grow
                try:
                    run.explore()
                    break
                except LoopFrameGrow as g:
                    grow.setdefault(g.key, set()).update(g.rids)
            else:
                raise Unsupported('loop frame inference did not converge')
            runs.append(run)
            obligations += run.eng.obligations
            if run.returns == 0:
                results.append({'id': rid('vacuity', 'return_reachable.' + run.eng.config), 'kind': 'vacuity',
                                'clause': 'some path of %s reaches a return' % fname, 'status': 'undecided', 'backend': 'cvc', 'seconds': 0,
                                'detail': 'no explored path reaches a return (loop exit infeasible under the invariant, or contradictory contract)',
                                'witness': None, 'replayed': False})
    except (Unsupported, ClauseError) as ex:
        return und('%s: %s' % (type(ex).__name__, ex))
    except FrontEndError as ex:
        return und('front end: %s' % ex)
    except RecursionError as ex:
        return und('recursion limit: %s' % ex)
    # vacuity guards: the precondition of every configuration is satisfiable; a false postcondition is refuted
    for run in runs:
        f_entry = run.eng.frames[0].entry if run.eng.frames else None
        pcs = f_entry.pc if f_entry is not None else []
        s = z3.Solver()
        s.set('timeout', timeout_ms)
        s.add(*pcs)
        r = s.check()
        if r != z3.sat:
            st = 'error' if r == z3.unsat else 'undecided'
            results.append({'id': rid('vacuity', 'requires_sat.' + run.eng.config), 'kind': 'vacuity', 'clause': 'precondition satisfiable',
                            'status': st, 'backend': 'z3', 'seconds': 0, 'detail': 'precondition check: %s' % r, 'witness': None, 'replayed': False})
    # group by (kind, name); a shard (i, n) discharges only its share of the groups (heavy functions are spread over units)
    import zlib
    groups = {}
    for ob in obligations:
        if kinds is not None and ob.kind not in kinds:
            continue
        if shard is not None and zlib.crc32(('%s.%s' % (ob.kind, ob.name)).encode()) % shard[1] != shard[0]:
            continue
        groups.setdefault((ob.kind, ob.name), []).append(ob)
    if shard is not None and shard[0] != 0:
        results = []
    if not groups and not results and (shard is None or shard[0] == 0):
        return und('no obligations generated for %s' % fname, 'error')
    worst_rank = {'discharged': 0, 'undecided': 1, 'violated': 2}
    all_ok = True
    for (kind, name), obs in groups.items():
        status = 'discharged'
        secs = 0.0
        detail = []
        witness = None
        wob = None
        n_inst = 0
        for ob in obs:
            n_inst += 1
            if z3.is_true(ob.goal):
                continue
            if status == 'violated':
                break             # one counter-model per obligation is enough
            if status == 'undecided' and secs > 2.5 * timeout_ms / 1000.0:
                detail.append('remaining instances not tried (budget of this obligation used up)')
                break
            r, dt, model, reason = 'unsat', 0.0, None, ''
            pieces = goal_pieces(ob)
            if len(pieces) > 4 and not ob.cases:
                # many conjuncts often share their quantifier instantiations: one quick attempt at the whole goal first
                whole_ok = False
                for strat in ('default', 'simp'):
                    r0, dt0, _s = _run(strat, ob.pc, ob.goal, min(6000, timeout_ms * 0.1), 0)
                    dt += dt0
                    if r0 == z3.unsat:
                        whole_ok = True
                        break
                if TRACE:
                    print('      [trace] %s.%s path %d: whole goal (%d conjuncts) %s %.2fs' % (kind, name, ob.path, len(pieces), 'unsat' if whole_ok else 'not decided', dt))
                if whole_ok:
                    secs += dt
                    continue
            for piece in pieces:
                r1, dt1, model1, reason1 = check(ob.pc, piece, timeout_ms, prefer=c.strategy.get('%s.%s' % (kind, name)))
                dt += dt1
                if TRACE:
                    print('      [trace] %s.%s path %d: %s %.2fs (%s) %s' % (kind, name, ob.path, r1, dt1, reason1, str(piece)[-120:].replace('\n', ' ')))
                if r1 == 'sat':
                    r, model, reason = r1, model1, reason1
                    try:
                        info = next(rn for rn in runs if rn.eng.config == ob.config).entry_info
                        model = small_model(ob.pc, piece, info, model1)
                    except Exception:      # noqa
                        pass
                    break
                if r1 == 'unknown':
                    r, reason = r1, reason1
            secs += dt
            if r == 'unsat':
                continue
            if r == 'sat':
                if worst_rank[status] < 2:
                    status = 'violated'
                    try:
                        info = next(rn for rn in runs if rn.eng.config == ob.config).entry_info
                        witness = model_witness(model, info)
                        witness['config'] = ob.config
                    except Exception as ex:      # noqa
                        witness = {'error': 'model extraction: %s' % ex}
                    wob = ob
                    detail.append('sat on path %d (config %s, line %s)' % (ob.path, ob.config, ob.line))
            else:
                if worst_rank[status] < 1:
                    status = 'undecided'
                detail.append('unknown on path %d (%s) after %.1fs' % (ob.path, reason, dt))
        res = {'id': rid(kind, name), 'kind': kind, 'clause': obs[0].clause, 'status': status, 'backend': 'z3', 'seconds': round(secs, 3),
               'detail': '; '.join(detail[:4]) or '%d instance(s) unsat' % n_inst, 'witness': witness, 'replayed': False,
               'instances': n_inst, 'line': obs[0].line, 'path': obs[0].path}
        if status == 'violated' and replayer is not None and c.replay:
            try:
                replayer(tu, reg, fname, res, wob)
            except Exception as ex:      # noqa   replay trouble never changes the verdict
                res['detail'] += ' | replay not possible: %s' % (str(ex)[:300])
        if status != 'discharged':
            all_ok = False
        results.append(res)
    fentry['obligations'] = len(results)
    fentry['instances'] = sum(r.get('instances', 0) for r in results)
    fentry['paths'] = sum(r.eng.stats['paths'] for r in runs)
    fentry['configs'] = [r.eng.config for r in runs]
    fentry['status'] = 'proved' if all_ok and all(r['status'] == 'discharged' for r in results) else 'not-proved'
    fentry['seconds'] = round(time.time() - t0, 2)
    fentry['callee_contracts_used'] = sorted(set().union(*[r.eng.contracts_used for r in runs])) if runs else []
    return fentry, results


def area_file(reg):
    return getattr(reg, 'file', 'src/%s.c' % reg.area)
