"""CVC algebraic mode (DESIGN.md 2.4 "Algebraic mode", C05/C06 formula level).

Symbolic execution of the typed clang JSON AST of the real EC sources with limb arrays abstracted to field
elements; obligations are polynomial identities discharged by exact normal forms in sympy.  See NOTES.md."""
