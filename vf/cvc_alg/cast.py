"""clang-14 typed JSON AST of one real translation unit, re-read on every run.

load_tu(path) runs `clang-14 -fsyntax-only -Xclang -ast-dump=json -I<src dir> -I/repo/src <build macros> path`
and indexes functions, records, typedefs, enums and file-scope variables.  Nothing is cached between runs."""
import hashlib
import json
import os
import struct
import subprocess
import sys
import tempfile

REPO_SRC = '/repo/src'
CLANG = 'clang-14'


class AstError(Exception):
    pass


_MACROS = None


def _probe(code, extra=()):
    """does this snippet compile? (same question compiler_opt.py asks through distutils)"""
    d = tempfile.mkdtemp(prefix='cvcalg_probe_')
    try:
        p = os.path.join(d, 't.c')
        with open(p, 'w') as f:
            f.write(code)
        r = subprocess.run([CLANG, '-fsyntax-only'] + list(extra) + [p], stdout=subprocess.DEVNULL, stderr=subprocess.DEVNULL)
        return r.returncode == 0
    finally:
        try:
            os.remove(os.path.join(d, 't.c'))
            os.rmdir(d)
        except OSError:
            pass


def build_macros():
    """the macro set /repo/compiler_opt.py:set_compiler_options computes for every extension (lines 331-372), evaluated for
    this machine.  SSE2/AESNI/CLMUL macros are per-module extras that the EC sources never test."""
    global _MACROS
    if _MACROS is not None:
        return list(_MACROS)
    m = []
    if _probe('#include <stdint.h>\nint main(void){uint32_t u=0; u=u; return 0;}\n'):
        m.append('-DHAVE_STDINT_H')
    m.append('-DPYCRYPTO_%s_ENDIAN' % sys.byteorder.upper())
    m.append('-DSYS_BITS=%d' % (8 * struct.calcsize('P')))
    m.append('-DLTC_NO_ASM')
    if _probe('int main(void){__uint128_t x; x=0; return (int)x;}\n'):
        m.append('-DHAVE_UINT128')
    if _probe('#include <cpuid.h>\nint main(void){unsigned a,b,c,d; __get_cpuid(1,&a,&b,&c,&d); return 0;}\n'):
        m.append('-DHAVE_CPUID_H')
    if _probe('#include <stdlib.h>\nint main(void){void*p; return posix_memalign(&p,16,101);}\n'):
        m.append('-DHAVE_POSIX_MEMALIGN')
    _MACROS = m
    return list(m)


# ---------------------------------------------------------------------------------------------- C types

INT_TYPES = {
    # name: (bits, signed)      LP64
    '_Bool': (8, False), 'char': (8, True), 'signed char': (8, True), 'unsigned char': (8, False),
    'short': (16, True), 'unsigned short': (16, False), 'int': (32, True), 'unsigned int': (32, False), 'unsigned': (32, False),
    'long': (64, True), 'unsigned long': (64, False), 'long long': (64, True), 'unsigned long long': (64, False),
    '__int128': (128, True), 'unsigned __int128': (128, False),
}


class CType:
    """kind: int|ptr|array|struct|void|func|enum ; to: pointee/element type ; n: array length ; rec: record id"""
    __slots__ = ('kind', 'bits', 'signed', 'to', 'n', 'rec', 'name')

    def __init__(self, kind, bits=0, signed=False, to=None, n=None, rec=None, name=''):
        self.kind, self.bits, self.signed, self.to, self.n, self.rec, self.name = kind, bits, signed, to, n, rec, name

    def __repr__(self):
        if self.kind == 'int':
            return '%s%d' % ('i' if self.signed else 'u', self.bits)
        if self.kind == 'ptr':
            return '%r*' % (self.to,)
        if self.kind == 'array':
            return '%r[%s]' % (self.to, self.n)
        if self.kind == 'struct':
            return 'struct %s' % self.name
        return self.kind


VOID = CType('void')


class TU:
    def __init__(self, path, root, sha):
        self.path = path
        self.root = root
        self.sha256_16 = sha
        self.functions = {}      # name -> FunctionDecl node with body
        self.protos = {}         # name -> FunctionDecl (any)
        self.records = {}        # id -> RecordDecl node (complete)
        self.record_by_name = {}
        self.typedefs = {}       # name -> TypedefDecl
        self.enum_consts = {}    # id -> int ; name -> int
        self.globals = {}        # id -> VarDecl
        self.decl_by_id = {}
        self.labels = {}         # LabelDecl id -> label name
        self._tcache = {}
        self._index()

    # ---- indexing
    def _index(self):
        state = {'file': None, 'line': None}

        def fix_loc(loc):
            if not isinstance(loc, dict):
                return
            if 'spellingLoc' in loc or 'expansionLoc' in loc:
                # macro location: clang prints spelling then expansion, both update the "last" trackers
                for k in ('spellingLoc', 'expansionLoc'):
                    if k in loc:
                        fix_loc(loc[k])
                e = loc.get('expansionLoc') or loc.get('spellingLoc')
                loc['_file'], loc['_line'] = e.get('_file'), e.get('_line')
                return
            if 'file' in loc:
                state['file'] = loc['file']
            if 'line' in loc:
                state['line'] = loc['line']
            if 'offset' in loc:
                loc['_file'], loc['_line'] = state['file'], state['line']

        def walk(n):
            for k, v in n.items():
                if k == 'loc':
                    fix_loc(v)
                elif k == 'range':
                    fix_loc(v.get('begin'))
                    fix_loc(v.get('end'))
                elif k == 'inner':
                    for c in v:
                        if isinstance(c, dict):
                            walk(c)
            if 'id' in n and 'kind' in n and n['kind'].endswith('Decl'):
                self.decl_by_id[n['id']] = n
            if n.get('kind') == 'LabelStmt' and 'declId' in n:
                self.labels[n['declId']] = n.get('name')

        walk(self.root)
        for n in self.root.get('inner', []):
            k = n.get('kind')
            if k == 'FunctionDecl':
                self.protos.setdefault(n['name'], n)
                if any(c.get('kind') == 'CompoundStmt' for c in n.get('inner', [])):
                    self.functions[n['name']] = n
            elif k == 'RecordDecl':
                self._index_record(n)
            elif k == 'TypedefDecl':
                self.typedefs[n['name']] = n
            elif k == 'EnumDecl':
                self._index_enum(n)
            elif k == 'VarDecl':
                self.globals[n['id']] = n

    def _index_record(self, n):
        if n.get('completeDefinition'):
            self.records[n['id']] = n
            if n.get('name'):
                self.record_by_name[n['name']] = n
            for c in n.get('inner', []):
                if c.get('kind') == 'RecordDecl':
                    self._index_record(c)
        # forward declarations point to the definition through previousDecl chains; resolved by name

    def _index_enum(self, n):
        nxt = 0
        for c in n.get('inner', []):
            if c.get('kind') != 'EnumConstantDecl':
                continue
            val = None
            for e in c.get('inner', []):
                val = _const_int(e)
            if val is None:
                val = nxt
            self.enum_consts[c['id']] = val
            self.enum_consts[c['name']] = val
            nxt = val + 1

    # ---- types
    def ctype(self, tnode):
        """tnode: the 'type' dict of an AST node"""
        q = tnode.get('desugaredQualType') or tnode.get('qualType')
        try:
            return self.parse_type(q)
        except AstError:
            return self.parse_type(tnode.get('qualType'))

    def parse_type(self, q):
        q = q.strip()
        if q in self._tcache:
            return self._tcache[q]
        t = self._parse_type(q)
        self._tcache[q] = t
        return t

    def _parse_type(self, q):
        # function types / function pointers
        if '(' in q and not q.startswith('struct (') and not q.startswith('union ('):
            return CType('func', name=q)
        # array suffix (outermost dimension first in C spelling: T[a][b] is array a of array b of T)
        if q.endswith(']'):
            i = q.index('[')
            dims = []
            rest = q[i:]
            while rest:
                j = rest.index(']')
                d = rest[1:j].strip()
                dims.append(int(d) if d else None)
                rest = rest[j + 1:].strip()
            t = self.parse_type(q[:i])
            for d in reversed(dims):
                t = CType('array', to=t, n=d)
            return t
        if q.endswith('*') or q.endswith('*const') or q.endswith('* const') or q.endswith('*restrict') or q.endswith('* restrict') \
                or q.endswith('*__restrict') or q.endswith('* __restrict'):
            i = q.rindex('*')
            return CType('ptr', to=self.parse_type(q[:i]))
        toks = [w for w in q.split() if w not in ('const', 'volatile', 'restrict', '__restrict')]
        base = ' '.join(toks)
        if base == 'void':
            return VOID
        if base in INT_TYPES:
            b, s = INT_TYPES[base]
            return CType('int', bits=b, signed=s, name=base)
        if base.startswith('enum '):
            return CType('int', bits=32, signed=False, name=base)
        if base.startswith('struct ') or base.startswith('union '):
            nm = base.split(' ', 1)[1]
            if nm in self.record_by_name:
                return CType('struct', rec=self.record_by_name[nm]['id'], name=nm)
            if nm in self.typedefs:          # clang spells anonymous typedef'd structs as "struct Workplace"
                return self._typedef_type(nm)
            return CType('struct', rec=None, name=nm)      # incomplete type: only ever behind a pointer
        if base in self.typedefs:
            return self._typedef_type(base)
        raise AstError('cannot parse C type %r' % q)

    def _typedef_type(self, name):
        td = self.typedefs[name]

        def find_rec(n):
            if n.get('kind') == 'RecordType' and 'decl' in n:
                return n['decl']['id']
            if n.get('kind') in ('ElaboratedType',):
                if 'ownedTagDecl' in n and n['ownedTagDecl'].get('kind') == 'RecordDecl':
                    return n['ownedTagDecl']['id']
                for c in n.get('inner', []):
                    r = find_rec(c)
                    if r:
                        return r
            return None

        for c in td.get('inner', []):
            r = find_rec(c)
            if r:
                if r in self.records:
                    return CType('struct', rec=r, name=name)
                # forward-declared: resolve by tag name
                d = self.decl_by_id.get(r, {})
                nm = d.get('name')
                if nm in self.record_by_name:
                    return CType('struct', rec=self.record_by_name[nm]['id'], name=name)
                return CType('struct', rec=None, name=name)
        t = td['type']
        q = t.get('qualType')
        if q == name or q == 'struct ' + name:
            q = t.get('desugaredQualType')
        return self.parse_type(q)

    def fields(self, rec_id):
        """[(name, CType, FieldDecl id)] in declaration order"""
        rec = self.records.get(rec_id)
        if rec is None:
            raise AstError('incomplete record type')
        out = []
        for c in rec.get('inner', []):
            if c.get('kind') == 'FieldDecl':
                out.append((c['name'], self.ctype(c['type']), c['id']))
        return out

    def sizeof(self, t):
        return self._layout(t)[0]

    def _layout(self, t):
        """(size, align) LP64 natural alignment"""
        if t.kind == 'int':
            return t.bits // 8, min(t.bits // 8, 16)
        if t.kind in ('ptr', 'func'):
            return 8, 8
        if t.kind == 'array':
            if t.n is None:
                raise AstError('sizeof of unsized array')
            s, a = self._layout(t.to)
            return s * t.n, a
        if t.kind == 'struct':
            rec = self.records.get(t.rec)
            if rec is None:
                raise AstError('sizeof of incomplete struct %s' % t.name)
            union = rec.get('tagUsed') == 'union'
            off, al = 0, 1
            for _, ft, _ in self.fields(t.rec):
                s, a = self._layout(ft)
                al = max(al, a)
                if union:
                    off = max(off, s)
                else:
                    off = (off + a - 1) // a * a + s
            return (off + al - 1) // al * al, al
        raise AstError('sizeof(%r)' % (t,))

    # ---- source info
    def source_info(self, fname):
        n = self.functions[fname]
        b = n['range']['begin'].get('_line')
        e = n['range']['end'].get('_line')
        f = n['range']['end'].get('_file') or self.path
        rel = f
        if rel.startswith('/repo/'):
            rel = 'repo/' + rel[len('/repo/'):]
        return {'file': rel, 'lines': [b, e], 'sha256_16': file_sha(f)}


def _const_int(e):
    k = e.get('kind')
    if k == 'IntegerLiteral':
        return int(e['value'])
    if k == 'ConstantExpr' and 'value' in e:
        return int(e['value'])
    for c in e.get('inner', []):
        v = _const_int(c)
        if v is not None:
            return v
    return None


def file_sha(path):
    try:
        with open(path, 'rb') as f:
            return hashlib.sha256(f.read()).hexdigest()[:16]
    except OSError:
        return None


def line_of(node):
    r = node.get('range')
    if r:
        b = r.get('begin') or {}
        if b.get('_line') is not None:
            return b['_line']
    return None


def load_tu(path, extra_includes=()):
    """parse the REAL file at `path` (default locations are /repo/src/...; a mutated copy in a temp dir works the same:
    its own directory is searched first for `#include "..."`, then /repo/src)."""
    path = os.path.abspath(path)
    if not os.path.exists(path):
        raise AstError('no such C file: %s' % path)
    cmd = [CLANG, '-fsyntax-only', '-Xclang', '-ast-dump=json', '-I' + os.path.dirname(path), '-I' + REPO_SRC]
    for inc in extra_includes:
        cmd.append('-I' + inc)
    cmd += build_macros() + [path]
    r = subprocess.run(cmd, stdout=subprocess.PIPE, stderr=subprocess.PIPE)
    if r.returncode != 0:
        raise AstError('clang failed on %s:\n%s' % (path, r.stderr.decode('utf8', 'replace')[-2000:]))
    root = json.loads(r.stdout)
    tu = TU(path, root, file_sha(path))
    tu.clang_cmd = ' '.join(cmd)
    return tu


def macro_value(name, header='errors.h', near=None):
    """integer value of an object-like macro (e.g. ERR_EC_POINT): macros are expanded before the AST exists, so clang itself is
    asked to evaluate it, with the same include path and macro set as the translation unit"""
    d = tempfile.mkdtemp(prefix='cvcalg_macro_')
    pth = os.path.join(d, 'm.c')
    try:
        with open(pth, 'w') as f:
            f.write('#include "%s"\nenum { cvcalg_probe_value = (%s) };\n' % (header, name))
        cmd = [CLANG, '-fsyntax-only', '-Xclang', '-ast-dump=json']
        if near:
            cmd.append('-I' + os.path.dirname(os.path.abspath(near)))
        cmd += ['-I' + REPO_SRC] + build_macros() + [pth]
        r = subprocess.run(cmd, stdout=subprocess.PIPE, stderr=subprocess.PIPE)
        if r.returncode != 0:
            raise AstError('cannot evaluate macro %s: %s' % (name, r.stderr.decode('utf8', 'replace')[-500:]))
        root = json.loads(r.stdout)

        def find(n):
            if n.get('kind') == 'EnumConstantDecl' and n.get('name') == 'cvcalg_probe_value':
                return _const_value(n)
            for c in n.get('inner', []):
                v = find(c)
                if v is not None:
                    return v
            return None

        v = find(root)
        if v is None:
            raise AstError('cannot evaluate macro %s' % name)
        return v
    finally:
        try:
            os.remove(pth)
            os.rmdir(d)
        except OSError:
            pass


def _const_value(n):
    for c in n.get('inner', []):
        if c.get('kind') == 'ConstantExpr' and 'value' in c:
            return int(c['value'])
        v = _const_value(c)
        if v is not None:
            return v
    return None
