"""Driver: one FnContract on one freshly parsed translation unit -> (function record, result dicts) in the format of
/verif/vf/README_UNITS.md.  Verdicts follow DESIGN.md 2.7:

  discharged   exact normal form is 0 / disequation implied / structural fact true on every path
  violated     ONLY with a non-zero exact normal form (or a concrete, definite structural failure); a concrete witness over
               the real prime is then searched and the installed library is asked (replayed True only if IT differs)
  undecided    construct outside the subset, implication not provable and no concrete counter-example, path limit
  error        engine crash, or a function that produced no obligation at all (vacuity guard)"""
import random
import time
import traceback

import sympy as sp

from . import poly
from .contract import ConstEq, Heap, Holds, NonZero, NotIdentZero, PathView, Zero
from .engine import Exec, Explorer, Unsupported
from .prims import build_prims

NSAMPLES = 24


def _mk(prop, fc, ob, cfg, status, backend, seconds, detail, path=None, witness=None, replayed=False, replay=None):
    cid = '%s.%s.%s.%s.%s' % (prop, fc.area, fc.function, ob.kind, ob.name)
    if cfg and len(fc.configs) > 1:
        cid += '[%s]' % cfg
    return {'id': cid, 'kind': ob.kind, 'clause': ob.clause, 'status': status, 'backend': backend, 'seconds': round(seconds, 3),
            'detail': detail, 'witness': witness, 'replayed': bool(replayed), 'replay': replay, 'path': path, 'target': '%s:%s' % (fc.file, fc.function)}


def explore(tu, fc, cfg, robustness):
    prims = build_prims(fc.family)
    used = set()

    def run(path):
        ex = Exec(tu, prims, path, fc.abstract_consts)
        ex.assume_no_fail = not robustness
        path.ex = ex
        try:
            H = Heap(ex, fc.family)
            env = fc.setup(H, cfg)
            path.env = env
            fn = tu.functions.get(fc.function)
            if fn is None:
                raise Unsupported('function %s has no body in %s' % (fc.function, tu.path))
            ex.frames.append(({}, '<contract>'))
            path.ret = ex.run_function(fn, env['args'])
        except Unsupported as u:
            path.error = str(u)
        used.update(ex.used_prims)

    paths = Explorer().run(run)
    return paths, used


def check_ob(fc, pv, ob, rng):
    """-> (status, backend, detail, witness, replayed, replay)"""
    if isinstance(ob, Holds):
        if ob.ok:
            return 'discharged', 'engine', ob.detail or 'holds on this path', None, False, None
        if ob.definite:
            # definite only with a concrete input that drives execution down this path (or when the path has no algebraic condition)
            wit = dict(ob.witness or {})
            if pv is not None and (pv.zero_facts() or pv.nonzero_facts()):
                m = find_model(fc, pv, rng)
                if m is None:
                    return 'undecided', 'engine', ob.detail + ' | no concrete input found that takes this path', None, False, None
                wit['concrete_input_on_this_path'] = m
            replayed, replay = False, None
            if ob.replay_fn is not None:
                try:
                    replayed, replay = ob.replay_fn()
                except Exception as ex:     # noqa  replay trouble never changes the verdict
                    replay = {'error': repr(ex)}
            return 'violated', 'engine', ob.detail, wit, replayed, replay
        return 'undecided', 'engine', ob.detail, None, False, None
    if isinstance(ob, ConstEq):
        got, want = ob.got, ob.want
        if got is None:
            return 'undecided', 'cpython', 'constant was not observed during execution', None, False, None
        ok = (got - want) % ob.mod == 0 if ob.mod else got == want
        if ok:
            return 'discharged', 'cpython', 'source constant %s == standard value%s' % (hex(got), ' (mod p)' if ob.mod else ''), None, False, None
        return 'violated', 'cpython', 'source constant %s != standard value %s' % (hex(got), hex(want % ob.mod if ob.mod else want)), \
            {'source_constant': hex(got), 'standard': hex(want % ob.mod if ob.mod else want)}, False, None
    if isinstance(ob, (Zero, NotIdentZero, NonZero)):
        # every obligation of a path is conditional on the facts that select the path
        ob.hyps = list(ob.hyps) + [f for f in pv.zero_facts() if f not in ob.hyps]
        if hasattr(ob, 'ne'):
            ob.ne = list(ob.ne) + [f for f in pv.nonzero_facts() if f not in ob.ne]
    if isinstance(ob, Zero):
        nf = poly.normal_form(ob.expr, ob.hyps, ob.gens)
        if nf.zero:
            return 'discharged', 'sympy', 'normal form 0 (%s)' % ('identity over Z' if nf.ring in ('Z', 'exact') else 'identity over Q'), None, False, None
        detail = 'non-zero normal form modulo the hypotheses: ' + poly.short(nf.residual)
        wit, replayed, replay = None, False, None
        found = False
        tried = 0
        for _ in range(NSAMPLES):
            s = fc.sample(rng)
            if s is None:
                break
            asg, p, meta = s
            try:
                if not _satisfies(asg, p, ob.hyps, ob.ne):
                    continue            # the random input is not on this path (e.g. path fact x2 == 0)
                tried += 1
                n, d = poly.eval_mod(ob.expr, asg, p)
            except KeyError as ke:
                detail += ' | witness search impossible: %s' % ke
                break
            if n != 0 and d != 0:
                found = True
                try:
                    wit, replay, replayed = fc.witness(pv, ob, asg, p, meta)
                except Exception as ex:     # noqa  witness explanation trouble never changes the verdict
                    wit = {'assignment': {k: hex(v) for k, v in asg.items()}, 'p': hex(p)}
                    detail += ' | witness explanation failed: %r' % ex
                wit = dict(wit or {})
                wit.setdefault('curve', (meta or {}).get('curve'))
                wit['obligation_value_mod_p'] = hex(n)
                break
        if not found:
            detail += ' | no witness among %d random valid inputs on this path' % tried
            if pv is not None and (pv.zero_facts() or pv.nonzero_facts()):
                # the hypotheses contain path facts: without a concrete input on this path the failure is not reported as definite
                return 'undecided', 'sympy', detail, None, False, None
        return 'violated', 'sympy', detail, wit, replayed, replay
    if isinstance(ob, NotIdentZero):
        nf = poly.normal_form(ob.expr, ob.hyps)
        if not nf.zero:
            return 'discharged', 'sympy', 'normal form is non-zero (%d terms): not identically zero on the curve' % len(sp.Add.make_args(nf.residual)), None, False, None
        return 'violated', 'sympy', 'normal form 0: the expression vanishes identically under the hypotheses (degenerate output)', \
            {'note': 'every valid input is a witness'}, False, None
    if isinstance(ob, NonZero):
        ok, why = poly.implies_nonzero(ob.expr, ob.hyps, ob.ne)
        if ok:
            return 'discharged', 'sympy', why, None, False, None
        nf = poly.normal_form(ob.expr, ob.hyps)
        if nf.zero:
            return 'violated', 'sympy', 'expression has normal form 0 under the hypotheses, so it is never non-zero', None, False, None
        return 'undecided', 'sympy', why, None, False, None
    raise TypeError(ob)


def _satisfies(asg, p, eqs, nes):
    for h in eqs:
        n, d = poly.eval_mod(h, asg, p)
        if n != 0:
            return False
    for h in nes:
        n, d = poly.eval_mod(h, asg, p)
        if n == 0:
            return False
    return True


def find_model(fc, pv, rng):
    """a concrete input (over the real prime) satisfying the algebraic facts that select this path"""
    for asg, p, meta in fc.candidates(rng):
        try:
            if _satisfies(asg, p, pv.zero_facts(), pv.nonzero_facts()):
                syms = set()
                for f in pv.zero_facts() + pv.nonzero_facts():
                    syms |= {s.name for s in f.free_symbols}
                return {'curve': (meta or {}).get('curve'), 'values': {k: hex(v) for k, v in asg.items() if k in syms}}
        except KeyError:
            continue
    return None


def verify_function(tu, fc, prop=None, seed=0, robustness=None):
    """returns (function_record, results, used_prims)"""
    prop = prop or fc.prop
    robustness = fc.explore_failures if robustness is None else robustness
    t0 = time.time()
    rng = random.Random('%d/%s' % (seed, fc.function))
    results = []
    used = set()
    npaths = 0
    unsupported = []
    hypsets = {}
    for cfg in fc.configs:
        tc = time.time()
        try:
            paths, u = explore(tu, fc, cfg, robustness)
        except Unsupported as ex:
            unsupported.append((cfg, str(ex)))
            continue
        used |= u
        bad = [p for p in paths if p.error]
        if bad:
            unsupported.append((cfg, '; '.join(sorted({p.error for p in bad}))))
            continue
        npaths += len(paths)
        merged = {}
        order = []
        for p in paths:
            pv = PathView(p.ex, p, cfg, p.env)
            pdesc = p.describe()
            try:
                obs = list(fc.ensures(pv))
            except Unsupported as ex:
                unsupported.append((cfg, 'contract cannot be evaluated on path [%s]: %s' % (pdesc, ex)))
                obs = []
                merged = None
                break
            for ob in obs:
                t1 = time.time()
                try:
                    st, be, det, wit, rp, rpl = check_ob(fc, pv, ob, rng)
                    if getattr(ob, 'hyps', None):
                        hypsets.setdefault(tuple(sorted(str(h) for h in ob.hyps)), list(ob.hyps))
                except Unsupported as ex:
                    st, be, det, wit, rp, rpl = 'undecided', 'engine', str(ex), None, False, None
                except Exception as ex:     # noqa
                    st, be, det, wit, rp, rpl = 'error', 'engine', '%r\n%s' % (ex, traceback.format_exc()[-1500:]), None, False, None
                r = _mk(prop, fc, ob, cfg, st, be, time.time() - t1, det, path='%s: %s' % (cfg, pdesc), witness=wit, replayed=rp, replay=rpl)
                if st == 'violated' and len(paths) > 1:
                    r['detail'] = 'on path [%s]: %s' % (pdesc, r['detail'])
                # several paths may yield the same named obligation: keep one result per (id), worst status wins
                key = r['id']
                if key not in merged:
                    merged[key] = r
                    order.append(key)
                    r['paths'] = 1
                else:
                    m = merged[key]
                    m['paths'] += 1
                    m['seconds'] = round(m['seconds'] + r['seconds'], 3)
                    rank = {'discharged': 0, 'undecided': 1, 'error': 2, 'violated': 3}
                    if rank[r['status']] > rank[m['status']]:
                        r['paths'] = m['paths']
                        r['seconds'] = m['seconds']
                        merged[key] = r
        if merged is not None:
            # obligations about the set of all paths of this configuration (e.g. "some input is accepted")
            try:
                pvs = [PathView(p.ex, p, cfg, p.env) for p in paths]
                for ob in fc.ensures_all(pvs):
                    st, be, det, wit, rp, rpl = check_ob(fc, None, ob, rng)
                    r = _mk(prop, fc, ob, cfg, st, be, 0, det, path='%s: all %d paths' % (cfg, len(paths)), witness=wit, replayed=rp, replay=rpl)
                    r['paths'] = 1
                    merged[r['id']] = r
                    order.append(r['id'])
            except Unsupported as ex:
                unsupported.append((cfg, 'contract cannot be evaluated on the path set: %s' % ex))
        if merged:
            for k in order:
                r = merged[k]
                if r['paths'] > 1:
                    r['path'] = '%s: %d paths' % (cfg, r['paths']) if r['status'] == 'discharged' else r['path']
                results.append(r)
    for cfg, why in unsupported:
        ob = Holds('supported[%s]' % cfg if len(fc.configs) > 1 else 'supported', 'the function body stays inside the supported subset of algebraic mode', False, why,
                   kind='engine', definite=False)
        results.append(_mk(prop, fc, ob, None, 'undecided', 'engine', 0, why, path=cfg))
    real = [r for r in results if r['kind'] != 'engine']
    if not real and not unsupported:
        ob = Holds('vacuity', 'the contract yields at least one obligation', False, 'zero obligations generated', kind='vacuity')
        results.append(_mk(prop, fc, ob, None, 'error', 'engine', 0, 'vacuity guard: function %s produced no obligation' % fc.function))
    # canary (DESIGN.md 2.7): under every hypothesis set that was used, the false goal `1 == 0` must NOT be discharged
    if real and hypsets:
        t1 = time.time()
        badh = [k for k, h in hypsets.items() if poly.normal_form(sp.Integer(1), h).zero]
        ob = Holds('canary', 'the false identity 1 == 0 is not discharged under any of the %d hypothesis sets used (the hypotheses do not generate the unit ideal)' % len(hypsets),
                   not badh, 'inconsistent hypothesis sets: %s' % badh[:2] if badh else '1 has a non-zero normal form under each hypothesis set', kind='vacuity')
        r = _mk(prop, fc, ob, None, 'discharged' if not badh else 'error', 'sympy', time.time() - t1, ob.detail)
        results.append(r)
    # vacuity guard on the hypotheses: a concrete valid input exists (so the identities are not discharged from inconsistent hypotheses)
    if real:
        s = fc.sample(rng)
        if s is not None:
            asg, p, meta = s
            ob = Holds('hypotheses_satisfiable', 'the contract hypotheses (points on the curve) have a concrete model over the real prime', True,
                       'model: %s on %s' % ({k: hex(v)[:18] + '..' for k, v in list(asg.items())[:4]}, (meta or {}).get('curve')), kind='vacuity')
            results.append(_mk(prop, fc, ob, None, 'discharged', 'cpython', 0, ob.detail))
    ok = bool(real) and all(r['status'] == 'discharged' for r in results)
    try:
        src = tu.source_info(fc.function)
    except Exception:       # noqa
        src = {'file': tu.path, 'lines': None, 'sha256_16': tu.sha256_16}
    if not tu.path.startswith('/repo/'):
        src['checked_copy'] = tu.path
    frec = {'target': 'src/%s:%s' % (fc.file, fc.function), 'engine': 'CVC-alg', 'status': 'proved' if ok else 'not-proved', 'source': src,
            'obligations': len(results), 'paths': npaths, 'configs': list(fc.configs), 'seconds': round(time.time() - t0, 2)}
    return frec, results, used
