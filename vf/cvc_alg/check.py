"""Driver: one FnContract on one freshly parsed translation unit -> (function record, result dicts) in the format of
/verif/vf/README_UNITS.md.  Verdicts follow DESIGN.md 2.7:

  discharged   exact normal form is 0 / disequation implied / structural fact true on every path
  violated     ONLY with a non-zero exact normal form (or a concrete, definite structural failure); a concrete witness over
               the real prime is then searched and the installed library is asked (replayed True only if IT differs)
  undecided    construct outside the subset, implication not provable and no concrete counter-example, path limit
  error        engine crash, or a function that produced no obligation at all (vacuity guard)"""
import os
import random
import time
import traceback

import sympy as sp

from . import poly
from .contract import ConstEq, Heap, Holds, NonZero, NotIdentZero, PathView, Zero
from .engine import Exec, Explorer, Unsupported
from .prims import build_prims

NSAMPLES = 24


def _mk(prop, fc, ob, cfg, status, backend, seconds, detail, path=None, witness=None, replayed=False, replay=None):
    cid = '%s.%s.%s.%s.%s' % (prop, fc.area, fc.function, ob.kind, ob.name)
    if cfg and len(fc.configs) > 1:
        cid += '[%s]' % cfg
    return {'id': cid, 'kind': ob.kind, 'clause': ob.clause, 'status': status, 'backend': backend, 'seconds': round(seconds, 3),
            'detail': detail, 'witness': witness, 'replayed': bool(replayed), 'replay': replay, 'path': path, 'target': '%s:%s' % (fc.file, fc.function)}


def explore(tu, fc, cfg, robustness):
    prims = build_prims(fc.family)
    used = set()

    def run(path):
        ex = Exec(tu, prims, path, fc.abstract_consts)
        ex.assume_no_fail = not robustness
        path.ex = ex
        try:
            H = Heap(ex, fc.family)
            env = fc.setup(H, cfg)
            path.env = env
            fn = tu.functions.get(fc.function)
            if fn is None:
                raise Unsupported('function %s has no body in %s' % (fc.function, tu.path))
            ex.frames.append(({}, '<contract>'))
            path.ret = ex.run_function(fn, env['args'])
        except Unsupported as u:
            path.error = str(u)
        used.update(ex.used_prims)

    paths = Explorer().run(run)
    return paths, used


def check_ob(fc, pv, ob, rng):
    """-> (status, backend, detail, witness, replayed, replay)"""
    if isinstance(ob, Holds):
        if ob.ok:
            return 'discharged', 'engine', ob.detail or 'holds on this path', None, False, None
        if ob.definite:
            return 'violated', 'engine', ob.detail, ob.witness, False, None
        return 'undecided', 'engine', ob.detail, None, False, None
    if isinstance(ob, ConstEq):
        got, want = ob.got, ob.want
        if got is None:
            return 'undecided', 'cpython', 'constant was not observed during execution', None, False, None
        ok = (got - want) % ob.mod == 0 if ob.mod else got == want
        if ok:
            return 'discharged', 'cpython', 'source constant %s == standard value%s' % (hex(got), ' (mod p)' if ob.mod else ''), None, False, None
        return 'violated', 'cpython', 'source constant %s != standard value %s' % (hex(got), hex(want % ob.mod if ob.mod else want)), \
            {'source_constant': hex(got), 'standard': hex(want % ob.mod if ob.mod else want)}, False, None
    if isinstance(ob, Zero):
        nf = poly.normal_form(ob.expr, ob.hyps, ob.gens)
        if nf.zero:
            return 'discharged', 'sympy', 'normal form 0 (%s)' % ('identity over Z' if nf.ring in ('Z', 'exact') else 'identity over Q'), None, False, None
        detail = 'non-zero normal form modulo the hypotheses: ' + poly.short(nf.residual)
        wit, replayed, replay = None, False, None
        found = False
        tried = 0
        for _ in range(NSAMPLES):
            s = fc.sample(rng)
            if s is None:
                break
            asg, p, meta = s
            tried += 1
            try:
                n, d = poly.eval_mod(ob.expr, asg, p)
            except KeyError as ke:
                detail += ' | witness search impossible: %s' % ke
                break
            if n != 0 and d != 0:
                found = True
                try:
                    wit, replay, replayed = fc.witness(pv, ob, asg, p, meta)
                except Exception as ex:     # noqa  witness explanation trouble never changes the verdict
                    wit = {'assignment': {k: hex(v) for k, v in asg.items()}, 'p': hex(p)}
                    detail += ' | witness explanation failed: %r' % ex
                wit = dict(wit or {})
                wit.setdefault('curve', (meta or {}).get('curve'))
                wit['obligation_value_mod_p'] = hex(n)
                break
        if not found and tried:
            detail += ' | no witness among %d random valid inputs (residual vanishes there)' % tried
            if ob.ne or any(True for _ in pv.zero_facts()):
                return 'undecided', 'sympy', detail, None, False, None
        return 'violated', 'sympy', detail, wit, replayed, replay
    if isinstance(ob, NotIdentZero):
        nf = poly.normal_form(ob.expr, ob.hyps)
        if not nf.zero:
            return 'discharged', 'sympy', 'normal form is non-zero (%d terms): not identically zero on the curve' % len(sp.Add.make_args(nf.residual)), None, False, None
        return 'violated', 'sympy', 'normal form 0: the expression vanishes identically under the hypotheses (degenerate output)', \
            {'note': 'every valid input is a witness'}, False, None
    if isinstance(ob, NonZero):
        ok, why = poly.implies_nonzero(ob.expr, ob.hyps, ob.ne)
        if ok:
            return 'discharged', 'sympy', why, None, False, None
        nf = poly.normal_form(ob.expr, ob.hyps)
        if nf.zero:
            return 'violated', 'sympy', 'expression has normal form 0 under the hypotheses, so it is never non-zero', None, False, None
        return 'undecided', 'sympy', why, None, False, None
    raise TypeError(ob)


def verify_function(tu, fc, prop=None, seed=0, robustness=None):
    """returns (function_record, results, used_prims)"""
    prop = prop or fc.prop
    robustness = fc.explore_failures if robustness is None else robustness
    t0 = time.time()
    rng = random.Random(seed * 1000003 + hash(fc.function) % 1000)
    rng = random.Random('%d/%s' % (seed, fc.function))
    results = []
    used = set()
    npaths = 0
    unsupported = []
    for cfg in fc.configs:
        tc = time.time()
        try:
            paths, u = explore(tu, fc, cfg, robustness)
        except Unsupported as ex:
            unsupported.append((cfg, str(ex)))
            continue
        used |= u
        bad = [p for p in paths if p.error]
        if bad:
            unsupported.append((cfg, '; '.join(sorted({p.error for p in bad}))))
            continue
        npaths += len(paths)
        merged = {}
        order = []
        for p in paths:
            pv = PathView(p.ex, p, cfg, p.env)
            pdesc = p.describe()
            try:
                obs = list(fc.ensures(pv))
            except Unsupported as ex:
                unsupported.append((cfg, 'contract cannot be evaluated on path [%s]: %s' % (pdesc, ex)))
                obs = []
                merged = None
                break
            for ob in obs:
                t1 = time.time()
                try:
                    st, be, det, wit, rp, rpl = check_ob(fc, pv, ob, rng)
                except Unsupported as ex:
                    st, be, det, wit, rp, rpl = 'undecided', 'engine', str(ex), None, False, None
                except Exception as ex:     # noqa
                    st, be, det, wit, rp, rpl = 'error', 'engine', '%r\n%s' % (ex, traceback.format_exc()[-1500:]), None, False, None
                r = _mk(prop, fc, ob, cfg, st, be, time.time() - t1, det, path='%s: %s' % (cfg, pdesc), witness=wit, replayed=rp, replay=rpl)
                if st == 'violated' and len(paths) > 1:
                    r['detail'] = 'on path [%s]: %s' % (pdesc, r['detail'])
                # several paths may yield the same named obligation: keep one result per (id), worst status wins
                key = r['id']
                if key not in merged:
                    merged[key] = r
                    order.append(key)
                    r['paths'] = 1
                else:
                    m = merged[key]
                    m['paths'] += 1
                    m['seconds'] = round(m['seconds'] + r['seconds'], 3)
                    rank = {'discharged': 0, 'undecided': 1, 'error': 2, 'violated': 3}
                    if rank[r['status']] > rank[m['status']]:
                        r['paths'] = m['paths']
                        r['seconds'] = m['seconds']
                        merged[key] = r
        if merged:
            for k in order:
                r = merged[k]
                if r['paths'] > 1:
                    r['path'] = '%s: %d paths' % (cfg, r['paths']) if r['status'] == 'discharged' else r['path']
                results.append(r)
    for cfg, why in unsupported:
        ob = Holds('supported[%s]' % cfg if len(fc.configs) > 1 else 'supported', 'the function body stays inside the supported subset of algebraic mode', False, why,
                   kind='engine', definite=False)
        results.append(_mk(prop, fc, ob, None, 'undecided', 'engine', 0, why, path=cfg))
    real = [r for r in results if r['kind'] != 'engine']
    if not real and not unsupported:
        ob = Holds('vacuity', 'the contract yields at least one obligation', False, 'zero obligations generated', kind='vacuity')
        results.append(_mk(prop, fc, ob, None, 'error', 'engine', 0, 'vacuity guard: function %s produced no obligation' % fc.function))
    # vacuity guard on the hypotheses: a concrete valid input exists (so the identities are not discharged from inconsistent hypotheses)
    if real:
        s = fc.sample(rng)
        if s is not None:
            asg, p, meta = s
            ob = Holds('hypotheses_satisfiable', 'the contract hypotheses (points on the curve) have a concrete model over the real prime', True,
                       'model: %s on %s' % ({k: hex(v)[:18] + '..' for k, v in list(asg.items())[:4]}, (meta or {}).get('curve')), kind='vacuity')
            results.append(_mk(prop, fc, ob, None, 'discharged', 'cpython', 0, ob.detail))
    ok = bool(real) and all(r['status'] == 'discharged' for r in results)
    try:
        src = tu.source_info(fc.function)
    except Exception:       # noqa
        src = {'file': tu.path, 'lines': None, 'sha256_16': tu.sha256_16}
    if not tu.path.startswith('/repo/'):
        src['checked_copy'] = tu.path
    frec = {'target': 'src/%s:%s' % (fc.file, fc.function), 'engine': 'CVC-alg', 'status': 'proved' if ok else 'not-proved', 'source': src,
            'obligations': len(results), 'paths': npaths, 'configs': list(fc.configs), 'seconds': round(time.time() - t0, 2)}
    return frec, results, used
