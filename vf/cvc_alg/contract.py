"""What a sidecar contract of algebraic mode is made of (the sidecars live in /verif/contracts/ec/*.py).

A FnContract names one function of one real C file, describes the abstract heap the function is entered with (per aliasing
configuration), and turns every explored path into obligations:

  Zero(name, clause, expr, hyps, ne)      expr == 0 must follow from hyps == 0 (exact normal form modulo GB(hyps))
  NonZero(name, clause, expr, hyps, ne)   expr != 0 must follow from hyps == 0, ne != 0  (Rabinowitsch / constant normal form)
  Holds(name, clause, ok, detail)         a fact decided by execution itself (return value, pointer written, path shape)
  ConstEq(name, clause, got, want, mod)   a constant read from the source equals the standard's value (mod p)
"""
import sympy as sp

from . import cast
from .engine import ArrV, FE, IntV, Junk, NULL, NonZeroV, PtrV, SymI, Unsupported


class Ob:
    kind = 'ensures'

    def __init__(self, name, clause, **kw):
        self.name, self.clause = name, clause
        self.__dict__.update(kw)


class Zero(Ob):
    def __init__(self, name, clause, expr, hyps=(), ne=(), kind='ensures', gens=None, inputs=None):
        # inputs: how the function's input symbols are instantiated in this obligation (for explaining a witness)
        Ob.__init__(self, name, clause, expr=expr, hyps=list(hyps), ne=list(ne), kind=kind, gens=gens, inputs=inputs)


class NotIdentZero(Ob):
    """expr is NOT identically zero modulo the hypotheses (non-degeneracy on a dense open set): discharged iff normal form != 0"""

    def __init__(self, name, clause, expr, hyps=(), kind='ensures'):
        Ob.__init__(self, name, clause, expr=expr, hyps=list(hyps), kind=kind)


class NonZero(Ob):
    def __init__(self, name, clause, expr, hyps=(), ne=(), kind='ensures'):
        Ob.__init__(self, name, clause, expr=expr, hyps=list(hyps), ne=list(ne), kind=kind)


class Holds(Ob):
    def __init__(self, name, clause, ok, detail='', witness=None, kind='ensures', definite=True, replay_fn=None):
        # replay_fn: () -> (replayed, replay record); called only if the clause fails
        Ob.__init__(self, name, clause, ok=bool(ok), detail=detail, witness=witness, kind=kind, definite=definite, replay_fn=replay_fn)


class ConstEq(Ob):
    def __init__(self, name, clause, got, want, mod=None, kind='constant'):
        Ob.__init__(self, name, clause, got=got, want=want, mod=mod, kind=kind)


class E:
    """value of an embedded limb array / pointed-to field element: a symbol name or a sympy expression"""

    def __init__(self, v, canon=True):
        self.e = sp.Symbol(v) if isinstance(v, str) else sp.sympify(v)
        self.canon = canon


class Raw:
    """arbitrary cell content (used by the limb-range typing, whose cells hold interval vectors)"""

    def __init__(self, v):
        self.v = v


class Heap:
    """builder the contract's setup() uses to describe the entry state"""

    def __init__(self, ex, family):
        self.ex = ex
        self.family = family
        self.null = NULL

    def _felem_type(self):
        if self.family == 'mont':
            return cast.CType('array', to=cast.CType('int', 64, False), n=None)
        return cast.CType('array', to=cast.CType('int', 32, False), n=10)

    def elem(self, sym, label=None):
        """pointer to a fresh field element object holding the symbol (or expression) `sym`"""
        e = E(sym)
        o = self.ex.new_obj(self._felem_type(), label or str(sym), kind='felem')
        o.size_sym = 'nbytes'
        self.ex.p.mem[(o.id, ())] = FE(e.e, self.family == 'mont')
        return PtrV(o.id)

    def cell(self, content, label):
        """pointer to a fresh limb array holding arbitrary content"""
        o = self.ex.new_obj(self._felem_type(), label, kind='felem')
        o.size_sym = 'nbytes'
        if content is not None:
            self.ex.p.mem[(o.id, ())] = content
        return PtrV(o.id)

    def temp(self, label):
        """pointer to a fresh, writable, UNINITIALISED field element (reading it before writing is `undecided`)"""
        o = self.ex.new_obj(self._felem_type(), label, kind='felem')
        o.size_sym = 'nbytes'
        return PtrV(o.id)

    def scratch(self, label='scratch'):
        o = self.ex.new_obj(self._felem_type(), label, kind='scratch')
        self.ex.p.mem[(o.id, ())] = Junk('scratchpad')
        return PtrV(o.id)

    def bytes(self, sym, label=None, n=None):
        """pointer to a byte string whose big-endian integer is the field value `sym`"""
        t = cast.CType('array', to=cast.CType('int', 8, False), n=n)
        o = self.ex.new_obj(t, label or ('bytes:' + str(sym)), kind='bytes')
        self.ex.p.mem[(o.id, ())] = FE(E(sym).e, False)
        return PtrV(o.id)

    def sym(self, name):
        return SymI(name)

    def int(self, v):
        return IntV(v)

    def var(self, ctype, label, init=None):
        """pointer to a fresh variable of the given C type (e.g. the `EcPoint *` an out-parameter points to)"""
        o = self.ex.new_obj(self.ex.tu.parse_type(ctype), label)
        if init is not None:
            self.ex.p.mem[(o.id, ())] = init
        return PtrV(o.id)

    def struct(self, typename, label, **fields):
        """pointer to a fresh struct; fields: PtrV | IntV | SymI | E (embedded array value, or value behind a fresh pointer)"""
        t = self.ex.tu.parse_type(typename)
        if t.kind != 'struct' or t.rec is None:
            raise Unsupported('contract names %s which is not a complete struct type in this translation unit' % typename)
        o = self.ex.new_obj(t, label)
        ftypes = {nm: ft for nm, ft, _ in self.ex.tu.fields(t.rec)}
        for nm, v in fields.items():
            if nm not in ftypes:
                raise Unsupported('contract sets field %s.%s which the real struct does not have' % (typename, nm))
            ft = ftypes[nm]
            if isinstance(v, Raw):
                if ft.kind == 'array':
                    self.ex.p.mem[(o.id, (nm,))] = v.v
                else:
                    self.ex.p.mem[(o.id, (nm,))] = self.cell(v.v, '%s.%s' % (label, nm))
            elif isinstance(v, E):
                if ft.kind == 'array':
                    self.ex.p.mem[(o.id, (nm,))] = FE(v.e, v.canon and self.family == 'mont')
                elif ft.kind == 'ptr':
                    self.ex.p.mem[(o.id, (nm,))] = self.elem(v.e, '%s.%s' % (label, nm))
                else:
                    raise Unsupported('field %s.%s is neither array nor pointer' % (typename, nm))
            elif v == 'temp':
                if ft.kind == 'ptr':
                    self.ex.p.mem[(o.id, (nm,))] = self.temp('%s.%s' % (label, nm))
                # embedded array left uninitialised
            elif v == 'scratch':
                self.ex.p.mem[(o.id, (nm,))] = self.scratch('%s.%s' % (label, nm))
            else:
                self.ex.p.mem[(o.id, (nm,))] = v
        return PtrV(o.id)


class PathView:
    """what ensures() sees of one finished path"""

    def __init__(self, ex, path, cfg, env):
        self.ex, self.path, self.cfg, self.env = ex, path, cfg, env
        self.ret = path.ret
        self.consts = path.consts

    def _subs(self, e):
        return sp.expand(e.subs(self.path.zero_syms)) if self.path.zero_syms else e

    def fe(self, p, *fields):
        """final field value behind pointer p (optionally p-><field>, following a pointer field)"""
        v = self.cell(p, *fields)
        if isinstance(v, FE):
            return self._subs(v.e)
        if isinstance(v, ArrV):
            from .prims import arr_value
            oid, path = self._loc(p, *fields)
            return sp.Integer(arr_value(self.ex, oid, path, v, 'contract read'))
        raise Unsupported('contract reads %s which holds no field element at exit (%r)' % (self._lab(p, fields), v))

    def _loc(self, p, *fields):
        if not isinstance(p, PtrV) or p.is_null():
            raise Unsupported('contract dereferences %r' % (p,))
        oid, path = p.obj, p.path
        for f in fields:
            path = path + (f,)
            t = self.ex.type_at(oid, path)
            if t is not None and t.kind == 'ptr':
                q = self.path.mem.get((oid, path))
                if not isinstance(q, PtrV) or q.is_null():
                    raise Unsupported('contract follows pointer %s which is %r' % (self.ex.label(oid, path), q))
                oid, path = q.obj, q.path
        return oid, path

    def _lab(self, p, fields):
        try:
            return self.ex.label(*self._loc(p, *fields))
        except Unsupported:
            return '%r.%s' % (p, '.'.join(fields))

    def cell(self, p, *fields):
        oid, path = self._loc(p, *fields)
        if self.path.objs[oid].freed:
            raise Unsupported('contract reads freed object %s' % self.path.objs[oid].label)
        return self.path.mem.get((oid, path))

    def scalar(self, p, *fields):
        """final value of a scalar/pointer cell: p points to a struct (fields given) or to a variable"""
        if not isinstance(p, PtrV) or p.is_null():
            raise Unsupported('contract dereferences %r' % (p,))
        oid, path = p.obj, p.path
        for i, f in enumerate(fields):
            path = path + (f,)
            if i < len(fields) - 1:
                q = self.path.mem.get((oid, path))
                if isinstance(q, PtrV) and not q.is_null():
                    oid, path = q.obj, q.path
        return self.path.mem.get((oid, path))

    def zero_facts(self):
        return self.path.zero_facts()

    def nonzero_facts(self):
        return self.path.nonzero_facts()

    def opaque(self):
        return self.path.opaque_facts()

    def failed(self):
        """names of the assumed callees / allocations that failed on this path"""
        return [k for k, v in self.opaque().items() if v and k.startswith('FAIL ')]

    def ret_is_zero(self):
        r = self.ret
        if isinstance(r, IntV):
            return r.val == 0
        if isinstance(r, NonZeroV):
            return False
        return None


class FnContract:
    area = ''
    file = ''
    function = ''
    family = 'mont'
    configs = ('only',)
    abstract_consts = {}
    explore_failures = False          # allocation / assumed-callee failure paths (robustness obligations)
    trusted = ()
    prop = 'C06'

    def setup(self, H, cfg):
        raise NotImplementedError

    def ensures(self, pv):
        raise NotImplementedError

    def ensures_all(self, pvs):
        """obligations about the whole set of explored paths of one configuration"""
        return ()

    def sample(self, rng):
        """random VALID input over the real field: (assignment {symbol name: int}, p, meta) or None"""
        return None

    def candidates(self, rng):
        """inputs tried when a concrete model of a path condition is needed; contracts add special values (off-curve, zero)"""
        for _ in range(12):
            s = self.sample(rng)
            if s is None:
                return
            yield s

    def witness(self, pv, ob, assignment, p, meta):
        """(witness json, replay json, replayed bool) for a violated obligation at the failing sample"""
        return ({'assignment': {k: hex(v) for k, v in assignment.items()}, 'p': hex(p)}, None, False)
