"""Path-forking symbolic executor over the clang JSON AST, algebraic value domain.

Value domain
  IntV      concrete C integer (wraps according to its C type)
  SymI      opaque integer (a length, ctx->bytes, ...); comparisons on it become opaque path atoms
  NonZeroV  opaque non-zero integer (an error code returned by a failing assumed callee)
  PredV     0/1 integer that is the truth value of a formula over atoms  IsZero(polynomial) / opaque
  PtrV      (object id | None, path)        abstract memory is keyed by (object, path); path = field names / indices
  FE        memory cell content: a whole limb array seen as ONE field element, value = sympy expression
  ArrV      memory cell content: array of concrete element values (static const limb tables, strings, calloc'd limbs)

Stores are executed in program order on that memory, so output/input aliasing is decided by ordinary store semantics
at the moment of each call.  Forking: an undecided atom takes the value True and the alternative (same prefix of decisions,
last one False) is queued; the function is re-executed from the start for each queued prefix (bodies are small)."""
import sympy as sp

from . import cast

MAX_PATHS = 400
# atoms IsZero(e) are kept up to a rational factor; that factor must not vanish modulo any prime the code is used with
CHECK_PRIMES = (2**192 - 2**64 - 1, 2**224 - 2**96 + 1, 2**256 - 2**224 + 2**192 + 2**96 - 1, 2**384 - 2**128 - 2**96 + 2**32 - 1,
                2**521 - 1, 2**255 - 19, 2**448 - 2**224 - 1)
MAX_STEPS = 200000


class Unsupported(Exception):
    """construct/behaviour outside the supported subset -> every obligation of the function is `undecided`"""


class IntV:
    __slots__ = ('val', 't', 'sizeof_type')

    def __init__(self, val, t=None, sizeof_type=None):
        self.val, self.t, self.sizeof_type = val, t, sizeof_type

    def __repr__(self):
        return 'IntV(%d)' % self.val


class SymI:
    __slots__ = ('name', 't')

    def __init__(self, name, t=None):
        self.name, self.t = name, t

    def __repr__(self):
        return 'SymI(%s)' % self.name


class NonZeroV:
    __slots__ = ('why',)

    def __init__(self, why):
        self.why = why

    def __repr__(self):
        return 'NonZeroV(%s)' % self.why


class PredV:
    """integer whose non-zero-ness is formula f; exact01: value is exactly 0 or 1"""
    __slots__ = ('f', 'exact01')

    def __init__(self, f, exact01=True):
        self.f, self.exact01 = f, exact01

    def __repr__(self):
        return 'PredV(%r)' % (self.f,)


class PtrV:
    __slots__ = ('obj', 'path')

    def __init__(self, obj, path=()):
        self.obj, self.path = obj, tuple(path)

    def is_null(self):
        return self.obj is None

    def __repr__(self):
        return 'PtrV(%s,%s)' % (self.obj, self.path)


NULL = PtrV(None)


class FuncV:
    __slots__ = ('name',)

    def __init__(self, name):
        self.name = name


class AggV:
    """struct rvalue: copied lazily at the assignment"""
    __slots__ = ('obj', 'path')

    def __init__(self, obj, path):
        self.obj, self.path = obj, tuple(path)


class FE:
    __slots__ = ('e', 'canon')

    def __init__(self, e, canon=False):
        self.e, self.canon = e, canon

    def __repr__(self):
        return 'FE(%s)' % (self.e,)


class ArrV:
    __slots__ = ('items',)

    def __init__(self, items):
        self.items = list(items)


class Junk:
    __slots__ = ('why',)

    def __init__(self, why):
        self.why = why


class Loc:
    __slots__ = ('obj', 'path')

    def __init__(self, obj, path=()):
        self.obj, self.path = obj, tuple(path)


class Obj:
    def __init__(self, oid, ctype, label, heap=False, kind='var'):
        self.id, self.ctype, self.label, self.heap, self.kind = oid, ctype, label, heap, kind
        self.freed = False
        self.const_sym = None       # contract abstracts this constant object to a symbol
        self.size_sym = None        # symbolic byte size (field elements: ctx->bytes)


class _Return(Exception):
    def __init__(self, v):
        self.v = v


class _Goto(Exception):
    def __init__(self, label):
        self.label = label


class _Break(Exception):
    pass


class _Continue(Exception):
    pass


# ----------------------------------------------------------------------------------------------- formulas
T = ('true',)
F = ('false',)


def f_not(a):
    if a == T:
        return F
    if a == F:
        return T
    if a[0] == 'not':
        return a[1]
    return ('not', a)


def f_and(a, b):
    if a == F or b == F:
        return F
    if a == T:
        return b
    if b == T:
        return a
    return ('and', a, b)


def f_or(a, b):
    if a == T or b == T:
        return T
    if a == F:
        return b
    if b == F:
        return a
    return ('or', a, b)


class Path:
    """one explored execution: decisions + final state (filled in by Explorer)"""

    def __init__(self, decisions):
        self.prefix = dict(decisions)         # atom key -> bool handed in by the explorer
        self.val = {}                         # atom key -> bool decided in THIS run
        self.order = []                       # [(key, bool)] in order of first use in this run
        self.atoms = {}                       # key -> ('Z', expr) | ('O', text)
        self.mem = {}
        self.objs = {}
        self.consts = {}                      # abstracted constant symbol -> concrete integer read from the source
        self.trace = []                       # (line, callee, text)
        self.ret = None
        self.zero_syms = {}                   # symbol -> 0 for facts IsZero(symbol) == True
        self.steps = 0
        self.allocs = []                      # heap object ids allocated during the run
        self.error = None

    # facts in a form the obligation checker understands
    def zero_facts(self):
        return [self.atoms[k][1] for k, v in self.order if v and self.atoms[k][0] == 'Z']

    def nonzero_facts(self):
        return [self.atoms[k][1] for k, v in self.order if (not v) and self.atoms[k][0] == 'Z']

    def opaque_facts(self):
        return {self.atoms[k][1]: v for k, v in self.order if self.atoms[k][0] == 'O'}

    def describe(self):
        out = []
        for k, v in self.order:
            kind, x = self.atoms[k]
            if kind == 'O' and x.startswith('FAIL ') and not v:
                continue            # "this allocation succeeded" is the normal case; only failures are named
            if kind == 'Z':
                out.append('%s %s 0' % (x, '==' if v else '!='))
            else:
                out.append('%s%s' % ('' if v else 'not ', x))
        return '; '.join(out) if out else 'straight-line'


class Explorer:
    """runs fn(path_state) for every feasible decision prefix"""

    def __init__(self, max_paths=MAX_PATHS):
        self.max_paths = max_paths

    def run(self, fn):
        work = [()]
        done = []
        while work:
            prefix = work.pop()
            p = Path(prefix)
            p._work = work
            fn(p)
            del p._work
            done.append(p)
            if len(done) + len(work) > self.max_paths:
                raise Unsupported('more than %d paths' % self.max_paths)
        return done


def canon_poly_key(e):
    """canonical (up to a non-zero rational factor) form of a rational expression's numerator; returns (key, expr)"""
    e = sp.together(sp.expand(e))
    num, den = sp.fraction(e)
    num = sp.expand(num)
    if num == 0:
        return '0', sp.Integer(0)
    syms = sorted(num.free_symbols, key=lambda s: s.name)
    if not syms:
        return '1', sp.Integer(1)
    P = sp.Poly(num, *syms)
    c, P = P.primitive()
    if P.LC() < 0:
        P = -P
    ex = P.as_expr()
    # the factor divided out (content / denominator) must be a unit in every field of interest
    cont = sp.Rational(c)
    for q in CHECK_PRIMES:
        if cont.p % q == 0 or cont.q % q == 0:
            raise Unsupported('predicate polynomial has content %s divisible by a curve prime' % cont)
    return sp.srepr(ex), ex


class Exec:
    """executes one function of one TU on one Path"""

    def __init__(self, tu, prims, path, abstract_consts=None):
        self.tu = tu
        self.prims = prims                # name -> callable(ex, args, node) ; the ASSUMED contracts
        self.p = path
        self.abstract_consts = abstract_consts or {}
        self.frames = []
        self.statics = {}
        self.strings = {}
        self.depth = 0
        self.used_prims = set()
        self.assume_no_fail = False

    # ---------------------------------------------------------------- objects and memory
    def new_obj(self, ctype, label, heap=False, kind='var'):
        oid = len(self.p.objs) + 1
        o = Obj(oid, ctype, label, heap, kind)
        self.p.objs[oid] = o
        if heap:
            self.p.allocs.append(oid)
        return o

    def obj(self, oid):
        o = self.p.objs[oid]
        if o.freed:
            raise Unsupported('use of freed object %s' % o.label)
        return o

    def type_at(self, oid, path):
        t = self.p.objs[oid].ctype
        for c in path:
            if t is None:
                return None
            if isinstance(c, int):
                if t.kind != 'array':
                    return None
                t = t.to
            else:
                if t.kind != 'struct':
                    return None
                for nm, ft, _ in self.tu.fields(t.rec):
                    if nm == c:
                        t = ft
                        break
                else:
                    raise Unsupported('no field %s in %s' % (c, t.name))
        return t

    def label(self, oid, path=()):
        if oid is None:
            return 'NULL'
        s = self.p.objs[oid].label
        for c in path:
            s += ('[%d]' % c) if isinstance(c, int) else ('.' + c)
        return s

    def load(self, loc):
        self.obj(loc.obj)
        key = (loc.obj, loc.path)
        mem = self.p.mem
        if key in mem:
            v = mem[key]
            if isinstance(v, (FE, ArrV, Junk)):
                t = self.type_at(loc.obj, loc.path)
                if isinstance(v, Junk):
                    raise Unsupported('read of clobbered memory %s (%s)' % (self.label(*key), v.why))
                return AggV(loc.obj, loc.path)
            return v
        if loc.path and isinstance(loc.path[-1], int):
            parent = mem.get((loc.obj, loc.path[:-1]))
            if isinstance(parent, ArrV):
                i = loc.path[-1]
                if not (0 <= i < len(parent.items)):
                    raise Unsupported('index %d outside %s' % (i, self.label(loc.obj, loc.path[:-1])))
                v = parent.items[i]
                if v is None:
                    raise Unsupported('read of uninitialised element %s' % self.label(*key))
                return v
            if isinstance(parent, FE):
                raise Unsupported('limb-level read of abstract field element %s' % self.label(loc.obj, loc.path[:-1]))
        t = self.type_at(loc.obj, loc.path)
        if t is not None and t.kind == 'struct':
            return AggV(loc.obj, loc.path)
        raise Unsupported('read of uninitialised memory %s' % self.label(*key))

    def store(self, loc, v):
        o = self.obj(loc.obj)
        mem = self.p.mem
        if isinstance(v, AggV):
            self.copy_agg(loc, Loc(v.obj, v.path))
            return
        if loc.path and isinstance(loc.path[-1], int):
            pk = (loc.obj, loc.path[:-1])
            parent = mem.get(pk)
            if isinstance(parent, ArrV):
                i = loc.path[-1]
                if not (0 <= i < len(parent.items)):
                    raise Unsupported('index %d outside %s' % (i, self.label(*pk)))
                items = list(parent.items)
                items[i] = v
                mem[pk] = ArrV(items)
                return
            if isinstance(parent, (FE, Junk)):
                raise Unsupported('limb-level write into abstract field element %s' % self.label(*pk))
            t = self.type_at(*pk)
            if t is not None and t.kind == 'array' and t.n is not None:
                items = [None] * t.n
                i = loc.path[-1]
                if not (0 <= i < t.n):
                    raise Unsupported('index %d outside %s' % (i, self.label(*pk)))
                items[i] = v
                mem[pk] = ArrV(items)
                return
            raise Unsupported('element write into %s of unknown shape' % self.label(*pk))
        self.kill_prefix(loc.obj, loc.path)
        mem[(loc.obj, loc.path)] = v

    def kill_prefix(self, oid, path):
        n = len(path)
        for k in [k for k in self.p.mem if k[0] == oid and k[1][:n] == path and len(k[1]) > n]:
            del self.p.mem[k]

    def copy_agg(self, dst, src):
        self.obj(src.obj)
        n = len(src.path)
        items = [(k, v) for k, v in self.p.mem.items() if k[0] == src.obj and k[1][:n] == src.path]
        self.kill_prefix(dst.obj, dst.path)
        self.p.mem.pop((dst.obj, dst.path), None)
        for k, v in items:
            self.p.mem[(dst.obj, dst.path + k[1][n:])] = v

    def zero_init(self, oid, path, t):
        if t.kind == 'int':
            self.p.mem[(oid, path)] = IntV(0, t)
        elif t.kind in ('ptr', 'func'):
            self.p.mem[(oid, path)] = NULL
        elif t.kind == 'array':
            if t.n is None:
                raise Unsupported('zero-initialisation of unsized array')
            if t.to.kind == 'int':
                self.p.mem[(oid, path)] = ArrV([IntV(0, t.to)] * t.n)
            else:
                for i in range(t.n):
                    self.zero_init(oid, path + (i,), t.to)
        elif t.kind == 'struct':
            for nm, ft, _ in self.tu.fields(t.rec):
                self.zero_init(oid, path + (nm,), ft)
        else:
            raise Unsupported('zero-initialisation of %r' % (t,))

    # ---------------------------------------------------------------- atoms and decisions
    def atom_zero(self, e):
        """formula for `e == 0` (e a sympy expression in the field)"""
        if self.p.zero_syms:
            e = e.subs(self.p.zero_syms)
        key, ex = canon_poly_key(e)
        if key == '0':
            return T
        if key == '1':
            return F
        key = 'Z:' + key
        self.p.atoms.setdefault(key, ('Z', ex))
        return ('atom', key)

    def atom_opaque(self, text):
        key = 'O:' + text
        self.p.atoms.setdefault(key, ('O', text))
        return ('atom', key)

    def decide_atom(self, key):
        p = self.p
        if key in p.val:
            return p.val[key]
        if key in p.prefix:
            v = p.prefix[key]
        elif self.assume_no_fail and p.atoms[key][0] == 'O' and p.atoms[key][1].startswith('FAIL '):
            v = False           # contract assumption: allocations and assumed constructors succeed (listed in `assumptions`)
        else:
            p._work.append(tuple(p.order) + ((key, False),))
            v = True
        p.val[key] = v
        p.order.append((key, v))
        kind, ex = p.atoms[key]
        if kind == 'Z' and v and isinstance(ex, sp.Symbol):
            p.zero_syms[ex] = 0
        return v

    def decide(self, f):
        k = f[0]
        if k == 'true':
            return True
        if k == 'false':
            return False
        if k == 'atom':
            return self.decide_atom(f[1])
        if k == 'not':
            return not self.decide(f[1])
        if k == 'and':
            return self.decide(f[1]) and self.decide(f[2])
        if k == 'or':
            return self.decide(f[1]) or self.decide(f[2])
        raise Unsupported('formula %r' % (f,))

    def formula(self, v, what='condition'):
        """non-zero-ness of a C value as a formula"""
        if isinstance(v, IntV):
            return T if v.val != 0 else F
        if isinstance(v, PtrV):
            return F if v.is_null() else T
        if isinstance(v, PredV):
            return v.f
        if isinstance(v, NonZeroV):
            return T
        if isinstance(v, SymI):
            return self.atom_opaque('%s != 0' % v.name)
        raise Unsupported('%s on value %r' % (what, v))

    def truth(self, v):
        return self.decide(self.formula(v))

    # ---------------------------------------------------------------- running
    def call(self, fname, args, node=None):
        self.p.steps += 1
        if self.p.steps > MAX_STEPS:
            raise Unsupported('step limit')
        if fname in self.prims:
            return self.prims[fname](self, args, node)
        fn = self.tu.functions.get(fname)
        if fn is None:
            raise Unsupported('call to %s: no body in this translation unit and no assumed contract' % fname)
        return self.run_function(fn, args)

    def run_function(self, fn, args):
        params = [c for c in fn.get('inner', []) if c.get('kind') == 'ParmVarDecl']
        body = [c for c in fn.get('inner', []) if c.get('kind') == 'CompoundStmt'][0]
        if len(params) != len(args):
            raise Unsupported('arity mismatch calling %s' % fn['name'])
        frame = {}
        self.depth += 1
        if self.depth > 12:
            raise Unsupported('call depth')
        for prm, a in zip(params, args):
            o = self.new_obj(self.tu.ctype(prm['type']), prm.get('name', '?'))
            frame[prm['id']] = o.id
            self.store(Loc(o.id), a)
        self.frames.append((frame, fn['name']))
        try:
            self.stmt(body)
            ret = None
        except _Return as r:
            ret = r.v
        except _Goto as g:
            raise Unsupported('goto %s: label not found ahead in the enclosing blocks' % g.label)
        finally:
            self.frames.pop()
            self.depth -= 1
        return ret

    # ---------------------------------------------------------------- statements
    def stmt(self, n):
        k = n.get('kind')
        self.p.steps += 1
        if self.p.steps > MAX_STEPS:
            raise Unsupported('step limit')
        if k == 'CompoundStmt':
            self.block(n.get('inner', []))
        elif k == 'DeclStmt':
            for d in n.get('inner', []):
                if d.get('kind') == 'VarDecl':
                    self.vardecl(d)
                elif d.get('kind') in ('RecordDecl', 'TypedefDecl', 'EnumDecl', 'StaticAssertDecl'):
                    pass
                else:
                    raise Unsupported('declaration kind %s' % d.get('kind'))
        elif k == 'IfStmt':
            inner = n['inner']
            c = self.rv(inner[0])
            if self.truth(c):
                self.stmt(inner[1])
            elif len(inner) > 2:
                self.stmt(inner[2])
        elif k == 'ReturnStmt':
            inner = n.get('inner', [])
            raise _Return(self.rv(inner[0]) if inner else None)
        elif k == 'GotoStmt':
            raise _Goto(self.tu.labels.get(n.get('targetLabelDeclId'), n.get('targetLabelDeclId')))
        elif k == 'LabelStmt':
            for c in n.get('inner', []):
                self.stmt(c)
        elif k == 'NullStmt':
            pass
        elif k == 'ForStmt':
            init, _cv, cond, inc, body = (n['inner'] + [{}] * 5)[:5]
            if init:
                self.stmt(init)
            self.loop(cond, inc, body, False)
        elif k == 'WhileStmt':
            self.loop(n['inner'][0], {}, n['inner'][1], False)
        elif k == 'DoStmt':
            self.loop(n['inner'][1], {}, n['inner'][0], True)
        elif k == 'BreakStmt':
            raise _Break()
        elif k == 'ContinueStmt':
            raise _Continue()
        elif k in ('SwitchStmt', 'CaseStmt', 'DefaultStmt', 'GCCAsmStmt'):
            raise Unsupported('%s (line %s)' % (k, cast.line_of(n)))
        else:
            self.rv(n, discard=True)

    def block(self, stmts):
        i = 0
        while i < len(stmts):
            try:
                self.stmt(stmts[i])
                i += 1
            except _Goto as g:
                # forward goto only: resume at a label that is a later statement of this block
                for j in range(i + 1, len(stmts)):
                    if stmts[j].get('kind') == 'LabelStmt' and stmts[j].get('name') == g.label:
                        i = j
                        break
                else:
                    raise

    def loop(self, cond, inc, body, body_first):
        n = 0
        first = True
        while True:
            if not (first and body_first):
                if cond:
                    c = self.rv(cond)
                    if not isinstance(c, (IntV, PtrV)):
                        raise Unsupported('loop whose condition is not concrete (line %s)' % cast.line_of(cond))
                    if not self.truth(c):
                        break
            first = False
            try:
                self.stmt(body)
            except _Break:
                break
            except _Continue:
                pass
            if inc:
                self.rv(inc, discard=True)
            n += 1
            if n > 4096:
                raise Unsupported('loop bound')

    def vardecl(self, d):
        t = self.tu.ctype(d['type'])
        static = d.get('storageClass') == 'static'
        if static and d['id'] in self.statics:
            self.frames[-1][0][d['id']] = self.statics[d['id']]
            return
        o = self.new_obj(t, d.get('name', '?'))
        if d.get('name') in self.abstract_consts and (static or 'const' in d['type'].get('qualType', '')):
            o.const_sym = self.abstract_consts[d['name']]
        self.frames[-1][0][d['id']] = o.id
        if static:
            self.statics[d['id']] = o.id
        init = None
        if 'init' in d:
            init = [c for c in d.get('inner', []) if c.get('kind') not in (None,) and not c.get('kind', '').endswith('Attr')]
            init = init[-1] if init else None
        if init is not None:
            self.init_obj(Loc(o.id), t, init)
        elif static:
            self.zero_init(o.id, (), t)

    def init_obj(self, loc, t, init):
        k = init.get('kind')
        if t.kind == 'array':
            if k == 'InitListExpr':
                # clang's JSON: a partially initialised array has no `inner`; `array_filler` = [filler, explicit elements...]
                elems = init['array_filler'][1:] if 'array_filler' in init else init.get('inner', [])
                if t.to.kind == 'int':
                    items = [self.conv_int(self.rv(e), t.to) for e in elems]
                    if t.n is None:
                        raise Unsupported('unsized array initialiser')
                    if len(items) < t.n:
                        items += [IntV(0, t.to)] * (t.n - len(items))
                    self.p.mem[(loc.obj, loc.path)] = ArrV(items)
                    return
                raise Unsupported('initialiser list for array of %r' % (t.to,))
            if k == 'StringLiteral':
                bs = _string_bytes(init)
                n = t.n if t.n is not None else len(bs) + 1
                items = [IntV(b, t.to) for b in bs] + [IntV(0, t.to)] * (n - len(bs))
                self.p.mem[(loc.obj, loc.path)] = ArrV(items[:n])
                return
            if k in ('ImplicitCastExpr', 'ParenExpr') and init.get('inner'):
                return self.init_obj(loc, t, init['inner'][0])
            raise Unsupported('array initialiser %s' % k)
        if t.kind == 'struct' and k == 'InitListExpr':
            raise Unsupported('struct initialiser list')
        self.store(loc, self.rv(init))

    # ---------------------------------------------------------------- expressions
    def lookup_var(self, did, name):
        for frame, _ in reversed(self.frames[-1:]):
            if did in frame:
                return frame[did]
        if did in self.statics:
            return self.statics[did]
        g = self.tu.globals.get(did)
        if g is not None:
            t = self.tu.ctype(g['type'])
            o = self.new_obj(t, g.get('name', '?'), kind='global')
            self.statics[did] = o.id
            init = [c for c in g.get('inner', []) if c.get('kind') and not c['kind'].endswith('Attr')] if 'init' in g else []
            if init:
                self.frames.append(({}, '<global init>'))
                try:
                    self.init_obj(Loc(o.id), t, init[-1])
                finally:
                    self.frames.pop()
            elif g.get('storageClass') != 'extern':
                self.zero_init(o.id, (), t)
            return o.id
        raise Unsupported('reference to unknown variable %s' % name)

    def lv(self, n):
        k = n.get('kind')
        if k == 'DeclRefExpr':
            rd = n['referencedDecl']
            if rd.get('kind') not in ('VarDecl', 'ParmVarDecl'):
                raise Unsupported('lvalue of %s' % rd.get('kind'))
            return Loc(self.lookup_var(rd['id'], rd.get('name')))
        if k == 'ParenExpr':
            return self.lv(n['inner'][0])
        if k == 'MemberExpr':
            base = n['inner'][0]
            if n.get('isArrow'):
                p = self.rv(base)
                if not isinstance(p, PtrV):
                    raise Unsupported('-> on %r' % (p,))
                if p.is_null():
                    raise Unsupported('NULL dereference at line %s' % cast.line_of(n))
                b = Loc(p.obj, p.path)
            else:
                b = self.lv(base)
            return Loc(b.obj, b.path + (n['name'],))
        if k == 'ArraySubscriptExpr':
            p = self.rv(n['inner'][0])
            i = self.rv(n['inner'][1])
            if isinstance(p, IntV) and isinstance(i, PtrV):
                p, i = i, p
            if not isinstance(p, PtrV) or p.is_null():
                raise Unsupported('subscript of %r' % (p,))
            if not isinstance(i, IntV):
                raise Unsupported('symbolic array index (line %s)' % cast.line_of(n))
            return self.index(p, i.val)
        if k == 'UnaryOperator' and n.get('opcode') == '*':
            p = self.rv(n['inner'][0])
            if not isinstance(p, PtrV):
                raise Unsupported('* on %r' % (p,))
            if p.is_null():
                raise Unsupported('NULL dereference at line %s' % cast.line_of(n))
            t = self.type_at(p.obj, p.path)
            if t is not None and t.kind == 'array':
                return Loc(p.obj, p.path + (0,))
            return Loc(p.obj, p.path)
        if k == 'StringLiteral':
            if n['id'] not in self.strings:
                bs = _string_bytes(n)
                ct = self.tu.ctype(n['type'])
                o = self.new_obj(ct, 'string@%s' % cast.line_of(n), kind='string')
                et = ct.to if ct.kind == 'array' else cast.CType('int', 8, True)
                self.p.mem[(o.id, ())] = ArrV([IntV(b, et) for b in bs] + [IntV(0, et)])
                self.strings[n['id']] = o.id
            return Loc(self.strings[n['id']])
        if k in ('ImplicitCastExpr', 'CStyleCastExpr') and n.get('castKind') == 'NoOp':
            return self.lv(n['inner'][0])
        raise Unsupported('lvalue %s (line %s)' % (k, cast.line_of(n)))

    def index(self, p, i):
        if p.path and isinstance(p.path[-1], int):
            return Loc(p.obj, p.path[:-1] + (p.path[-1] + i,))
        t = self.type_at(p.obj, p.path)
        if t is not None and t.kind == 'array':
            return Loc(p.obj, p.path + (i,))
        if i == 0:
            return Loc(p.obj, p.path)
        raise Unsupported('pointer arithmetic outside an array (%s)' % self.label(p.obj, p.path))

    def conv_int(self, v, t):
        if isinstance(v, IntV):
            if t is None or t.kind != 'int':
                return v
            x = v.val
            if t.signed:
                m = 1 << t.bits
                x &= m - 1
                if x >= m >> 1:
                    x -= m
            else:
                x &= (1 << t.bits) - 1
            return IntV(x, t, v.sizeof_type)
        if isinstance(v, (PredV, SymI)):
            return v
        if isinstance(v, NonZeroV):
            if t is not None and t.kind == 'int' and t.bits < 32:
                raise Unsupported('narrowing of an opaque error code')
            return v
        if isinstance(v, PtrV):
            raise Unsupported('pointer to integer conversion')
        raise Unsupported('integer conversion of %r' % (v,))

    def rv(self, n, discard=False):
        k = n.get('kind')
        if k == 'IntegerLiteral':
            return IntV(int(n['value']), self.tu.ctype(n['type']))
        if k == 'CharacterLiteral':
            return IntV(int(n['value']), self.tu.ctype(n['type']))
        if k in ('ParenExpr', 'ConstantExpr'):
            return self.rv(n['inner'][0], discard)
        if k in ('ImplicitCastExpr', 'CStyleCastExpr'):
            return self.cast(n, discard)
        if k == 'DeclRefExpr':
            rd = n['referencedDecl']
            if rd.get('kind') == 'EnumConstantDecl':
                return IntV(self.tu.enum_consts[rd['id']], self.tu.ctype(n['type']))
            if rd.get('kind') == 'FunctionDecl':
                return FuncV(rd['name'])
            return self.load(self.lv(n))
        if k in ('MemberExpr', 'ArraySubscriptExpr'):
            return self.load(self.lv(n))
        if k == 'UnaryOperator':
            return self.unary(n)
        if k == 'BinaryOperator':
            return self.binary(n)
        if k == 'CompoundAssignOperator':
            loc = self.lv(n['inner'][0])
            a = self.load(loc)
            b = self.rv(n['inner'][1])
            op = n['opcode'][:-1]
            ct = self.tu.ctype(n.get('computeResultType', n['type']))
            r = self.arith(op, self.conv_int(a, ct), self.conv_int(b, ct), ct, n)
            r = self.conv_int(r, self.tu.ctype(n['type']))
            self.store(loc, r)
            return r
        if k == 'CallExpr':
            callee = n['inner'][0]
            f = self.rv(callee)
            if not isinstance(f, FuncV):
                raise Unsupported('indirect call (line %s)' % cast.line_of(n))
            args = [self.rv(a) for a in n['inner'][1:]]
            return self.call(f.name, args, n)
        if k == 'UnaryExprOrTypeTraitExpr':
            if n.get('name') != 'sizeof':
                raise Unsupported(n.get('name'))
            if 'argType' in n:
                t = self.tu.ctype(n['argType'])
            else:
                t = self.tu.ctype(_strip_parens(n['inner'][0])['type'])
            return IntV(self.tu.sizeof(t), self.tu.ctype(n['type']), sizeof_type=t)
        if k == 'ConditionalOperator':
            c = self.rv(n['inner'][0])
            return self.rv(n['inner'][1] if self.truth(c) else n['inner'][2], discard)
        if k == 'StringLiteral':
            return self.load(self.lv(n))
        if k == 'ImplicitValueInitExpr':
            return IntV(0, self.tu.ctype(n['type']))
        raise Unsupported('expression %s (line %s)' % (k, cast.line_of(n)))

    def cast(self, n, discard=False):
        ck = n.get('castKind')
        sub = n['inner'][0]
        if ck == 'LValueToRValue':
            return self.load(self.lv(sub))
        if ck == 'ArrayToPointerDecay':
            loc = self.lv(sub)
            return PtrV(loc.obj, loc.path)
        if ck == 'FunctionToPointerDecay':
            return self.rv(sub)
        if ck in ('NoOp', 'BitCast'):
            return self.rv(sub)
        if ck == 'NullToPointer':
            return NULL
        if ck == 'IntegralCast':
            return self.conv_int(self.rv(sub), self.tu.ctype(n['type']))
        if ck in ('IntegralToBoolean', 'PointerToBoolean'):
            return PredV(self.formula(self.rv(sub)))
        if ck == 'ToVoid':
            self.rv(sub, True)
            return None
        raise Unsupported('cast kind %s (line %s)' % (ck, cast.line_of(n)))

    def unary(self, n):
        op = n['opcode']
        sub = n['inner'][0]
        if op == '&':
            loc = self.lv(sub)
            return PtrV(loc.obj, loc.path)
        if op == '*':
            return self.load(self.lv(n))
        if op in ('++', '--'):
            loc = self.lv(sub)
            v = self.load(loc)
            if isinstance(v, PtrV):
                if not (v.path and isinstance(v.path[-1], int)):
                    t = self.type_at(v.obj, v.path)
                    if t is None or t.kind != 'array':
                        raise Unsupported('pointer increment outside an array')
                    v = PtrV(v.obj, v.path + (0,))
                nv = PtrV(v.obj, v.path[:-1] + (v.path[-1] + (1 if op == '++' else -1),))
            elif isinstance(v, IntV):
                nv = self.conv_int(IntV(v.val + (1 if op == '++' else -1), v.t), self.tu.ctype(n['type']))
                if nv.t.signed and nv.val != v.val + (1 if op == '++' else -1):
                    raise Unsupported('signed overflow')
            else:
                raise Unsupported('%s on %r' % (op, v))
            self.store(loc, nv)
            return v if n.get('isPostfix') else nv
        v = self.rv(sub)
        t = self.tu.ctype(n['type'])
        if op == '!':
            return PredV(f_not(self.formula(v, '!')))
        if op == '+':
            return v
        if isinstance(v, IntV):
            if op == '-':
                r = -v.val
            elif op == '~':
                r = ~v.val
            else:
                raise Unsupported('unary %s' % op)
            if t.kind == 'int' and t.signed and not (-(1 << (t.bits - 1)) <= r < (1 << (t.bits - 1))):
                raise Unsupported('signed overflow')
            return self.conv_int(IntV(r), t)
        if isinstance(v, SymI):
            return SymI('(%s%s)' % (op, v.name), t)
        raise Unsupported('unary %s on %r' % (op, v))

    def binary(self, n):
        op = n['opcode']
        l, r = n['inner']
        if op == '=':
            loc = self.lv(l)
            v = self.rv(r)
            self.store(loc, v)
            return v
        if op == ',':
            self.rv(l, True)
            return self.rv(r)
        if op == '&&':
            a = self.rv(l)
            if not self.truth(a):
                return IntV(0, self.tu.ctype(n['type']))
            b = self.rv(r)
            return PredV(self.formula(b))
        if op == '||':
            a = self.rv(l)
            if self.truth(a):
                return IntV(1, self.tu.ctype(n['type']))
            b = self.rv(r)
            return PredV(self.formula(b))
        a = self.rv(l)
        b = self.rv(r)
        return self.arith(op, a, b, self.tu.ctype(n['type']), n)

    def arith(self, op, a, b, t, n):
        cmpop = op in ('==', '!=', '<', '>', '<=', '>=')
        # pointers
        if isinstance(a, PtrV) or isinstance(b, PtrV):
            if cmpop and isinstance(a, PtrV) and isinstance(b, PtrV) and op in ('==', '!='):
                same = (a.obj == b.obj and a.path == b.path)
                return IntV(int(same == (op == '==')), t)
            if op in ('+', '-') and isinstance(a, PtrV) and isinstance(b, IntV):
                loc = self.index(a, b.val if op == '+' else -b.val)
                return PtrV(loc.obj, loc.path)
            if op == '+' and isinstance(b, PtrV) and isinstance(a, IntV):
                loc = self.index(b, a.val)
                return PtrV(loc.obj, loc.path)
            raise Unsupported('pointer operation %s (line %s)' % (op, cast.line_of(n)))
        if isinstance(a, IntV) and isinstance(b, IntV):
            x, y = a.val, b.val
            if cmpop:
                r = {'==': x == y, '!=': x != y, '<': x < y, '>': x > y, '<=': x <= y, '>=': x >= y}[op]
                return IntV(int(r), t)
            if op == '+':
                r = x + y
            elif op == '-':
                r = x - y
            elif op == '*':
                r = x * y
            elif op in ('/', '%'):
                if y == 0:
                    raise Unsupported('division by zero')
                q = abs(x) // abs(y) * (1 if (x >= 0) == (y >= 0) else -1)
                r = q if op == '/' else x - q * y
            elif op in ('<<', '>>'):
                if y < 0 or (t.kind == 'int' and y >= t.bits):
                    raise Unsupported('shift amount out of range')
                r = x << y if op == '<<' else x >> y
            elif op == '&':
                r = x & y
            elif op == '|':
                r = x | y
            elif op == '^':
                r = x ^ y
            else:
                raise Unsupported('operator %s' % op)
            if t.kind == 'int' and t.signed and not (-(1 << (t.bits - 1)) <= r < (1 << (t.bits - 1))):
                raise Unsupported('signed overflow (line %s)' % cast.line_of(n))
            return self.conv_int(IntV(r), t)
        # predicates
        if isinstance(a, PredV) or isinstance(b, PredV):
            if op in ('&', '|') and isinstance(a, PredV) and isinstance(b, PredV) and a.exact01 and b.exact01:
                return PredV((f_and if op == '&' else f_or)(a.f, b.f))
            if op in ('==', '!='):
                for p, q in ((a, b), (b, a)):
                    if isinstance(p, PredV) and isinstance(q, IntV):
                        if q.val == 0:
                            return PredV(f_not(p.f) if op == '==' else p.f)
                        if q.val == 1 and p.exact01:
                            return PredV(p.f if op == '==' else f_not(p.f))
            if op in ('&', '|', '^') and (isinstance(a, IntV) or isinstance(b, IntV)):
                p, q = (a, b) if isinstance(a, PredV) else (b, a)
                if isinstance(q, IntV) and p.exact01:
                    if op == '&':
                        return PredV(p.f) if q.val & 1 else IntV(0, t)
                    if op == '|' and q.val == 0:
                        return p
                    if op == '^' and q.val == 0:
                        return p
                    if op == '^' and q.val == 1:
                        return PredV(f_not(p.f))
            raise Unsupported('operator %s on a predicate value (line %s)' % (op, cast.line_of(n)))
        if isinstance(a, NonZeroV) or isinstance(b, NonZeroV):
            if op in ('==', '!='):
                p, q = (a, b) if isinstance(a, NonZeroV) else (b, a)
                if isinstance(q, IntV) and q.val == 0:
                    return IntV(int(op == '!='), t)
            raise Unsupported('operator %s on an opaque error code (line %s)' % (op, cast.line_of(n)))
        # opaque integers
        if isinstance(a, (SymI, IntV)) and isinstance(b, (SymI, IntV)):
            sa = a.name if isinstance(a, SymI) else str(a.val)
            sb = b.name if isinstance(b, SymI) else str(b.val)
            if cmpop:
                # normalise so that the same test spelled both ways is one atom
                if op in ('==', '!='):
                    if sb < sa:
                        sa, sb = sb, sa
                    f = self.atom_opaque('%s == %s' % (sa, sb))
                    return PredV(f if op == '==' else f_not(f))
                if op == '>':
                    f = self.atom_opaque('%s < %s' % (sb, sa))
                elif op == '<':
                    f = self.atom_opaque('%s < %s' % (sa, sb))
                elif op == '>=':
                    f = f_not(self.atom_opaque('%s < %s' % (sa, sb)))
                else:
                    f = f_not(self.atom_opaque('%s < %s' % (sb, sa)))
                return PredV(f)
            return SymI('(%s %s %s)' % (sa, op, sb), t)
        raise Unsupported('operator %s on %r, %r (line %s)' % (op, a, b, cast.line_of(n)))


def _strip_parens(n):
    while n.get('kind') == 'ParenExpr':
        n = n['inner'][0]
    return n


def _string_bytes(n):
    """bytes of a StringLiteral node (clang prints the C source spelling, quotes included)"""
    s = n['value']
    if not (s.startswith('"') and s.endswith('"')):
        raise Unsupported('string literal spelling %r' % s[:20])
    s = s[1:-1]
    out = bytearray()
    i = 0
    while i < len(s):
        c = s[i]
        if c != '\\':
            out += c.encode('utf8')
            i += 1
            continue
        i += 1
        c = s[i]
        simple = {'n': 10, 't': 9, 'r': 13, '0': 0, '\\': 92, '"': 34, "'": 39, 'a': 7, 'b': 8, 'f': 12, 'v': 11}
        if c == 'x':
            j = i + 1
            while j < len(s) and s[j] in '0123456789abcdefABCDEF':
                j += 1
            out.append(int(s[i + 1:j], 16) & 0xff)
            i = j
        elif c in '01234567':
            j = i
            while j < len(s) and j < i + 3 and s[j] in '01234567':
                j += 1
            out.append(int(s[i:j], 8) & 0xff)
            i = j
        elif c in simple:
            out.append(simple[c])
            i += 1
        else:
            raise Unsupported('escape \\%s in string literal' % c)
    return bytes(out)
