"""Interval (and, for degenerate intervals, exact concrete) execution of the limb-level functions of mod25519.c over the clang
JSON AST: add32, add_25519, sub_25519, mul_25519, convert_le64_to_le25p5, ...   Used by the limb-range typing (ranges.py).

Every unsigned operation is checked against its C type: a result interval that does not fit is an EVENT (possible wrap-around or
lossy truncation).  With degenerate intervals the execution is the exact C semantics (wrap-around is then performed, and
recorded), which is what the counter-example search uses."""
from . import cast


class IvUnsupported(Exception):
    pass


class IV:
    __slots__ = ('lo', 'hi')

    def __init__(self, lo, hi=None):
        self.lo = lo
        self.hi = lo if hi is None else hi

    def exact(self):
        return self.lo == self.hi

    def __repr__(self):
        return '[%d]' % self.lo if self.lo == self.hi else '[%d..%d]' % (self.lo, self.hi)


class _Ret(Exception):
    def __init__(self, v):
        self.v = v


class Interp:
    def __init__(self, tu, hooks=None):
        self.tu = tu
        self.events = []            # (line, function, text)
        self.hooks = hooks or {}    # function name -> callable(interp, args) replacing the body (used for call-site checks)
        self.stack = []
        self.statics = {}
        self.steps = 0

    def event(self, node, text):
        self.events.append((cast.line_of(node), self.stack[-1] if self.stack else '?', text))

    # ------------------------------------------------------------------ calls
    def call(self, name, args):
        if name in self.hooks:
            return self.hooks[name](self, args)
        fn = self.tu.functions.get(name)
        if fn is None:
            raise IvUnsupported('no body for %s' % name)
        params = [c for c in fn.get('inner', []) if c.get('kind') == 'ParmVarDecl']
        body = [c for c in fn.get('inner', []) if c.get('kind') == 'CompoundStmt'][0]
        if len(params) != len(args):
            raise IvUnsupported('arity of %s' % name)
        frame = {p['id']: a for p, a in zip(params, args)}
        self.stack.append(name)
        self.frames = getattr(self, 'frames', [])
        self.frames.append(frame)
        try:
            self.stmt(body)
            r = None
        except _Ret as rr:
            r = rr.v
        finally:
            self.frames.pop()
            self.stack.pop()
        return r

    # ------------------------------------------------------------------ statements
    def stmt(self, n):
        self.steps += 1
        if self.steps > 2000000:
            raise IvUnsupported('step limit')
        k = n.get('kind')
        if k == 'CompoundStmt':
            for c in n.get('inner', []):
                self.stmt(c)
        elif k == 'DeclStmt':
            for d in n.get('inner', []):
                if d.get('kind') == 'VarDecl':
                    self.vardecl(d)
        elif k == 'ForStmt':
            init, _cv, cond, inc, body = (n['inner'] + [{}] * 5)[:5]
            if init:
                self.stmt(init)
            it = 0
            while True:
                if cond:
                    c = self.rv(cond)
                    if not c.exact():
                        raise IvUnsupported('loop condition not concrete (line %s)' % cast.line_of(cond))
                    if c.lo == 0:
                        break
                self.stmt(body)
                if inc:
                    self.rv(inc)
                it += 1
                if it > 100000:
                    raise IvUnsupported('loop bound')
        elif k == 'ReturnStmt':
            inner = n.get('inner', [])
            raise _Ret(self.rv(inner[0]) if inner else None)
        elif k == 'NullStmt':
            pass
        elif k == 'IfStmt':
            c = self.rv(n['inner'][0])
            if not c.exact():
                raise IvUnsupported('branch on a non-concrete value (line %s)' % cast.line_of(n))
            if c.lo:
                self.stmt(n['inner'][1])
            elif len(n['inner']) > 2:
                self.stmt(n['inner'][2])
        else:
            self.rv(n)

    def vardecl(self, d):
        t = self.tu.ctype(d['type'])
        static = d.get('storageClass') == 'static'
        if static and d['id'] in self.statics:
            self.frames[-1][d['id']] = self.statics[d['id']]
            return
        init = [c for c in d.get('inner', []) if c.get('kind') and not c['kind'].endswith('Attr')] if 'init' in d else []
        if t.kind == 'array':
            n = t.n
            vals = []
            if init:
                il = init[-1]
                if il.get('kind') != 'InitListExpr':
                    raise IvUnsupported('array initialiser')
                elems = il['array_filler'][1:] if 'array_filler' in il else il.get('inner', [])
                vals = [self.conv(self.rv(e), t.to, e) for e in elems]
                vals += [IV(0)] * (n - len(vals))
            else:
                vals = [None] * n
            v = vals
        else:
            v = self.conv(self.rv(init[-1]), t, d) if init else None
        self.frames[-1][d['id']] = v
        if static:
            self.statics[d['id']] = v

    # ------------------------------------------------------------------ expressions
    def lookup(self, n):
        rd = n['referencedDecl']
        for f in (self.frames[-1],):
            if rd['id'] in f:
                return f, rd['id']
        raise IvUnsupported('unknown variable %s' % rd.get('name'))

    def lv(self, n):
        k = n.get('kind')
        if k == 'ParenExpr':
            return self.lv(n['inner'][0])
        if k == 'DeclRefExpr':
            return self.lookup(n)
        if k == 'ArraySubscriptExpr':
            base = self.rv(n['inner'][0])
            idx = self.rv(n['inner'][1])
            if not isinstance(base, list) or not idx.exact():
                raise IvUnsupported('subscript (line %s)' % cast.line_of(n))
            if not (0 <= idx.lo < len(base)):
                raise IvUnsupported('index %d out of bounds (line %s)' % (idx.lo, cast.line_of(n)))
            return base, idx.lo
        raise IvUnsupported('lvalue %s' % k)

    def load(self, loc, n):
        c, key = loc
        v = c[key]
        if v is None:
            raise IvUnsupported('read of uninitialised value (line %s)' % cast.line_of(n))
        return v

    def fit(self, lo, hi, t, n, what):
        """clip/wrap a mathematically computed interval into C type t"""
        if t.kind != 'int':
            return IV(lo, hi)
        if t.signed:
            m = 1 << (t.bits - 1)
            if lo < -m or hi >= m:
                raise IvUnsupported('signed overflow (line %s)' % cast.line_of(n))
            return IV(lo, hi)
        M = 1 << t.bits
        if 0 <= lo and hi < M:
            return IV(lo, hi)
        if lo == hi:
            self.event(n, '%s wraps: %d does not fit in %d bits' % (what, lo, t.bits))
            return IV(lo % M)
        self.event(n, '%s may wrap: [%d..%d] does not fit in %d bits (max bit length %d)' % (what, lo, hi, t.bits, max(hi.bit_length(), 0)))
        return IV(0, M - 1)

    def conv(self, v, t, n):
        if isinstance(v, list) or v is None:
            return v
        return self.fit(v.lo, v.hi, t, n, 'conversion to %r' % (t,))

    def rv(self, n):
        k = n.get('kind')
        if k == 'IntegerLiteral':
            return IV(int(n['value']))
        if k in ('ParenExpr', 'ConstantExpr'):
            return self.rv(n['inner'][0])
        if k in ('ImplicitCastExpr', 'CStyleCastExpr'):
            ck = n.get('castKind')
            sub = n['inner'][0]
            if ck == 'LValueToRValue':
                return self.load(self.lv(sub), n)
            if ck == 'ArrayToPointerDecay':
                c, key = self.lv(sub)
                return c[key]
            if ck in ('NoOp', 'BitCast', 'FunctionToPointerDecay'):
                return self.rv(sub)
            if ck == 'IntegralCast':
                return self.conv(self.rv(sub), self.tu.ctype(n['type']), n)
            if ck == 'ToVoid':
                self.rv(sub)
                return None
            raise IvUnsupported('cast %s (line %s)' % (ck, cast.line_of(n)))
        if k == 'DeclRefExpr':
            rd = n['referencedDecl']
            if rd.get('kind') == 'FunctionDecl':
                return ('func', rd['name'])
            c, key = self.lookup(n)
            return c[key]
        if k == 'ArraySubscriptExpr':
            return self.load(self.lv(n), n)
        if k == 'BinaryOperator':
            op = n['opcode']
            l, r = n['inner']
            if op == '=':
                loc = self.lv(l)
                v = self.rv(r)
                loc[0][loc[1]] = v
                return v
            if op == ',':
                self.rv(l)
                return self.rv(r)
            return self.arith(op, self.rv(l), self.rv(r), self.tu.ctype(n['type']), n)
        if k == 'CompoundAssignOperator':
            loc = self.lv(n['inner'][0])
            a = self.load(loc, n)
            b = self.rv(n['inner'][1])
            ct = self.tu.ctype(n.get('computeResultType', n['type']))
            v = self.arith(n['opcode'][:-1], self.conv(a, ct, n), self.conv(b, ct, n), ct, n)
            v = self.conv(v, self.tu.ctype(n['type']), n)
            loc[0][loc[1]] = v
            return v
        if k == 'UnaryOperator':
            op = n['opcode']
            if op in ('++', '--'):
                loc = self.lv(n['inner'][0])
                a = self.load(loc, n)
                dlt = 1 if op == '++' else -1
                v = self.fit(a.lo + dlt, a.hi + dlt, self.tu.ctype(n['type']), n, op)
                loc[0][loc[1]] = v
                return a if n.get('isPostfix') else v
            raise IvUnsupported('unary %s (line %s)' % (op, cast.line_of(n)))
        if k == 'CallExpr':
            f = self.rv(n['inner'][0])
            if not (isinstance(f, tuple) and f[0] == 'func'):
                raise IvUnsupported('indirect call')
            args = [self.rv(a) for a in n['inner'][1:]]
            return self.call(f[1], args)
        if k == 'ConditionalOperator':
            # assert(...) expands to (cond) ? (void)0 : __assert_fail(...): assertions are not range obligations here
            return None
        raise IvUnsupported('expression %s (line %s)' % (k, cast.line_of(n)))

    def arith(self, op, a, b, t, n):
        if a is None or b is None or isinstance(a, list) or isinstance(b, list):
            raise IvUnsupported('operand of %s (line %s)' % (op, cast.line_of(n)))
        if op in ('<', '>', '<=', '>=', '==', '!='):
            if not (a.exact() and b.exact()):
                raise IvUnsupported('comparison of non-concrete values (line %s)' % cast.line_of(n))
            x, y = a.lo, b.lo
            return IV(int({'<': x < y, '>': x > y, '<=': x <= y, '>=': x >= y, '==': x == y, '!=': x != y}[op]))
        if op == '+':
            return self.fit(a.lo + b.lo, a.hi + b.hi, t, n, '+')
        if op == '-':
            return self.fit(a.lo - b.hi, a.hi - b.lo, t, n, '-')
        if op == '*':
            if a.lo < 0 or b.lo < 0:
                raise IvUnsupported('negative multiplication')
            return self.fit(a.lo * b.lo, a.hi * b.hi, t, n, '*')
        if op == '>>':
            if not b.exact() or b.lo >= t.bits:
                raise IvUnsupported('shift amount (line %s)' % cast.line_of(n))
            return IV(a.lo >> b.lo, a.hi >> b.lo)
        if op == '<<':
            if not b.exact() or b.lo >= t.bits:
                raise IvUnsupported('shift amount (line %s)' % cast.line_of(n))
            return self.fit(a.lo << b.lo, a.hi << b.lo, t, n, '<<')
        if op == '&':
            if a.exact() and b.exact():
                return IV(a.lo & b.lo)
            for x, m in ((a, b), (b, a)):
                if m.exact() and (m.lo & (m.lo + 1)) == 0:         # mask 2^k - 1
                    if x.hi <= m.lo:
                        return IV(x.lo, x.hi)
                    return IV(0, m.lo)
            return IV(0, min(a.hi, b.hi))
        if op == '|' or op == '^':
            if a.exact() and b.exact():
                return IV(a.lo | b.lo) if op == '|' else IV(a.lo ^ b.lo)
            bl = max(a.hi.bit_length(), b.hi.bit_length())
            return IV(max(a.lo, b.lo) if op == '|' else 0, (1 << bl) - 1)
        raise IvUnsupported('operator %s (line %s)' % (op, cast.line_of(n)))
