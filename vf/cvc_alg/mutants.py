"""Deliberate edits of the real C files, applied to COPIES in a temp directory (never to /repo), for the self-test.

Each mutant: (name, kind 'breaking'|'benign', C file, contract module, function under contract, anchor, old, new, nth, what).
`anchor` is a text that must occur before the edit (the function header), `old` is replaced by `new` at its nth occurrence after
the anchor; the edit must apply exactly (otherwise the self-test reports the mutant as stale, not as caught)."""
import os
import shutil


class Mutant:
    def __init__(self, name, kind, cfile, module, function, anchor, old, new, what, nth=1, expect=None, rename_in_function=None, also_copy=()):
        self.name, self.kind, self.cfile, self.module, self.function = name, kind, cfile, module, function
        self.also_copy = also_copy              # unmodified files that must sit next to the mutated one (#include "mod25519.c")
        self.anchor, self.old, self.new, self.what, self.nth = anchor, old, new, what, nth
        self.expect = expect                    # substring expected in at least one violated obligation id
        self.rename_in_function = rename_in_function

    def apply(self, src_dir, dst_dir):
        src = open(os.path.join(src_dir, self.cfile)).read()
        a = src.find(self.anchor)
        if a < 0:
            raise ValueError('mutant %s: anchor not found' % self.name)
        if self.rename_in_function:
            # rename an identifier inside the function body only (anchor .. matching closing brace at column 0)
            end = src.find('\n}\n', a)
            body = src[a:end]
            old, new = self.rename_in_function
            import re       # identifier-boundary rename in the self-test's own mutation tool (not part of the verifier)
            body2 = re.sub(r'\b%s\b' % re.escape(old), new, body)
            if body2 == body:
                raise ValueError('mutant %s: nothing renamed' % self.name)
            out = src[:a] + body2 + src[end:]
        else:
            pos = a
            for _ in range(self.nth):
                pos = src.find(self.old, pos + 1)
                if pos < 0:
                    raise ValueError('mutant %s: text to replace not found' % self.name)
            out = src[:pos] + self.new + src[pos + len(self.old):]
        path = os.path.join(dst_dir, self.cfile)
        with open(path, 'w') as f:
            f.write(out)
        for extra in self.also_copy:
            shutil.copy(os.path.join(src_dir, extra), os.path.join(dst_dir, extra))
        return path


MUTANTS = [
    # ------------------------------------------------------------------ breaking
    Mutant('ws_add_swap_sub', 'breaking', 'ec_ws.c', 'ec_ws', 'ec_full_add', 'STATIC void ec_full_add(',
           'mont_sub(t3, t3, t4, s, ctx);', 'mont_sub(t3, t4, t3, s, ctx);', 'swap the operands of a mont_sub (step 8 of RCB algorithm 4)', expect='ec_full_add'),
    Mutant('ws_dbl_add_to_sub', 'breaking', 'ec_ws.c', 'ec_ws', 'ec_full_double', 'STATIC void ec_full_double(',
           'mont_add(y3, x3, y3, s, ctx);', 'mont_sub(y3, x3, y3, s, ctx);', 'replace one mont_add by mont_sub (step 11 of RCB algorithm 6)', expect='ec_full_double'),
    Mutant('ws_mix_wrong_temp', 'breaking', 'ec_ws.c', 'ec_ws', 'ec_mix_add', 'STATIC void ec_mix_add(',
           'mont_mult(t1, t4, y3, s, ctx);', 'mont_mult(t1, t3, y3, s, ctx);', 'use the wrong temporary (t3 instead of t4, step 28 of RCB algorithm 5)', expect='ec_mix_add'),
    Mutant('ws_dbl_drop_doubling', 'breaking', 'ec_ws.c', 'ec_ws', 'ec_full_double', 'STATIC void ec_full_double(',
           'mont_add(z3, z3, z3, s, ctx);   /* 34 */', '/* dropped */', 'drop the final doubling of Z3 (step 34)', expect='ec_full_double'),
    Mutant('ws_add_alias_read_after_write', 'breaking', 'ec_ws.c', 'ec_ws', 'ec_full_add', 'STATIC void ec_full_add(',
           'memcpy(x1, x13, ctx->bytes);', 'x1 = (uint64_t*)x13;', 'alias bug: do not copy input x13 to a temporary, so it is read (step 14) after x3 was written (step 10) when out == P1',
           expect='[out=P1'),
    Mutant('ws_newpoint_drop_term', 'breaking', 'ec_ws.c', 'ec_ws', 'ec_ws_new_point', 'EXPORT_SYM int ec_ws_new_point(',
           'mont_sub(wp->c, wp->c, ecp->x, wp->scratch, ctx);\n        mont_sub(wp->c, wp->c, ecp->x, wp->scratch, ctx);\n        mont_sub(wp->c, wp->c, ecp->x, wp->scratch, ctx);',
           'mont_sub(wp->c, wp->c, ecp->x, wp->scratch, ctx);\n        mont_sub(wp->c, wp->c, ecp->x, wp->scratch, ctx);',
           'on-curve test computes x^3 - 2x + b', expect='curve_test_polynomial'),
    Mutant('ed25519_add_swap_sub', 'breaking', 'ed25519.c', 'ed25519', 'ed25519_add_internal', 'STATIC void ed25519_add_internal(',
           'sub_25519(P3->T, B, A);', 'sub_25519(P3->T, A, B);', 'swap the operands of a sub_25519 (E = A-B instead of B-A)', expect='ed25519_add_internal'),
    Mutant('ed25519_dbl_drop_doubling', 'breaking', 'ed25519.c', 'ed25519', 'ed25519_double_internal', 'STATIC void ed25519_double_internal(',
           'add_25519(C, C, C);', '/* dropped */', 'drop the doubling C = 2*Z1^2', expect='ed25519_double_internal'),
    Mutant('ed25519_add_alias_order', 'breaking', 'ed25519.c', 'ed25519', 'ed25519_add_internal', 'STATIC void ed25519_add_internal(',
           'mul_25519(C, P1->T, P2->T);         /* T1*T2        < 2²⁶ */',
           'sub_25519(P3->T, B, A); mul_25519(C, P1->T, P2->T);',
           'alias bug: E is stored into P3->T before P1->T is read; harmless when P3 is a separate point, wrong when P3 == P1 or P3 == P2', expect='[P3=P'),
    Mutant('ed25519_k_constant', 'breaking', 'ed25519.c', 'ed25519', 'ed25519_add_internal', 'STATIC void ed25519_add_internal(',
           '0x2B2F159', '0x2B2F158', 'change the lowest limb of the constant k = 2d', expect='k_is_2d'),
    Mutant('ed25519_newpoint_d_digit', 'breaking', 'ed25519.c', 'ed25519', 'ed25519_new_point', 'EXPORT_SYM int ed25519_new_point(',
           '52036cee2b6ffe73', '52036cee2b6ffe72', 'change one hex digit of the constant d of the on-curve test', expect='d_is_rfc8032'),
    Mutant('ed448_add_swap_sub', 'breaking', 'ed448.c', 'ed448', 'ed448_add_internal', 'STATIC void ed448_add_internal(',
           'mont_sub(y3, t3, t2,  s, ctx);', 'mont_sub(y3, t2, t3,  s, ctx);', 'swap the operands of a mont_sub (D-C becomes C-D)', expect='ed448_add_internal'),
    Mutant('ed448_dbl_wrong_temp', 'breaking', 'ed448.c', 'ed448', 'ed448_double_internal', 'STATIC void ed448_double_internal(',
           'mont_mult(z3, t3, t5, s, ctx);', 'mont_mult(z3, t0, t5, s, ctx);', 'use the wrong temporary (B instead of E) for Z3', expect='ed448_double_internal'),
    Mutant('ed448_context_d_byte', 'breaking', 'ed448.c', 'ed448', 'ed448_new_context', 'const uint8_t d448_be[56]',
           '0x67, 0x56};', '0x67, 0x57};', 'change the last byte of the constant d', expect='ed448_new_context'),
    Mutant('x25519_a24_constant', 'breaking', 'curve25519.c', 'curve25519', 'curve25519_ladder_step', 'STATIC void curve25519_ladder_step(',
           '0x1db42', '0x1db41', 'change the constant 121666 to 121665 (the RFC\'s a24, which is wrong for the BB form used by the code)', expect='a24_value'),
    Mutant('x25519_add_to_sub', 'breaking', 'curve25519.c', 'curve25519', 'curve25519_ladder_step', 'STATIC void curve25519_ladder_step(',
           'add32(x3, z3, z2);', 'sub_25519(x3, z3, z2);', 'replace DA+CB by DA-CB in xADD', expect='xADD'),
    Mutant('x448_wrong_temp', 'breaking', 'curve448.c', 'curve448', 'curve448_ladder_step', 'STATIC void curve448_ladder_step(',
           'mont_add(z2, t0, z2, scratch, ctx);', 'mont_add(z2, t1, z2, scratch, ctx);', 'use AA instead of BB together with a24 = (A+2)/4 in xDBL', expect='xDBL'),
    Mutant('x448_a24_constant', 'breaking', 'curve448.c', 'curve448', 'curve448_new_context', 'EXPORT_SYM int curve448_new_context(',
           '39082', '39081', 'change the constant 39082 to 39081', expect='a24'),
    Mutant('ws_newpoint_inverted_test', 'breaking', 'ec_ws.c', 'ec_ws', 'ec_ws_new_point', 'EXPORT_SYM int ec_ws_new_point(',
           'res = !mont_is_equal(wp->a, wp->c, ctx);', 'res = mont_is_equal(wp->a, wp->c, ctx);', 'invert the on-curve test', expect='accept_iff'),
    Mutant('ed448_newpoint_skip_check', 'breaking', 'ed448.c', 'ed448', 'ed448_new_point', 'EXPORT_SYM int ed448_new_point(',
           'res = !mont_is_equal(wp->a, wp->c,  ctx);', 'res = 0 & mont_is_equal(wp->a, wp->c,  ctx);', 'disable the on-curve test (always accept)', expect='ed448_new_point'),
    Mutant('ed25519_newpoint_refuse_all', 'breaking', 'ed25519.c', 'ed25519', 'ed25519_new_point', 'EXPORT_SYM int ed25519_new_point(',
           'convert_be8_to_le25p5((*out)->X, x);', 'if (modsize == 32) { free(*out); *out = NULL; return ERR_EC_POINT; }\n    convert_be8_to_le25p5((*out)->X, x);',
           'refuse every point before any test', expect='accepting_path_exists'),
    # ------------------------------------------------------------------ outside the subset: must be undecided, never violated
    Mutant('unsupported_unknown_callee', 'unsupported', 'ec_ws.c', 'ec_ws', 'ec_full_double', 'STATIC void ec_full_double(',
           'mont_add(z3, z3, z3, s, ctx);   /* 34 */', 'mont_shift_left(z3, z3, 1, ctx);', 'call a function that has neither a body here nor an assumed contract'),
    Mutant('unsupported_symbolic_loop', 'unsupported', 'ed25519.c', 'ed25519', 'ed25519_double_internal', 'STATIC void ed25519_double_internal(',
           'add_25519(C, C, C);', '{ unsigned i; for (i=0; i<P1->Z[0]; i++) add_25519(C, C, C); }', 'a loop whose bound depends on a limb of an abstract field element'),
    # ------------------------------------------------------------------ breaking, limb-range typing (the field value is unchanged or the
    # primitive is an assumed one: only the range obligations can see these)
    Mutant('range_add32_wrong_place', 'breaking', 'ed25519.c', 'ranges', 'ed25519_add_internal', 'STATIC void ed25519_add_internal(',
           'add_25519(D, D, D);', 'add32(D, D, D);', 'replace the carrying add_25519 by add32: D+C then exceeds the 2^27 the next mul_25519 admits', expect='requires_at_call'),
    Mutant('range_sub_presum_p_not_2p', 'breaking', 'mod25519.c', 'ranges', 'sub_25519', 'STATIC void sub_25519(',
           '{ 0x7ffffda, 0x3fffffe, 0x7fffffe, 0x3fffffe, 0x7fffffe, 0x3fffffe, 0x7fffffe, 0x3fffffe, 0x7fffffe, 0x3fffffe }',
           '{ 0x3ffffed, 0x1ffffff, 0x3ffffff, 0x1ffffff, 0x3ffffff, 0x1ffffff, 0x3ffffff, 0x1ffffff, 0x3ffffff, 0x1ffffff }',
           'sub_25519 pre-adds p instead of 2p: the limb-wise subtraction can wrap below zero', expect='sub_25519.no_overflow', also_copy=('ed25519.c', 'curve25519.c')),
    # ------------------------------------------------------------------ benign
    Mutant('benign_range_carrying_add', 'benign', 'ed25519.c', 'ranges', 'ed25519_add_internal', 'STATIC void ed25519_add_internal(',
           'add32(B, P1->Y, P1->X);', 'add_25519(B, P1->Y, P1->X);', 'use the carrying addition where add32 would do'),
    Mutant('benign_ws_add_commute_mult', 'benign', 'ec_ws.c', 'ec_ws', 'ec_full_add', 'STATIC void ec_full_add(',
           'mont_mult(t0, x1, x2, s, ctx);', 'mont_mult(t0, x2, x1, s, ctx);', 'commute the operands of a multiplication'),
    Mutant('benign_ws_dbl_rename_temp', 'benign', 'ec_ws.c', 'ec_ws', 'ec_full_double', 'STATIC void ec_full_double(',
           None, None, 'rename the temporary t3 to tq throughout ec_full_double', rename_in_function=('t3', 'tq')),
    Mutant('benign_ws_add_other_slots', 'benign', 'ec_ws.c', 'ec_ws', 'ec_full_add', 'STATIC void ec_full_add(',
           'uint64_t *t0 = tmp->a;\n    uint64_t *t1 = tmp->b;', 'uint64_t *t0 = tmp->b;\n    uint64_t *t1 = tmp->a;', 'use other workplace slots for two temporaries'),
    Mutant('benign_ed25519_commute_add', 'benign', 'ed25519.c', 'ed25519', 'ed25519_add_internal', 'STATIC void ed25519_add_internal(',
           'add32(B, P1->Y, P1->X);', 'add32(B, P1->X, P1->Y);', 'commute the operands of an addition'),
    Mutant('benign_x25519_commute_mult', 'benign', 'curve25519.c', 'curve25519', 'curve25519_ladder_step', 'STATIC void curve25519_ladder_step(',
           'mul_25519(z3, t0, x2);', 'mul_25519(z3, x2, t0);', 'commute the operands of a multiplication'),
    Mutant('benign_ws_newpoint_len_test', 'benign', 'ec_ws.c', 'ec_ws', 'ec_ws_new_point', 'EXPORT_SYM int ec_ws_new_point(',
           'if (len == 0)\n        return ERR_NOT_ENOUGH_DATA;', 'if (len < 1)\n        return ERR_NOT_ENOUGH_DATA;', 'spell the length validation differently'),
    Mutant('benign_ed448_reorder_independent', 'benign', 'ed448.c', 'ed448', 'ed448_add_internal', 'STATIC void ed448_add_internal(',
           'mont_mult(t2, x1, x2, s, ctx);      /* C = X1*X2 */\n    mont_mult(t3, y1, y2, s, ctx);      /* D = Y1*Y2 */',
           'mont_mult(t3, y1, y2, s, ctx);\n    mont_mult(t2, x1, x2, s, ctx);', 'reorder two independent statements'),
]


def make_copy(mut, src_dir='/repo/src', dst_dir=None):
    return mut.apply(src_dir, dst_dir)
