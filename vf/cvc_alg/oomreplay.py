"""Replay of allocation-failure findings against a FRESHLY COMPILED copy of the C file under check (README_UNITS: "or a freshly
compiled copy of the C function").  The translation unit and its link-time companions are compiled with gcc and the build's macro
set, with calloc/free routed through a counting shim that makes the k-th calloc of one call return NULL.  Everything happens in a
temp directory that is removed; the driver runs in a child process so that a crash of the C code cannot take the checker down.

Only used for the `robustness` obligations (failure paths); the formula-level obligations replay on the installed library."""
import json
import os
import shutil
import subprocess
import sys
import tempfile

from . import cast

SHIM = r'''
#include <stdlib.h>
static long fail_at = -1, ncalloc = 0, live = 0;
void cvcalg_arm(long k) { fail_at = k; ncalloc = 0; }
long cvcalg_calls(void) { return ncalloc; }
long cvcalg_live(void) { return live; }
void *cvcalg_calloc(size_t a, size_t b) {
    void *p;
    if (fail_at >= 0 && ncalloc++ == fail_at) return NULL;
    p = calloc(a, b);
    if (p) live++;
    return p;
}
void cvcalg_free(void *p) { if (p) live--; free(p); }
'''

DRIVER = r'''
import ctypes, json, sys
so, which = sys.argv[1], sys.argv[2]
L = ctypes.CDLL(so)
vp = ctypes.c_void_p
out = []
def be(v, n): return v.to_bytes(n, 'big')
if which == 'ed448':
    ctx = vp()
    assert L.ed448_new_context(ctypes.byref(ctx)) == 0
    x, y, n = be(int(sys.argv[3], 16), 56), be(int(sys.argv[4], 16), 56), 56
    def call(p): return L.ed448_new_point(ctypes.byref(p), x, y, ctypes.c_size_t(n), ctx)
elif which == 'ec_ws':
    p_, b_, o_ = (int(sys.argv[i], 16) for i in (5, 6, 7))
    n = (p_.bit_length() + 7) // 8
    ctx = vp()
    assert L.ec_ws_new_context(ctypes.byref(ctx), be(p_, n), be(b_, n), be(o_, n), ctypes.c_size_t(n), ctypes.c_uint64(1)) == 0
    x, y = be(int(sys.argv[3], 16), n), be(int(sys.argv[4], 16), n)
    def call(p): return L.ec_ws_new_point(ctypes.byref(p), x, y, ctypes.c_size_t(n), ctx)
L.cvcalg_live.restype = ctypes.c_long
L.cvcalg_calls.restype = ctypes.c_long
for k in range(0, 64):
    before = L.cvcalg_live()
    L.cvcalg_arm(ctypes.c_long(k))
    p = vp(0xDEAD)
    r = call(p)
    calls = L.cvcalg_calls()
    L.cvcalg_arm(ctypes.c_long(-1))
    out.append({'k': k, 'ret': r, 'ptr_null': p.value is None, 'ptr_untouched': p.value == 0xDEAD, 'leaked_blocks': L.cvcalg_live() - before, 'failed': calls > k})
    if calls <= k:
        break
print(json.dumps(out))
'''

DEPS = {'ed448': ['mont.c'], 'ec_ws': ['mont.c', 'p256_table.c', 'p384_table.c', 'p521_table.c']}


def run(which, cfile, args):
    """-> list of per-k records (k = index of the failing calloc inside one new_point call) or raises"""
    d = tempfile.mkdtemp(prefix='cvcalg_oom_')
    try:
        shim = os.path.join(d, 'shim.c')
        with open(shim, 'w') as f:
            f.write(SHIM)
        drv = os.path.join(d, 'driver.py')
        with open(drv, 'w') as f:
            f.write(DRIVER)
        so = os.path.join(d, 'lib.so')
        src_dir = os.path.dirname(os.path.abspath(cfile))
        srcs = [cfile] + [os.path.join(src_dir, x) if os.path.exists(os.path.join(src_dir, x)) else os.path.join(cast.REPO_SRC, x) for x in DEPS[which]]
        r = subprocess.run(['gcc', '-c', '-fPIC', '-O1', shim, '-o', os.path.join(d, 'shim.o')], stdout=subprocess.PIPE, stderr=subprocess.PIPE)
        if r.returncode:
            raise RuntimeError('gcc shim: ' + r.stderr.decode()[-400:])
        cmd = ['gcc', '-shared', '-fPIC', '-O1', '-w', '-I' + src_dir, '-I' + cast.REPO_SRC] + cast.build_macros() + \
              ['-Dcalloc=cvcalg_calloc', '-Dfree=cvcalg_free'] + srcs + [os.path.join(d, 'shim.o'), '-o', so]
        r = subprocess.run(cmd, stdout=subprocess.PIPE, stderr=subprocess.PIPE)
        if r.returncode:
            raise RuntimeError('gcc: ' + r.stderr.decode()[-800:])
        r = subprocess.run([sys.executable, drv, so, which] + list(args), stdout=subprocess.PIPE, stderr=subprocess.PIPE, timeout=120)
        if r.returncode:
            raise RuntimeError('driver: ' + r.stderr.decode()[-800:])
        return json.loads(r.stdout.decode()), ' '.join(cmd)
    finally:
        shutil.rmtree(d, ignore_errors=True)


_CACHE = {}


def replay(which, cfile, args, clause):
    """clause: 'ret_nonzero' | 'no_leak'  ->  (replayed bool, replay record); one build per (file, clause) and process"""
    key = (which, cfile, tuple(args), clause)
    if key not in _CACHE:
        _CACHE[key] = _replay(which, cfile, args, clause)
    return _CACHE[key]


def _replay(which, cfile, args, clause):
    rec = {'how': 'vf.cvc_alg.oomreplay.run(%r, %r, %r): gcc build of the checked C file with a calloc shim; the k-th calloc of one call returns NULL' % (which, cfile, list(args))}
    try:
        rows, cmd = run(which, cfile, args)
    except Exception as ex:     # noqa
        rec['error'] = repr(ex)
        return False, rec
    rec['build'] = cmd
    if clause == 'ret_nonzero':
        bad = [r for r in rows if r['failed'] and r['ret'] == 0]
        rec['failing_calloc_indices_with_return_0'] = [r['k'] for r in bad]
        rec['observed'] = bad[:3]
    else:
        bad = [r for r in rows if r['failed'] and r['leaked_blocks'] > 0]
        rec['failing_calloc_indices_with_leak'] = [(r['k'], r['leaked_blocks']) for r in bad]
        rec['observed'] = bad[:3]
    rec['callocs_per_successful_call'] = rows[-1]['k'] if rows else None
    return bool(bad), rec
