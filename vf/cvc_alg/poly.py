"""Exact polynomial reasoning for the obligations: normal forms modulo a Groebner basis (sympy), implication of a
disequation by Rabinowitsch's trick, exact evaluation at concrete points of the real curve over its real prime.

Zero test:   numerator(expr) reduced modulo GB(hypotheses) == 0   (remainder of multivariate division by a Groebner basis is a
             canonical form, so the test is exact, not a sampling argument).
All symbols -- coordinates AND curve parameters (b, d, k, A, a24) -- are polynomial variables over Z, so a discharged identity
holds in every commutative ring in which the hypotheses hold, in particular in each F_p (reported as `over Z` when all leading
coefficients of the basis are +-1, otherwise `over Q`: valid for every prime not dividing the finitely many denominators)."""
import sympy as sp

PARAMS = ('b', 'd', 'k', 'A', 'a24', 'a')


def numer(e):
    e = sp.together(e)
    n, _ = sp.fraction(e)
    return sp.expand(n)


def order_gens(syms, prefer=None):
    """coordinates first (so that each curve relation's leading monomial is in the coordinates), parameters last"""
    syms = list(syms)

    def key(s):
        nm = s.name
        return (1 if nm in PARAMS else 0, nm)

    return sorted(syms, key=key)


class NF:
    def __init__(self, zero, residual, ring):
        self.zero, self.residual, self.ring = zero, residual, ring


def normal_form(expr, hyps, gens=None):
    """(is_zero, residual expr, 'Z'|'Q'|'exact')"""
    num = numer(expr)
    if num == 0:
        return NF(True, sp.Integer(0), 'exact')
    hyps = [numer(h) for h in hyps]
    hyps = [h for h in hyps if h != 0]
    if not hyps:
        return NF(False, num, 'exact')
    syms = set(num.free_symbols)
    for h in hyps:
        syms |= h.free_symbols
    if gens:
        g = [s for s in gens if s in syms] + [s for s in order_gens(syms) if s not in gens]
    else:
        g = order_gens(syms)
    G = sp.groebner(hyps, *g, order='grevlex', domain='ZZ')
    ring = 'Z' if all(abs(sp.Poly(b, *g).LC()) == 1 for b in G.exprs) else 'Q'
    _, r = G.reduce(num)
    r = sp.expand(r)
    return NF(r == 0, r, ring)


def implies_nonzero(goal, hyps_eq, hyps_ne):
    """sufficient test for: hyps_eq = 0 and hyps_ne != 0  ==>  goal != 0  (over the algebraic closure, hence over F_p)"""
    g = numer(goal)
    if g == 0:
        return False, 'goal is identically zero'
    if not g.free_symbols:
        return True, 'non-zero constant'
    nf = normal_form(g, hyps_eq)
    if nf.zero:
        return False, 'goal vanishes identically under the hypotheses'
    if not nf.residual.free_symbols:
        return True, 'non-zero constant modulo the hypotheses'
    t = sp.Dummy('t')
    prod = sp.Integer(1)
    for h in hyps_ne:
        prod *= numer(h)
    system = [numer(h) for h in hyps_eq] + [g, sp.expand(1 - t * prod)]
    syms = set()
    for h in system:
        syms |= h.free_symbols
    G = sp.groebner(system, *order_gens(syms), order='grevlex')
    if G.exprs == [1] or any(e.is_number and e != 0 for e in G.exprs):
        return True, 'Rabinowitsch: 1 in ideal(hyps, goal, 1 - t*prod(nonzero hyps))'
    return False, 'not implied (Groebner basis of the refutation system is not {1})'


def eval_mod(expr, assignment, p):
    """exact value of the numerator AND denominator of expr at an integer assignment, mod p -> (num mod p, den mod p)"""
    e = sp.together(expr)
    n, d = sp.fraction(e)
    out = []
    for part in (n, d):
        syms = sorted(part.free_symbols, key=lambda s: s.name)
        missing = [s for s in syms if s.name not in assignment]
        if missing:
            raise KeyError('no value for %s' % missing)
        val = _eval_int(part, {s: assignment[s.name] for s in syms}, p)
        out.append(val % p)
    return out[0], out[1]


def _eval_int(e, env, p):
    """evaluate a polynomial expression with Python ints mod p (exact)"""
    e = sp.expand(e)
    if not e.free_symbols:
        q = sp.Rational(e)
        return (int(q.p) * pow(int(q.q), -1, p)) % p
    syms = sorted(e.free_symbols, key=lambda s: s.name)
    P = sp.Poly(e, *syms)
    tot = 0
    vals = [env[s] % p for s in syms]
    for mon, c in P.terms():
        c = sp.Rational(c)
        t = (int(c.p) % p) * pow(int(c.q), -1, p) % p
        for v, k in zip(vals, mon):
            if k:
                t = t * pow(v, k, p) % p
        tot = (tot + t) % p
    return tot


def short(e, n=600):
    s = str(e)
    return s if len(s) <= n else s[:n] + ' ... (%d chars, %d terms)' % (len(s), len(sp.Add.make_args(e)))
