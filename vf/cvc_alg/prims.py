"""Interpretation of the assumed primitive contracts (texts: /verif/contracts/ec/primitives.py) on the abstract memory,
plus the exactly-modelled libc subset (calloc/free/memcpy/memset/memcmp)."""
import sympy as sp

from . import cast
from .engine import ArrV, FE, IntV, Junk, Loc, NonZeroV, NULL, PredV, PtrV, SymI, Unsupported, f_not

W25519 = [0, 26, 51, 77, 102, 128, 153, 179, 204, 230]     # bit position of limb i in radix 2^25.5


def _cell(ex, p, what):
    if not isinstance(p, PtrV):
        raise Unsupported('%s: argument is not a pointer (%r)' % (what, p))
    if p.is_null():
        raise Unsupported('%s: NULL operand' % what)
    ex.obj(p.obj)
    path = p.path
    if path and isinstance(path[-1], int):
        if path[-1] != 0:
            raise Unsupported('%s: pointer into the middle of an array' % what)
        path = path[:-1]
    return p.obj, path


def arr_value(ex, oid, path, arr, what):
    """integer denoted by a concrete limb/byte array, according to its element type"""
    t = ex.type_at(oid, path)
    items = arr.items
    if any(not isinstance(x, IntV) for x in items):
        raise Unsupported('%s: array %s is not fully concrete' % (what, ex.label(oid, path)))
    vals = [x.val for x in items]
    et = t.to if (t is not None and t.kind == 'array') else None
    if et is not None and et.kind == 'int' and et.bits == 32 and len(vals) == 10:
        return sum(v << W25519[i] for i, v in enumerate(vals))
    if all(v == 0 for v in vals):
        return 0
    raise Unsupported('%s: concrete array %s has no field-element reading' % (what, ex.label(oid, path)))


def read_fe(ex, p, what):
    oid, path = _cell(ex, p, what)
    c = ex.p.mem.get((oid, path))
    if isinstance(c, FE):
        return c.e
    if isinstance(c, ArrV):
        v = arr_value(ex, oid, path, c, what)
        o = ex.p.objs[oid]
        if o.const_sym and not path:
            ex.p.consts[o.const_sym] = v
            return sp.Symbol(o.const_sym)
        return sp.Integer(v)
    if isinstance(c, Junk):
        raise Unsupported('%s: operand %s was clobbered (%s)' % (what, ex.label(oid, path), c.why))
    raise Unsupported('%s: operand %s is uninitialised' % (what, ex.label(oid, path)))


def write_fe(ex, p, e, what, canon=False):
    oid, path = _cell(ex, p, what)
    t = ex.type_at(oid, path)
    if t is not None and t.kind not in ('array',):
        raise Unsupported('%s: output %s is not a limb array' % (what, ex.label(oid, path)))
    ex.kill_prefix(oid, path)
    ex.p.mem[(oid, path)] = FE(sp.expand(e), canon)


def clobber(ex, p, why):
    if isinstance(p, PtrV) and not p.is_null():
        oid, path = _cell(ex, p, why)
        ex.kill_prefix(oid, path)
        ex.p.mem[(oid, path)] = Junk(why)


def _note(ex, node, name, text):
    ex.p.trace.append((cast.line_of(node) if node else None, name, text))
    ex.used_prims.add(name)


def _fork_fail(ex, node, name):
    n = sum(1 for t in ex.p.trace if t[1] == name)
    return ex.decide(ex.atom_opaque('FAIL %s#%d@%s' % (name, n + 1, cast.line_of(node) if node else '?')))


def make_handler(name, spec, family):
    params = spec['params']
    op = spec['op']
    pos = {p: i for i, p in enumerate(params)}

    def arg(args, nm):
        return args[pos[nm]]

    def h(ex, args, node):
        if len(args) != len(params):
            raise Unsupported('%s: wrong number of arguments' % name)
        what = '%s@%s' % (name, cast.line_of(node) if node else '?')
        if op in ('mul', 'add', 'sub'):
            ia, ib = params[1], params[2]
            a = read_fe(ex, arg(args, ia), what)
            b = read_fe(ex, arg(args, ib), what)
            r = a * b if op == 'mul' else a + b if op == 'add' else a - b
            if 'tmp' in pos:
                clobber(ex, arg(args, 'tmp'), 'scratchpad of ' + what)
            write_fe(ex, arg(args, params[0]), r, what, canon=(family == 'mont'))
            _note(ex, node, name, '%s = %s %s %s' % (ex.label(*_cell(ex, args[0], what)), ex.label(*_cell(ex, arg(args, ia), what)),
                                                      {'mul': '*', 'add': '+', 'sub': '-'}[op], ex.label(*_cell(ex, arg(args, ib), what))))
            return IntV(0) if 'ret' in spec else None
        if op == 'copy':
            a = read_fe(ex, args[1], what)
            write_fe(ex, args[0], a, what, canon=(family == 'mont'))
            _note(ex, node, name, 'copy')
            return IntV(0)
        if op == 'set_small':
            x = arg(args, 'x')
            if not isinstance(x, IntV):
                raise Unsupported('%s: non-constant value' % what)
            write_fe(ex, args[0], sp.Integer(x.val), what, canon=True)
            _note(ex, node, name, 'set %d' % x.val)
            return IntV(0)
        if op in ('is_zero', 'is_one', 'is_equal'):
            a = read_fe(ex, args[0], what)
            if op == 'is_one':
                a = a - 1
            elif op == 'is_equal':
                a = a - read_fe(ex, args[1], what)
            _note(ex, node, name, op)
            return PredV(ex.atom_zero(a))
        if op == 'inv':
            a = read_fe(ex, args[1], what)
            z = ex.decide(ex.atom_zero(a))
            if ex.p.zero_syms:
                a = a.subs(ex.p.zero_syms)
            write_fe(ex, args[0], sp.Integer(0) if z else 1 / a, what, canon=(family == 'mont'))
            _note(ex, node, name, 'inverse')
            return IntV(0) if 'ret' in spec else None
        if op in ('new_number', 'from_bytes', 'from_uint64'):
            out = args[0]
            if not isinstance(out, PtrV) or out.is_null():
                raise Unsupported('%s: bad out pointer' % what)
            if op == 'from_bytes':
                src = args[1]
                if not isinstance(src, PtrV) or src.is_null():
                    raise Unsupported('%s: NULL number' % what)
            fail = _fork_fail(ex, node, name)
            _note(ex, node, name, 'fails' if fail else 'ok')
            if fail:
                ex.store(Loc(out.obj, out.path), NULL)
                return NonZeroV('error code of ' + what)
            if op == 'new_number':
                cnt = arg(args, 'count')
                one = isinstance(cnt, IntV) and cnt.val == 1
                o = ex.new_obj(cast.CType('array', to=cast.CType('int', 64, False), n=None), 'mont#%d' % (len(ex.p.objs) + 1), heap=True,
                               kind='felem' if one else 'scratch')
                ex.p.mem[(o.id, ())] = FE(sp.Integer(0), True) if one else Junk('fresh scratchpad')
            else:
                if op == 'from_bytes':
                    v = read_bytes_value(ex, args[1], args[2], what)
                else:
                    x = arg(args, 'x')
                    if not isinstance(x, IntV):
                        raise Unsupported('%s: non-constant value' % what)
                    v = sp.Integer(x.val)
                o = ex.new_obj(cast.CType('array', to=cast.CType('int', 64, False), n=None), 'mont#%d' % (len(ex.p.objs) + 1), heap=True, kind='felem')
                ex.p.mem[(o.id, ())] = FE(v, True)
            o.size_sym = 'nbytes'
            ex.store(Loc(out.obj, out.path), PtrV(o.id))
            return IntV(0)
        if op == 'context_init':
            out = args[0]
            fail = _fork_fail(ex, node, name)
            _note(ex, node, name, 'fails' if fail else 'ok')
            if fail:
                ex.store(Loc(out.obj, out.path), NULL)
                return NonZeroV('error code of ' + what)
            v = read_bytes_value(ex, args[1], args[2], what)
            t = ex.tu.parse_type('MontContext')
            o = ex.new_obj(t, 'montctx', heap=True, kind='ctx')
            ex.p.mem[(o.id, ('bytes',))] = SymI('nbytes')
            ex.p.mem[(o.id, ('words',))] = SymI('nwords')
            ex.p.mem[(o.id, ('modulus_len',))] = SymI('modulus_len')
            ex.p.mem[(o.id, ('modulus_type',))] = SymI('modulus_type')
            ex.p.consts['modulus'] = int(v) if v.is_Integer else v
            ex.store(Loc(out.obj, out.path), PtrV(o.id))
            return IntV(0)
        if op == 'free_ctx':
            p = args[0]
            if isinstance(p, PtrV) and not p.is_null():
                ex.p.objs[p.obj].freed = True
            return None
        if op == 'from_be_bytes':
            v = read_bytes_value(ex, args[1], None, what)
            write_fe(ex, args[0], v, what)
            _note(ex, node, name, 'load bytes')
            return None
        if op == 'from_be_hex':
            oid, path = _cell(ex, args[1], what)
            c = ex.p.mem.get((oid, path))
            if not isinstance(c, ArrV) or any(not isinstance(x, IntV) for x in c.items):
                raise Unsupported('%s: hex string is not a constant' % what)
            bs = bytes(x.val & 0xff for x in c.items)
            s = bs.split(b'\0')[0].decode('ascii', 'replace')
            if len(s) > 64 or len(s) % 2 or any(ch not in '0123456789abcdefABCDEF' for ch in s):
                raise Unsupported('%s: %r is not an even-length hex string of at most 64 digits (the call would fail)' % (what, s))
            v = int(s, 16) if s else 0
            o = ex.p.objs[oid]
            if o.const_sym:
                ex.p.consts[o.const_sym] = v
                e = sp.Symbol(o.const_sym)
            else:
                e = sp.Integer(v)
            write_fe(ex, args[0], e, what)
            _note(ex, node, name, 'load hex constant')
            return IntV(0)
        if op == 'to_canonical_bytes':
            a = read_fe(ex, args[1], what)
            write_fe(ex, args[0], a, what, canon=True)
            _note(ex, node, name, 'canonical encoding')
            return None
        if op == 'reduce_canonical':
            a = read_fe(ex, args[0], what)
            write_fe(ex, args[0], a, what, canon=True)
            _note(ex, node, name, 'reduce')
            return None
        raise Unsupported('primitive op %s' % op)

    return h


def read_bytes_value(ex, p, ln, what):
    """field value of a big-endian byte string argument: abstract (contract symbol) or concrete array"""
    oid, path = _cell(ex, p, what)
    c = ex.p.mem.get((oid, path))
    if isinstance(c, FE):
        return c.e
    if isinstance(c, ArrV):
        if any(not isinstance(x, IntV) for x in c.items):
            raise Unsupported('%s: byte string not concrete' % what)
        bs = [x.val & 0xff for x in c.items]
        if ln is not None:
            if not isinstance(ln, IntV):
                raise Unsupported('%s: symbolic length with concrete bytes' % what)
            if ln.val > len(bs):
                raise Unsupported('%s: length %d exceeds the %d-byte array' % (what, ln.val, len(bs)))
            bs = bs[:ln.val]
        v = int.from_bytes(bytes(bs), 'big')
        o = ex.p.objs[oid]
        if o.const_sym and not path:
            ex.p.consts[o.const_sym] = v
            return sp.Symbol(o.const_sym)
        return sp.Integer(v)
    raise Unsupported('%s: byte string %s is uninitialised' % (what, ex.label(oid, path)))


# ------------------------------------------------------------------------------------------- libc, modelled exactly
def _sizeof_at(ex, oid, path):
    t = ex.type_at(oid, path)
    if t is None:
        return None
    try:
        return ex.tu.sizeof(t)
    except cast.AstError:
        return None


def libc_calloc(ex, args, node):
    n, size = args
    k = sum(1 for t in ex.p.trace if t[1] == 'calloc') + 1
    what = 'calloc#%d@%s' % (k, cast.line_of(node) if node else '?')
    t = None
    if isinstance(n, IntV) and isinstance(size, IntV):
        if n.val == 1 and size.sizeof_type is not None:
            t = size.sizeof_type
        elif size.val == 1 and n.sizeof_type is not None:
            t = n.sizeof_type
        elif size.sizeof_type is not None and size.sizeof_type.kind == 'int':
            t = cast.CType('array', to=size.sizeof_type, n=n.val)
    if t is None:
        raise Unsupported('%s: cannot tell the object type from the arguments' % what)
    fail = ex.decide(ex.atom_opaque('FAIL ' + what))
    ex.p.trace.append((cast.line_of(node) if node else None, 'calloc', 'NULL' if fail else repr(t)))
    if fail:
        return NULL
    o = ex.new_obj(t, '%s(%s)' % (what, t.name or t.kind), heap=True, kind='calloc')
    ex.zero_init(o.id, (), t)
    return PtrV(o.id)


def libc_free(ex, args, node):
    p = args[0]
    if not isinstance(p, PtrV):
        raise Unsupported('free of %r' % (p,))
    if p.is_null():
        return None
    o = ex.p.objs[p.obj]
    if p.path:
        raise Unsupported('free of interior pointer')
    if o.freed:
        raise Unsupported('double free of %s' % o.label)
    if not o.heap:
        raise Unsupported('free of non-heap object %s' % o.label)
    o.freed = True
    return None


def libc_memcpy(ex, args, node):
    dst, src, n = args
    what = 'memcpy@%s' % (cast.line_of(node) if node else '?')
    do, dp = _cell(ex, dst, what)
    so, sp_ = _cell(ex, src, what)
    ok = False
    if isinstance(n, SymI):
        ok = (ex.p.objs[do].size_sym == n.name and ex.p.objs[so].size_sym == n.name and not dp and not sp_)
        if not ok:
            raise Unsupported('%s: %s bytes is not known to be the size of both %s and %s' % (what, n.name, ex.label(do, dp), ex.label(so, sp_)))
    elif isinstance(n, IntV):
        ok = (_sizeof_at(ex, do, dp) == n.val and _sizeof_at(ex, so, sp_) == n.val)
        if not ok:
            raise Unsupported('%s: partial copy (%d bytes)' % (what, n.val))
    else:
        raise Unsupported('%s: length %r' % (what, n))
    c = ex.p.mem.get((so, sp_))
    if isinstance(c, Junk) or c is None:
        t = ex.type_at(so, sp_)
        if t is not None and t.kind == 'struct':
            ex.copy_agg(Loc(do, dp), Loc(so, sp_))
            return dst
        raise Unsupported('%s: source %s is uninitialised/clobbered' % (what, ex.label(so, sp_)))
    if (do, dp) == (so, sp_):
        return dst
    ex.kill_prefix(do, dp)
    ex.p.mem[(do, dp)] = c
    ex.p.trace.append((cast.line_of(node) if node else None, 'memcpy', '%s = %s' % (ex.label(do, dp), ex.label(so, sp_))))
    return dst


def libc_memset(ex, args, node):
    dst, c, n = args
    what = 'memset@%s' % (cast.line_of(node) if node else '?')
    do, dp = _cell(ex, dst, what)
    if not (isinstance(c, IntV) and isinstance(n, IntV)):
        raise Unsupported('%s: symbolic fill/length' % what)
    if _sizeof_at(ex, do, dp) != n.val:
        raise Unsupported('%s: partial fill (%d bytes)' % (what, n.val))
    if c.val != 0:
        raise Unsupported('%s: non-zero fill' % what)
    t = ex.type_at(do, dp)
    ex.kill_prefix(do, dp)
    ex.p.mem.pop((do, dp), None)
    ex.zero_init(do, dp, t)
    return dst


def libc_memcmp(ex, args, node):
    a, b, n = args
    what = 'memcmp@%s' % (cast.line_of(node) if node else '?')
    ao, ap = _cell(ex, a, what)
    bo, bp = _cell(ex, b, what)
    if not isinstance(n, IntV) or _sizeof_at(ex, ao, ap) != n.val or _sizeof_at(ex, bo, bp) != n.val:
        raise Unsupported('%s: not a whole-array comparison' % what)
    ca, cb = ex.p.mem.get((ao, ap)), ex.p.mem.get((bo, bp))
    if isinstance(ca, ArrV) and isinstance(cb, ArrV):
        va = [x.val for x in ca.items]
        vb = [x.val for x in cb.items]
        return IntV(0 if va == vb else 1)
    if isinstance(ca, (FE, ArrV)) and isinstance(cb, (FE, ArrV)):
        for c, o, p_ in ((ca, ao, ap), (cb, bo, bp)):
            if isinstance(c, FE) and not c.canon:
                raise Unsupported('%s: %s is not known to hold a canonical representative, memcmp does not decide field equality' % (what, ex.label(o, p_)))
        ea = read_fe(ex, a, what)
        eb = read_fe(ex, b, what)
        ex.p.trace.append((cast.line_of(node) if node else None, 'memcmp', 'field compare'))
        return PredV(f_not(ex.atom_zero(ea - eb)), exact01=False)
    raise Unsupported('%s: operands uninitialised' % what)


def build_prims(family):
    from contracts.ec import primitives as P
    tab = P.MONT if family == 'mont' else P.F25519
    prims = {name: make_handler(name, spec, family) for name, spec in tab.items()}
    prims.update({'calloc': libc_calloc, 'free': libc_free, 'memcpy': libc_memcpy, 'memset': libc_memset, 'memcmp': libc_memcmp})
    return prims
