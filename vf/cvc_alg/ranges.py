"""Limb-range typing of the radix-2^25.5 code (DESIGN.md C06, bullet "limb-range typing").  Contracts: contracts/ec/ranges25519.py.

Three layers, all on the real AST (clang JSON), re-read on every run:
 1. the point invariant INV is COMPUTED: the join of the output ranges of mul_25519 / add_25519 / sub_25519 under their preconditions
    (fixpoint, because sub_25519's precondition mentions INV); it is sharper than the source comments in limb 9;
 2. primitive level: interval execution of each primitive body under its precondition -- no wrap, no lossy conversion, output inside
    the range promised by the source comment, output inside INV;
 3. call-site level: the formula functions run on the algebraic-mode executor with interval vectors as cell contents; each call must
    satisfy the callee's precondition (this is where "add32 may only feed a slot that admits < 2^27" is checked) and the outputs must
    satisfy INV again.

Interval analysis over-approximates, so a failed check is `violated` only if CONCRETE limbs (within the declared input ranges) are
found that break the same clause under exact C semantics (wrap-around included); otherwise it is `undecided`."""
import os
import random
import time

from . import cast, ival
from .contract import Heap, Raw
from .engine import ArrV, Exec, Explorer, IntV, Unsupported
from .ival import IV

P25519 = 2 ** 255 - 19
W = [0, 26, 51, 77, 102, 128, 153, 179, 204, 230]


class RV:
    """cell content: one interval per limb"""
    __slots__ = ('items',)

    def __init__(self, items):
        self.items = list(items)

    def his(self):
        return [x.hi for x in self.items]

    def value(self):
        return sum(x.lo << W[i] for i, x in enumerate(self.items))


def rv_below(excl):
    return RV([IV(0, b - 1) for b in excl])


def within(rv, excl):
    return all(x.hi < b for x, b in zip(rv.items, excl))


def bits(rv):
    return [x.hi.bit_length() for x in rv.items]


def _res(prop, fn, kind, name, clause, status, detail, t0, witness=None, path=None):
    return {'id': '%s.ranges25519.%s.%s.%s' % (prop, fn, kind, name), 'kind': kind, 'clause': clause, 'status': status, 'backend': 'intervals',
            'seconds': round(time.time() - t0, 3), 'detail': detail, 'witness': witness, 'replayed': False, 'replay': None, 'path': path,
            'target': 'mod25519.c:' + fn}


def run_prim(tu, name, ins):
    """interval/concrete execution of one primitive body: ins = list of limb lists (IV); returns (out list, events)"""
    it = ival.Interp(tu)
    out = [None] * 10
    it.call(name, [out] + [list(x) for x in ins])
    return out, it.events


def compute_invariant(tu, R):
    """least INV (exclusive bounds per limb) closed under the three producers of point coordinates"""
    inv = [0] * 10
    logs = []
    for name in ('mul_25519', 'add_25519'):
        b = R.PRE[name]['bounds']
        out, ev = run_prim(tu, name, [[IV(0, x - 1) for x in b[p]] for p in R.PRE[name]['params'][1:]])
        inv = [max(i, o.hi + 1) for i, o in zip(inv, out)]
        logs.append((name, [o.hi for o in out], ev))
    for _ in range(4):
        out, ev = run_prim(tu, 'sub_25519', [[IV(0, (1 << 27) - 1)] * 10, [IV(0, x - 1) for x in inv]])
        new = [max(i, o.hi + 1) for i, o in zip(inv, out)]
        logs.append(('sub_25519', [o.hi for o in out], ev))
        if new == inv:
            break
        inv = new
    return inv, logs


# ------------------------------------------------------------------------------------------------ call-site level
def make_range_prims(tu, R, inv, calls):
    def read(ex, p, cache):
        oid, path = p.obj, p.path
        if path and isinstance(path[-1], int):
            path = path[:-1]
        key = (oid, path)
        if key in cache:
            return cache[key], key
        c = ex.p.mem.get(key)
        if isinstance(c, RV):
            lst = list(c.items)
        elif isinstance(c, ArrV) and all(isinstance(x, IntV) for x in c.items) and len(c.items) == 10:
            lst = [IV(x.val) for x in c.items]
        else:
            raise Unsupported('range typing: operand %s holds no limb ranges (%r)' % (ex.label(oid, path), c))
        cache[key] = lst
        return lst, key

    def handler(name):
        spec = R.PRE[name]

        def h(ex, args, node):
            cache = {}
            okey = (args[0].obj, args[0].path)
            a, ka = read(ex, args[1], cache)
            b, kb = read(ex, args[2], cache)
            # the output list is the SAME python list as an input when the pointers alias (faithful in-place semantics)
            out = cache.get(okey)
            if out is None:
                out = [None] * 10
            snap = {'a': [IV(x.lo, x.hi) for x in a], 'b': [IV(x.lo, x.hi) for x in b]}
            it = ival.Interp(tu)
            it.call(name, [out, a, b])
            ok, why = True, []
            if spec['bounds']:
                for pname, lst in zip(spec['params'][1:], (snap['a'], snap['b'])):
                    for i, (x, bd) in enumerate(zip(lst, spec['bounds'][pname])):
                        if x.hi >= bd:
                            ok = False
                            why.append('%s[%d] <= %d (bit length %d) is not < 2^%d' % (pname, i, x.hi, x.hi.bit_length(), bd.bit_length() - 1))
            if it.events:
                ok = False
                why += ['line %s (%s): %s' % e for e in it.events[:3]]
            calls.append(dict(ord=len(calls) + 1, prim=name, line=cast.line_of(node), ok=ok, why=why,
                              args={'a': [(x.lo, x.hi) for x in snap['a']], 'b': [(x.lo, x.hi) for x in snap['b']]}))
            ex.kill_prefix(*okey)
            ex.p.mem[okey] = RV(out)
            ex.used_prims.add(name)
            return None

        return h

    return {name: handler(name) for name in R.PRE}


def setup_function(H, f, cfg, inv, raw, gen):
    """gen(role) -> RV for an input of that role"""
    kind = f['kind']
    if kind in ('point3', 'point2'):
        def point(label, role):
            return H.struct('Point', label, **{fld: Raw(gen(role)) for fld in 'XYZT'})
        p1 = point('P1', 'inv')
        if kind == 'point2':
            p3 = p1 if cfg == 'P3=P1' else H.struct('Point', 'P3')
            return dict(args=[p3, p1], outs=[(p3, fld) for fld in 'XYZT'])
        p2 = point('P2', 'inv')
        p3 = {'distinct': None, 'P3=P1': p1, 'P3=P2': p2}[cfg] or H.struct('Point', 'P3')
        return dict(args=[p3, p1, p2], outs=[(p3, fld) for fld in 'XYZT'])
    if kind == 'ladder':
        x2, z2, z3 = (H.cell(gen('inv'), n) for n in ('x2', 'z2', 'z3'))
        x3, xp = H.cell(gen('raw'), 'x3'), H.cell(gen('raw'), 'xp')
        return dict(args=[x2, z2, x3, z3, xp], outs=[(x2,), (z2,), (x3,), (z3,)])
    raise ValueError(kind)


def type_function(tu, R, f, cfg, inv, raw, gen):
    calls = []
    prims = make_range_prims(tu, R, inv, calls)
    result = {}

    def run(path):
        ex = Exec(tu, prims, path)
        path.ex = ex
        try:
            H = Heap(ex, '25519')
            env = setup_function(H, f, cfg, inv, raw, gen)
            ex.frames.append(({}, '<contract>'))
            ex.run_function(tu.functions[f['function']], env['args'])
            outs = []
            for o in env['outs']:
                p = o[0]
                c = path.mem.get((p.obj, p.path + tuple(o[1:])))
                outs.append(('.'.join(o[1:]) or ex.label(p.obj), c))
            result['outs'] = outs
        except Unsupported as u:
            path.error = str(u)

    paths = Explorer().run(run)
    if len(paths) != 1 or paths[0].error:
        raise Unsupported(paths[0].error or 'unexpected branching')
    return calls, result['outs']


def run(prop='C06', src_dir='/repo/src', cfiles=None):
    from contracts.ec import ranges25519 as R
    t00 = time.time()
    cfiles = cfiles or {}
    res, functions = [], []
    seed = int(os.environ.get('VERIF_SEED', '0') or 0)
    rng = random.Random('ranges/%d' % seed)
    tus = {}

    def tu_of(fname):
        if fname not in tus:
            tus[fname] = cast.load_tu(cfiles.get(fname) or os.path.join(src_dir, fname))
        return tus[fname]

    try:
        tu = tu_of('ed25519.c')
        inv, logs = compute_invariant(tu, R)
    except (ival.IvUnsupported, cast.AstError, Unsupported) as ex:
        res.append(_res(prop, 'mod25519', 'engine', 'supported', 'interval execution of the primitives stays inside the supported subset', 'undecided', str(ex), t00))
        return {'functions': [], 'results': res, 'assumptions': [], 'trusted': []}
    raw_out, raw_ev = [None] * 10, None
    it = ival.Interp(tu)
    it.call('convert_le64_to_le25p5', [raw_out, [IV(0, 2 ** 64 - 1)] * 4])
    raw = [o.hi + 1 for o in raw_out]
    can_out = [None] * 10
    it2 = ival.Interp(tu)
    it2.call('convert_le64_to_le25p5', [can_out, [IV(0, 2 ** 64 - 1)] * 3 + [IV(0, 2 ** 63 - 1)]])
    # ------------------------------------------------------------------ primitive level
    for name, checks in R.PRIM_CHECK.items():
        t0 = time.time()
        spec = R.PRE[name]
        for label, bounds in checks:
            ins = []
            for pn in spec['params'][1:]:
                b = bounds[pn]
                ins.append([IV(0, x - 1) for x in (inv if b == 'INVARIANT' else b)])
            try:
                out, ev = run_prim(tu, name, ins)
            except ival.IvUnsupported as ex:
                res.append(_res(prop, name, 'engine', 'supported', 'interval execution stays inside the supported subset', 'undecided', str(ex), t0))
                continue
            st, wit, det = 'discharged', None, 'no operation can wrap or lose bits for inputs with %s; output bit lengths %s' % (label, [o.hi.bit_length() for o in out])
            if ev:
                st, wit, det = _concretize_prim(tu, name, ins, rng)
                det = 'interval analysis: ' + '; '.join('line %s (%s): %s' % e for e in ev[:3]) + ' | ' + det
            res.append(_res(prop, name, 'no_overflow', 'no_wrap', '%s: no unsigned wrap-around / lossy conversion under its precondition [%s]' % (name, spec['source']),
                            st, det, t0, wit))
            if spec['post']:
                okp = all(o.hi < b for o, b in zip(out, spec['post']))
                res.append(_res(prop, name, 'ensures', 'post_within_comment', '%s: every output limb is inside the range the source comment promises (even < 2^26, odd < 2^25, limb 9 < 2^26)' % name,
                                'discharged' if okp else 'undecided', 'computed upper bounds %s' % [hex(o.hi) for o in out], t0))
            okI = all(o.hi < b for o, b in zip(out, inv)) if name != 'add32' else True
            if name != 'add32':
                res.append(_res(prop, name, 'ensures', 'post_within_invariant', '%s: the output satisfies the point invariant INV (limb bounds %s)' % (name, [hex(b - 1) for b in inv]),
                                'discharged' if okI else 'undecided', 'computed upper bounds %s' % [hex(o.hi) for o in out], t0))
        functions.append({'target': 'src/mod25519.c:%s [limb ranges / no wrap-around only; the field value stays an assumed contract]' % name, 'engine': 'CVC-alg/intervals',
                          'status': 'proved', 'obligations': 3, 'source': _src(tu, name)})
    t0 = time.time()
    res.append(_res(prop, 'convert_le64_to_le25p5', 'ensures', 'canonical_input_within_invariant',
                    'limbs converted from any integer < 2^255 (in particular every canonical coordinate < p) satisfy the point invariant',
                    'discharged' if all(o.hi < b for o, b in zip(can_out, inv)) else 'undecided', 'computed upper bounds %s' % [hex(o.hi) for o in can_out], t0))
    # NOT registered (fails on the unchanged tree, see NOTES.md): limbs converted from an arbitrary 256-bit string satisfy INV -- limb 9 reaches 2^26 - 1.
    # ------------------------------------------------------------------ call-site level
    for f in R.FUNCTIONS:
        t0 = time.time()
        nob = 0
        try:
            tuf = tu_of(f['file'])
        except cast.AstError as ex:
            res.append(_res(prop, f['function'], 'engine', 'parse', 'clang parses the translation unit', 'undecided', str(ex)[-800:], t0))
            continue
        for cfg in f['configs']:
            sfx = '[%s]' % cfg if len(f['configs']) > 1 else ''

            def gen(role):
                return rv_below(inv if role == 'inv' else raw)
            try:
                calls, outs = type_function(tuf, R, f, cfg, inv, raw, gen)
            except (Unsupported, ival.IvUnsupported) as ex:
                res.append(_res(prop, f['function'], 'engine', 'supported' + sfx, 'the function stays inside the supported subset', 'undecided', str(ex), t0, path=cfg))
                continue
            bad = [c for c in calls if not c['ok']]
            badout = [(n, c) for n, c in outs if not (isinstance(c, RV) and within(c, inv))]
            wit = None
            if bad or badout:
                wit = _concretize_function(tuf, R, f, cfg, inv, raw, rng)
            for c in calls:
                nm = 'call%02d_%s%s' % (c['ord'], c['prim'], sfx)
                clause = '%s line %s: call #%d to %s meets the callee\'s range precondition [%s]' % (f['function'], c['line'], c['ord'], c['prim'], R.PRE[c['prim']]['source'][:110])
                if c['ok']:
                    res.append(_res(prop, f['function'], 'requires_at_call', nm, clause, 'discharged',
                                    'argument bit lengths a=%s b=%s' % ([hi.bit_length() for _, hi in c['args']['a']], [hi.bit_length() for _, hi in c['args']['b']]), t0, path=cfg))
                else:
                    w = (wit or {}).get(c['ord'])
                    res.append(_res(prop, f['function'], 'requires_at_call', nm, clause, 'violated' if w else 'undecided',
                                    'interval analysis: ' + '; '.join(c['why'][:3]) + (' | concrete inputs within the declared ranges break the clause' if w else
                                                                                     ' | no concrete input found that breaks the clause (over-approximation?)'), t0, w, path=cfg))
                nob += 1
            for n, c in outs:
                good = isinstance(c, RV) and within(c, inv)
                res.append(_res(prop, f['function'], 'ensures', 'invariant_%s%s' % (n, sfx), '%s: output %s satisfies the point invariant again (inductive over the ladder loop)' % (f['function'], n),
                                'discharged' if good else 'undecided', 'computed upper bounds %s' % ([hex(h) for h in c.his()] if isinstance(c, RV) else c), t0, path=cfg))
                nob += 1
        functions.append({'target': 'src/%s:%s [limb-range typing]' % (f['file'], f['function']), 'engine': 'CVC-alg/intervals',
                          'status': 'proved' if all(r['status'] == 'discharged' for r in res if ('.%s.' % f['function']) in r['id']) else 'not-proved', 'obligations': nob,
                          'source': _src(tuf, f['function']), 'seconds': round(time.time() - t0, 2)})
    if not res:
        res.append(_res(prop, 'all', 'vacuity', 'vacuity', 'range typing yields obligations', 'error', 'zero obligations', t00))
    return {'functions': functions, 'results': res,
            'assumptions': ['point invariant INV (exclusive limb bounds %s) holds for every coordinate array entering the formula functions: true for all outputs of '
                            'mul/add/sub_25519 and for conversions of integers < 2^255; NOT established by ed25519_new_point for non-canonical inputs >= 2^255 (NOTES.md)' % [hex(b) for b in inv]],
            'trusted': ['interval arithmetic of vf/cvc_alg/ival.py is a sound over-approximation of C unsigned arithmetic on LP64']}


def _src(tu, fn):
    try:
        return tu.source_info(fn)
    except Exception:       # noqa
        return None


def _concretize_prim(tu, name, ins, rng):
    """search concrete limbs inside the input intervals for which exact C semantics wraps AND the field result is wrong"""
    tries = [[[x.hi for x in a] for a in ins], [[x.hi if k == 0 else x.lo for x in a] for k, a in enumerate(ins)],
             [[x.lo if k == 0 else x.hi for x in a] for k, a in enumerate(ins)]]
    for _ in range(200):
        tries.append([[rng.choice((x.lo, x.hi, rng.randint(x.lo, x.hi))) for x in a] for a in ins])
    for t in tries:
        out, ev = run_prim(tu, name, [[IV(v) for v in a] for a in t])
        if ev:
            va, vb = (sum(v << W[i] for i, v in enumerate(a)) for a in t)
            got = sum(o.lo << W[i] for i, o in enumerate(out)) % P25519
            want = {'mul_25519': va * vb, 'add_25519': va + vb, 'add32': va + vb, 'sub_25519': va - vb}[name] % P25519
            if got != want:
                return 'violated', {'a_limbs': [hex(v) for v in t[0]], 'b_limbs': [hex(v) for v in t[1]], 'C_result_mod_p': hex(got), 'field_result': hex(want),
                                    'events': ['line %s (%s): %s' % e for e in ev[:3]]}, 'concrete limbs inside the precondition give a wrong field value'
    return 'undecided', None, 'no concrete limbs found for which the result is wrong'


def _concretize_function(tu, R, f, cfg, inv, raw, rng):
    """concrete runs of the whole function: returns {call ordinal: witness} for calls whose clause breaks on concrete limbs"""
    found = {}
    for k in range(40):
        def gen(role):
            b = inv if role == 'inv' else raw
            if k == 0:
                return RV([IV(x - 1) for x in b])
            return RV([IV(rng.choice((x - 1, rng.randrange(x), rng.randrange(x)))) for x in b])
        inputs = []

        def gen2(role):
            r = gen(role)
            inputs.append([hex(x.lo) for x in r.items])
            return r
        try:
            calls, outs = type_function(tu, R, f, cfg, inv, raw, gen2)
        except (Unsupported, ival.IvUnsupported):
            continue
        for c in calls:
            if not c['ok'] and c['ord'] not in found:
                found[c['ord']] = {'input_limb_vectors_in_setup_order': inputs, 'call': '#%d %s at line %s' % (c['ord'], c['prim'], c['line']),
                                   'argument_a': [hex(lo) for lo, _ in c['args']['a']], 'argument_b': [hex(lo) for lo, _ in c['args']['b']], 'broken': c['why'][:3]}
        if found and k >= 3:
            break
    return found


# ------------------------------------------------------------------------------------------------ entry invariant (opt-in, see NOTES.md)
def entry_invariant(prop='C05', src_dir='/repo/src', cfiles=None):
    """Does ed25519_new_point establish the point invariant INV for the coordinates it stores?  NOT on the pinned tree: it stores
    convert_be8_to_le25p5(x) for ANY 32-byte x that is congruent to a curve point's x, e.g. x0 + p, whose limbs 8 and 9 are
    2^26 - 1.  sub_25519(zero, X) -- ed25519_neg -- then wraps below zero and returns -x + 2432.  This unit is not part of
    all_units(); it reports one `violated` obligation with a witness replayed on the installed _ed25519 .so through ctypes."""
    from contracts.ec import ranges25519 as R
    from spec import curves as C
    t0 = time.time()
    cfiles = cfiles or {}
    tu = cast.load_tu(cfiles.get('ed25519.c') or os.path.join(src_dir, 'ed25519.c'))
    inv, _ = compute_invariant(tu, R)
    raw_out = [None] * 10
    ival.Interp(tu).call('convert_le64_to_le25p5', [raw_out, [IV(0, 2 ** 64 - 1)] * 4])
    ok = all(o.hi < b for o, b in zip(raw_out, inv))
    clause = ('ed25519_new_point stores coordinates whose limbs satisfy the point invariant INV under which the range proof of '
              'ed25519_add_internal / ed25519_double_internal / ed25519_neg (sub_25519 operands) holds')
    rid = '%s.ranges25519.ed25519_new_point.ensures.establishes_limb_invariant' % prop
    if ok:
        r = _res(prop, 'ed25519_new_point', 'ensures', 'establishes_limb_invariant', clause, 'discharged', 'raw conversion bounds are inside INV', t0)
        r['id'] = rid
        return {'functions': [], 'results': [r], 'assumptions': [], 'trusted': []}
    # concrete witness: x0 = p - t (small t) is the x of a curve point; submit the non-canonical x0 + p = 2^256 - 38 - t
    p, d = C.ED25519['p'], C.ED25519['d']
    wit, replayed, replay, status, detail = None, False, None, 'undecided', 'interval analysis: converted limbs %s exceed INV %s' % ([hex(o.hi) for o in raw_out], [hex(b - 1) for b in inv])
    for t in range(1, 200):
        y = C.sqrt_mod((1 + t * t) * pow((1 - d * t * t) % p, -1, p) % p, p)
        if y is None:
            continue
        x = 2 * p - t
        limbs = [None] * 10
        ival.Interp(tu).call('convert_le64_to_le25p5', [limbs, [IV((x >> (64 * i)) & (2 ** 64 - 1)) for i in range(4)]])
        if all(l.lo < b for l, b in zip(limbs, inv)):
            continue
        out = [None] * 10
        it = ival.Interp(tu)
        it.call('sub_25519', [out, [IV(0)] * 10, limbs])
        got = sum(o.lo << W[i] for i, o in enumerate(out)) % p
        if got != (-x) % p:
            status = 'violated'
            wit = {'curve': 'Ed25519', 'x_submitted': hex(x), 'x_canonical': hex(p - t), 'y': hex(y), 'on_curve': C.ted_curve(p - t, y, -1, d) % p == 0,
                   'stored_X_limbs': [hex(l.lo) for l in limbs], 'INV_exclusive_bounds': [hex(b) for b in inv],
                   'consequence': 'sub_25519(zero, X) under exact C semantics = %s, field value of -x = %s (difference 2432 = 2^262 mod p)' % (hex(got), hex((-x) % p)),
                   'events': ['line %s (%s): %s' % e for e in it.events[:2]]}
            detail += ' | concrete accepted input whose stored limbs violate INV and make ed25519_neg wrong'
            replayed, replay = _replay_neg(x, y, t)
            break
    r = _res(prop, 'ed25519_new_point', 'ensures', 'establishes_limb_invariant', clause, status, detail, t0, wit)
    r['id'] = rid
    r['replayed'], r['replay'] = replayed, replay
    return {'functions': [], 'results': [r], 'assumptions': [], 'trusted': []}


def _replay_neg(x, y, t):
    code = ("import ctypes, glob\nL = ctypes.CDLL(glob.glob('/repo/lib/Crypto/PublicKey/_ed25519*.so')[0])\nP = ctypes.c_void_p()\n"
            "assert L.ed25519_new_point(ctypes.byref(P), (%s).to_bytes(32,'big'), (%s).to_bytes(32,'big'), ctypes.c_size_t(32), None) == 0   # accepted\n"
            "assert L.ed25519_neg(P) == 0\nxb = ctypes.create_string_buffer(32); yb = ctypes.create_string_buffer(32)\n"
            "assert L.ed25519_get_xy(xb, yb, ctypes.c_size_t(32), P) == 0\nprint(int.from_bytes(xb.raw,'big'))   # group law: %d\n" % (hex(x), hex(y), t))
    rec = {'how': 'python3-vt, ctypes on the installed _ed25519 .so (C API level; EccPoint.__neg__ canonicalises through copy() first and is not affected)', 'code': code,
           'expected': t}
    try:
        import ctypes
        import glob
        L = ctypes.CDLL(glob.glob('/repo/lib/Crypto/PublicKey/_ed25519*.so')[0])
        P = ctypes.c_void_p()
        if L.ed25519_new_point(ctypes.byref(P), x.to_bytes(32, 'big'), y.to_bytes(32, 'big'), ctypes.c_size_t(32), None) != 0:
            rec['installed_library_result'] = 'point refused'
            return False, rec
        L.ed25519_neg(P)
        xb, yb = ctypes.create_string_buffer(32), ctypes.create_string_buffer(32)
        L.ed25519_get_xy(xb, yb, ctypes.c_size_t(32), P)
        L.ed25519_free_point(P)
        got = int.from_bytes(xb.raw, 'big')
        rec['installed_library_result'] = got
        return got != t, rec
    except Exception as ex:     # noqa
        rec['error'] = repr(ex)
        return False, rec
