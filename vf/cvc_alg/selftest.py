"""python3-vt -m vf.cvc_alg.selftest [--jobs N] [--only substr] [--src DIR]

(i)   every registered obligation of algebraic mode on the UNCHANGED tree: per-function counts and seconds;
(ii)  breaking textual mutants applied to temp COPIES of the C files: each must be `violated` on a named obligation, with a
      concrete witness where the obligation is a formula identity;
(iii) benign refactorings: must stay fully discharged.
Exit code 0 iff all three hold.  Nothing is written outside a fresh temp directory, which is removed."""
import argparse
import multiprocessing as mp
import os
import shutil
import sys
import tempfile
import time


def _job(args):
    kind, prop, module, functions, cfile, tag = args
    t0 = time.time()
    os.environ.setdefault('VERIF_SEED', '0')
    try:
        if kind == 'module':
            from .units import run_module
            r = run_module(prop, module, functions, cfile)
        elif kind == 'constants':
            from .units import constants_unit
            r = constants_unit(prop).run()
        elif kind == 'ranges':
            from .units import range_unit
            r = range_unit(prop, cfiles=cfile).run()
        else:
            raise ValueError(kind)
    except Exception as ex:     # noqa
        import traceback
        r = {'functions': [], 'results': [{'id': '%s.%s.crash' % (prop, tag), 'kind': 'engine', 'clause': 'engine ran', 'status': 'error', 'backend': '', 'seconds': 0,
                                           'detail': '%r\n%s' % (ex, traceback.format_exc()[-2000:]), 'witness': None}]}
    r['tag'] = tag
    r['wall'] = time.time() - t0
    return r


def summarize(rs):
    n = len(rs)
    by = {}
    for r in rs:
        by[r['status']] = by.get(r['status'], 0) + 1
    return n, by


def main(argv=None):
    ap = argparse.ArgumentParser()
    ap.add_argument('--jobs', type=int, default=int(os.environ.get('VERIF_JOBS', '16')))
    ap.add_argument('--only', action='append')
    ap.add_argument('--src', default='/repo/src')
    ap.add_argument('--verbose', action='store_true')
    a = ap.parse_args(argv)
    from .units import MODULES, _load
    from .mutants import MUTANTS
    T0 = time.time()
    tmp = tempfile.mkdtemp(prefix='cvcalg_selftest_')
    ok = True
    try:
        # ------------------------------------------------------------------ (i) unchanged tree
        jobs = []
        for module in MODULES:
            m = _load(module)
            for fc in m.CONTRACTS:
                jobs.append(('module', fc.prop, module, [fc.function], os.path.join(a.src, fc.file), '%s:%s' % (fc.file, fc.function)))
        jobs.append(('constants', 'C06', None, None, None, 'constants (_nist_ecc.py, spec selfcheck)'))
        jobs.append(('ranges', 'C06', None, None, None, 'limb-range typing 25519'))
        mjobs = []
        stale = []
        for mu in MUTANTS:
            d = os.path.join(tmp, mu.name)
            os.makedirs(d)
            try:
                path = mu.apply(a.src, d)
            except ValueError as ex:
                stale.append((mu, str(ex)))
                continue
            if mu.module == 'ranges':
                cf = {f: os.path.join(d, f) for f in ('ed25519.c', 'curve25519.c') if os.path.exists(os.path.join(d, f))}
                mjobs.append(('ranges', 'C06', None, None, cf, 'mutant:' + mu.name))
                continue
            m = _load(mu.module)
            fc = [c for c in m.CONTRACTS if c.function == mu.function][0]
            mjobs.append(('module', fc.prop, mu.module, [mu.function], path, 'mutant:' + mu.name))
        if a.only:
            jobs = [j for j in jobs if any(o in j[5] for o in a.only)]
            mjobs = [j for j in mjobs if any(o in j[5] for o in a.only)]
        ctx = mp.get_context('fork')
        with ctx.Pool(min(a.jobs, max(1, len(jobs) + len(mjobs)))) as pool:
            outs = pool.map(_job, jobs + mjobs, chunksize=1)
        base, mres = outs[:len(jobs)], {o['tag']: o for o in outs[len(jobs):]}
        print('=' * 110)
        print('(i) unchanged tree %s   [clang-14 JSON AST re-read per unit; sympy exact normal forms]' % a.src)
        print('%-52s %-11s %5s %5s %5s %5s %7s' % ('function', 'status', 'oblig', 'disch', 'viol', 'undec', 'seconds'))
        tot = [0, 0, 0, 0]
        for o in base:
            n, by = summarize(o['results'])
            st = 'proved' if n and by.get('discharged', 0) == n else 'NOT-PROVED'
            if st != 'proved':
                ok = False
            print('%-52s %-11s %5d %5d %5d %5d %7.2f' % (o['tag'][:52], st, n, by.get('discharged', 0), by.get('violated', 0),
                                                         by.get('undecided', 0) + by.get('error', 0), o['wall']))
            tot[0] += n
            tot[1] += by.get('discharged', 0)
            tot[2] += by.get('violated', 0)
            tot[3] += by.get('undecided', 0) + by.get('error', 0)
            for r in o['results']:
                if r['status'] != 'discharged' or a.verbose:
                    print('      %-10s %s | %s' % (r['status'], r['id'], (r.get('detail') or '')[:300]))
        print('%-52s %-11s %5d %5d %5d %5d' % ('TOTAL', '', tot[0], tot[1], tot[2], tot[3]))
        # ------------------------------------------------------------------ (ii) / (iii) mutants
        print('=' * 110)
        print('(ii) breaking mutants on temp copies  /  (iii) benign refactorings')
        nb = ng = nu = 0
        for mu, why in stale:
            print('STALE   %-34s %s' % (mu.name, why))
            ok = False
        for mu in MUTANTS:
            o = mres.get('mutant:' + mu.name)
            if o is None:
                continue
            n, by = summarize(o['results'])
            viol = [r for r in o['results'] if r['status'] == 'violated']
            if mu.kind == 'breaking':
                good = bool(viol) and (mu.expect is None or any(mu.expect in r['id'] for r in viol))
                nb += good
                print('%-7s %-34s %s: %s' % ('CAUGHT' if good else 'MISSED', mu.name, mu.cfile, mu.what))
                print('        %d obligations: %d violated, %d undecided, %d discharged   (%.1f s)' % (n, len(viol), by.get('undecided', 0) + by.get('error', 0),
                                                                                                          by.get('discharged', 0), o['wall']))
                shown = 0
                for r in sorted(viol, key=lambda r: (mu.expect is None or mu.expect not in r['id'], r.get('witness') is None)):
                    if shown >= 2:
                        break
                    shown += 1
                    print('        violated %s' % r['id'])
                    print('          clause : %s' % r['clause'][:200])
                    print('          detail : %s' % (r.get('detail') or '')[:260])
                    w = r.get('witness')
                    if w:
                        keys = [k for k in ('curve', 'P1_affine', 'P2_affine', 'point', 'Q', 'R', 'C_formula_result_affine', 'group_law_result_affine', 'C_formula_x(2Q)', 'group_law_x(2Q)',
                                            'C_formula_x(Q+R)', 'group_law_x(Q+R)', 'differs', 'source_constant', 'standard', 'curve_test', 'concrete_input_on_this_path', 'failing_call', 'leaked',
                                            'call', 'argument_a', 'argument_b', 'a_limbs', 'b_limbs', 'C_result_mod_p', 'field_result', 'note') if k in w]
                        print('          witness: %s' % ', '.join('%s=%s' % (k, _sh(w[k])) for k in keys))
                        print('          replayed on installed library: %s%s' % (r.get('replayed'), ' (installed .so does not contain the mutation)' if not r.get('replayed') else ''))
                if not good:
                    ok = False
                    for r in o['results']:
                        if r['status'] != 'discharged':
                            print('        %s %s | %s' % (r['status'], r['id'], (r.get('detail') or '')[:200]))
            elif mu.kind == 'unsupported':
                good = not viol and by.get('undecided', 0) > 0
                nu += good
                print('%-7s %-34s %s: %s   -> %d undecided, %d violated (%.1f s)' % ('UNDECID' if good else 'WRONG', mu.name, mu.cfile, mu.what, by.get('undecided', 0), len(viol), o['wall']))
                for r in o['results']:
                    if r['status'] != 'discharged':
                        print('        %s %s | %s' % (r['status'], r['id'], (r.get('detail') or '')[:200]))
                if not good:
                    ok = False
            else:
                good = n > 0 and by.get('discharged', 0) == n
                ng += good
                print('%-7s %-34s %s: %s   -> %d/%d discharged (%.1f s)' % ('BENIGN' if good else 'BROKEN', mu.name, mu.cfile, mu.what, by.get('discharged', 0), n, o['wall']))
                if not good:
                    ok = False
                    for r in o['results']:
                        if r['status'] != 'discharged':
                            print('        %s %s | %s' % (r['status'], r['id'], (r.get('detail') or '')[:300]))
        print('=' * 110)
        nbr = sum(1 for m_ in MUTANTS if m_.kind == 'breaking' and 'mutant:' + m_.name in mres)
        nbe = sum(1 for m_ in MUTANTS if m_.kind == 'benign' and 'mutant:' + m_.name in mres)
        nun = sum(1 for m_ in MUTANTS if m_.kind == 'unsupported' and 'mutant:' + m_.name in mres)
        print('unchanged tree: %d obligations, %d discharged, %d violated, %d undecided | breaking mutants caught %d/%d | benign kept %d/%d | out-of-subset edits undecided %d/%d | wall %.1f s'
              % (tot[0], tot[1], tot[2], tot[3], nb, nbr, ng, nbe, nu, nun, time.time() - T0))
        print('SELFTEST %s' % ('OK' if ok else 'FAILED'))
    finally:
        shutil.rmtree(tmp, ignore_errors=True)
    return 0 if ok else 1


def _sh(v):
    s = str(v)
    return s if len(s) <= 90 else s[:60] + '..' + s[-12:]


if __name__ == '__main__':
    sys.exit(main())
