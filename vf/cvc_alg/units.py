"""Unit builders for the runner (vf/core.py, vf/README_UNITS.md).

    from vf.cvc_alg.units import ec_unit, constants_unit, range_unit, all_units
    ec_unit('C06', 'alg.ec_ws.ec_full_add', 'ec_ws', functions=['ec_full_add'])
    all_units('C06')            # every algebraic-mode unit whose contract belongs to C06 (all_units('C05'): the on-curve tests)

`cfile` / `src_dir` select the C file (default /repo/src/<file of the contract module>); it is parsed again on every run."""
import importlib
import os
import time
import traceback

from ..core import Unit

MODULES = ('ec_ws', 'ed25519', 'ed448', 'curve25519', 'curve448')
TRUSTED_COMMON = [
    'CVC algebraic mode: limb arrays abstracted to field elements; field primitives replaced by their ASSUMED contracts (contracts/ec/primitives.py)',
]


def _load(module):
    return importlib.import_module('contracts.ec.' + module)


def run_module(prop, module, functions=None, cfile=None, src_dir='/repo/src', robustness=False, seed=None):
    """plain-data result dict for one contract module (used by the units and by the self-test)"""
    from . import cast, check
    from contracts.ec import primitives
    seed = int(os.environ.get('VERIF_SEED', '0') or 0) if seed is None else seed
    m = _load(module)
    out = {'functions': [], 'results': [], 'bounded': [], 'assumptions': [], 'trusted': list(TRUSTED_COMMON)}
    fcs = [fc for fc in m.CONTRACTS if (functions is None and fc.prop == prop) or (functions is not None and fc.function in functions)]
    if not fcs:
        out['results'].append({'id': '%s.%s.vacuity' % (prop, module), 'kind': 'vacuity', 'clause': 'the unit selects at least one contract', 'status': 'error',
                               'backend': 'engine', 'seconds': 0, 'detail': 'no contract selected (functions=%r)' % (functions,), 'witness': None, 'replayed': False})
        return out
    path = cfile or os.path.join(src_dir, fcs[0].file)
    try:
        tu = cast.load_tu(path)
    except Exception as ex:     # noqa
        for fc in fcs:
            out['results'].append({'id': '%s.%s.%s.engine.parse' % (prop, fc.area, fc.function), 'kind': 'engine', 'clause': 'clang parses the translation unit',
                                   'status': 'undecided', 'backend': 'clang', 'seconds': 0, 'detail': str(ex)[-1500:], 'witness': None, 'replayed': False})
        return out
    used = set()
    fam = set()
    for fc in fcs:
        try:
            frec, res, u = check.verify_function(tu, fc, prop=prop, seed=seed, robustness=robustness)
        except Exception as ex:     # noqa
            frec = {'target': 'src/%s:%s' % (fc.file, fc.function), 'engine': 'CVC-alg', 'status': 'error', 'obligations': 0}
            res = [{'id': '%s.%s.%s.engine.crash' % (prop, fc.area, fc.function), 'kind': 'engine', 'clause': 'engine ran', 'status': 'error', 'backend': 'engine',
                    'seconds': 0, 'detail': '%r\n%s' % (ex, traceback.format_exc()[-2500:]), 'witness': None, 'replayed': False}]
            u = set()
        # the normal units and the robustness units partition the obligations (no duplicate ids when both are registered)
        res = [r for r in res if (r['kind'] == 'robustness') == bool(robustness) or r['kind'] in ('engine',) or r['status'] == 'error']
        frec['obligations'] = len(res)
        out['functions'].append(frec)
        out['results'] += res
        out['trusted'] += list(fc.trusted)
        used |= u
        fam.add(fc.family)
    tab = {}
    tab.update(primitives.MONT)
    tab.update(primitives.F25519)
    for nm in sorted(used):
        if nm in tab:
            out['assumptions'].append('assumed contract: %s(%s): %s' % (nm, ', '.join(tab[nm]['params']), tab[nm]['text']))
            out['functions'].append({'target': 'src/%s:%s' % ('mont.c' if nm.startswith('mont_') else 'mod25519.c', nm), 'engine': 'CVC-alg', 'status': 'assumed',
                                     'obligations': 0})
    if not robustness:
        out['assumptions'].append('allocations and assumed constructors (calloc, mont_new_number, mont_new_from_bytes, mont_context_init, ...) succeed; '
                                  'their failure paths are explored only by the robustness units')
    out['trusted'] = sorted(set(out['trusted']))
    out['trusted'].append('clang command: ' + tu.clang_cmd)
    return out


def ec_unit(prop, uid, module, functions=None, cfile=None, src_dir='/repo/src', robustness=False, tiers=('quick', 'thorough'), weight=2):
    def run():
        return run_module(prop, module, functions, cfile, src_dir, robustness)
    return Unit(uid, run, 'cvc-alg', tiers, weight)


def constants_unit(prop='C06', uid='alg.constants', nist_py='/repo/lib/Crypto/PublicKey/_nist_ecc.py', tiers=('quick', 'thorough')):
    """FIPS 186-4 values in _nist_ecc.py + the mathematical self-check of spec/curves.py"""
    def run():
        from . import check
        from contracts.ec import ec_ws
        from spec import curves
        t0 = time.time()
        nc = ec_ws.NistConstants()
        res = []
        for ob in nc.results(nist_py):
            st, be, det, wit, rp, rpl = check.check_ob(nc, None, ob, None)
            r = check._mk(prop, _FC(nc), ob, None, st, be, 0, det, witness=wit)
            res.append(r)
        for name, ok in curves.selfcheck():
            res.append({'id': '%s.spec.curves.selfcheck.%s' % (prop, name.replace(' ', '_').replace(':', '')), 'kind': 'constant', 'clause': 'spec/curves.py transcription: ' + name,
                        'status': 'discharged' if ok else 'error', 'backend': 'cpython', 'seconds': 0, 'detail': 'computed', 'witness': None, 'replayed': False})
        return {'functions': [{'target': 'lib/Crypto/PublicKey/_nist_ecc.py:p*_curve constants', 'engine': 'CVC-alg', 'status': 'proved' if all(r['status'] == 'discharged' for r in res) else 'not-proved',
                               'obligations': len(res), 'seconds': round(time.time() - t0, 2)}],
                'results': res, 'assumptions': [], 'trusted': ['spec/curves.py is a faithful transcription of FIPS 186-4 D.1.2, RFC 8032, RFC 7748 (validated mathematically by its selfcheck)']}
    return Unit(uid, run, 'cvc-alg', tiers, 1)


class _FC:
    """adapter so that check._mk can name a non-function contract"""

    def __init__(self, c):
        self.area, self.function, self.configs, self.file = c.area, c.function, ('only',), '_nist_ecc.py'


def range_unit(prop='C06', uid='alg.ranges25519', src_dir='/repo/src', cfiles=None, tiers=('quick', 'thorough')):
    def run():
        from . import ranges
        return ranges.run(prop, src_dir=src_dir, cfiles=cfiles)
    return Unit(uid, run, 'cvc-alg', tiers, 1)


def robustness_units(prop, src_dir='/repo/src'):
    """failure paths (allocation / constructor failure, bad lengths) of the point constructors: error code, no dangling pointer, no leak.
    NOT all discharged on the pinned tree: see NOTES.md (ed448_new_point returns 0 with a NULL point; new_workplace leaks)."""
    us = []
    for module, fn in (('ec_ws', 'ec_ws_new_point'), ('ed25519', 'ed25519_new_point'), ('ed448', 'ed448_new_point')):
        if _load(module) and prop == 'C05':
            us.append(ec_unit(prop, 'alg.robustness.%s' % fn, module, [fn], src_dir=src_dir, robustness=True))
    return us


def entry_invariant_unit(prop='C05', uid='alg.ranges25519.entry_invariant', src_dir='/repo/src', tiers=('quick', 'thorough')):
    """opt-in: does ed25519_new_point establish the limb invariant?  VIOLATED on the pinned tree with a replayed witness (NOTES.md, finding F3)"""
    def run():
        from . import ranges
        return ranges.entry_invariant(prop, src_dir=src_dir)
    return Unit(uid, run, 'cvc-alg', tiers, 1)


def all_units(prop, src_dir='/repo/src', robustness=False):
    us = []
    for module in MODULES:
        m = _load(module)
        for fc in m.CONTRACTS:
            if fc.prop != prop:
                continue
            us.append(ec_unit(prop, 'alg.%s.%s' % (module, fc.function), module, [fc.function], src_dir=src_dir, robustness=robustness))
    if prop == 'C06':
        us.append(constants_unit(prop, nist_py=os.path.join(os.path.dirname(src_dir.rstrip('/')), 'lib', 'Crypto', 'PublicKey', '_nist_ecc.py')))
        us.append(range_unit(prop, src_dir=src_dir))
    return us
