"""Concrete counter-example support: random valid inputs on the REAL curves over their REAL primes (python ints), exact
evaluation of the symbolic C results there, and replay against the installed library.

replayed is True only if the INSTALLED library disagrees with the independent big-int oracle of spec/curves.py.  The installed
.so files were compiled from /repo/src at build time: they do not reflect an edited C file or a mutated temp copy, and the replay
record says so."""
from spec import curves as C
from . import poly

SO_NOTE = ('the installed Crypto .so was compiled earlier; it reflects neither later edits of /repo/src nor a mutated temp copy, '
           'so replayed=False does not contradict the violated obligation (which is about the C file named in `source`)')


def ev(expr, asg, p):
    """value mod p of a (rational) expression; None if the denominator vanishes"""
    n, d = poly.eval_mod(expr, asg, p)
    if d == 0:
        return None
    return n * pow(d, -1, p) % p


def proj_to_affine(X, Y, Z, p):
    if Z % p == 0:
        return None
    zi = pow(Z, -1, p)
    return (X * zi % p, Y * zi % p)


def hx(v):
    if v is None:
        return None
    if isinstance(v, tuple):
        return [hx(x) for x in v]
    return hex(v)


# ------------------------------------------------------------------------------------------------ Weierstrass
def ws_sample(rng, names=('P-256', 'P-384', 'P-224', 'P-521', 'P-192')):
    nm = names[rng.randrange(len(names))]
    E = C.WsCurve(nm)
    p = E.p
    P = E.random_point(rng)
    while True:
        Q = E.random_point(rng)
        if Q[0] != P[0]:
            break
    z1, z2, lam, mu = (rng.randrange(1, p) for _ in range(4))
    asg = {'x1': P[0], 'y1': P[1], 'x2': Q[0], 'y2': Q[1], 'b': E.b, 'Z1': z1, 'Z2': z2, 'lam': lam, 'mu': mu,
           'X1': P[0] * z1 % p, 'Y1': P[1] * z1 % p, 'X2': Q[0] * z2 % p, 'Y2': Q[1] * z2 % p, 'x': P[0], 'y': P[1]}
    return asg, p, {'curve': nm, 'P': P, 'Q': Q}


def lib_ws(curve, op, P, Q=None):
    """ask the installed library; returns affine (x, y) or None for the neutral element"""
    from Crypto.PublicKey.ECC import EccPoint
    a = EccPoint(P[0], P[1], curve=curve) if P is not None else EccPoint(0, 0, curve=curve)
    if op == 'double':
        r = a.copy().double()
    else:
        b = EccPoint(Q[0], Q[1], curve=curve) if Q is not None else EccPoint(0, 0, curve=curve)
        r = a + b
    if r.is_point_at_infinity():
        return None
    return (int(r.x), int(r.y))


def replay_ws(curve, op, P, Q, expected):
    code = ("from Crypto.PublicKey.ECC import EccPoint\n"
            "P = EccPoint(%s, %s, curve=%r)\n" % (hex(P[0]), hex(P[1]), curve))
    if op == 'double':
        code += "R = P.copy().double()\n"
    else:
        code += "Q = EccPoint(%s, %s, curve=%r)\nR = P + Q\n" % (hex(Q[0]), hex(Q[1]), curve)
    code += "print(None if R.is_point_at_infinity() else (hex(int(R.x)), hex(int(R.y))))   # group law says %s\n" % (hx(expected),)
    rec = {'how': 'python3-vt with PYTHONPATH=/verif:/repo/lib', 'code': code, 'expected_by_group_law': hx(expected), 'note': SO_NOTE}
    try:
        got = lib_ws(curve, op, P, Q)
        rec['installed_library_result'] = hx(got)
        return got != expected, rec
    except Exception as ex:     # noqa
        rec['installed_library_error'] = repr(ex)
        return False, rec


# ------------------------------------------------------------------------------------------------ Edwards
def ted_sample(rng, which):
    E = C.TedCurve(C.ED25519 if which == 'Ed25519' else C.ED448, which)
    p = E.p
    P = E.random_point(rng)
    Q = E.random_point(rng)
    z1, z2, lam, mu = (rng.randrange(1, p) for _ in range(4))
    asg = {'x1': P[0], 'y1': P[1], 'x2': Q[0], 'y2': Q[1], 'd': E.d, 'k': 2 * E.d % p, 'Z1': z1, 'Z2': z2, 'lam': lam, 'mu': mu,
           'X1': P[0] * z1 % p, 'Y1': P[1] * z1 % p, 'T1': P[0] * P[1] * z1 % p,
           'X2': Q[0] * z2 % p, 'Y2': Q[1] * z2 % p, 'T2': Q[0] * Q[1] * z2 % p, 'x': P[0], 'y': P[1]}
    return asg, p, {'curve': which, 'P': P, 'Q': Q}


def lib_ted(curve, op, P, Q=None):
    from Crypto.PublicKey.ECC import EccPoint
    a = EccPoint(P[0], P[1], curve=curve)
    if op == 'double':
        r = a.copy().double()
    else:
        r = a + EccPoint(Q[0], Q[1], curve=curve)
    return (int(r.x), int(r.y))


def replay_ted(curve, op, P, Q, expected):
    code = ("from Crypto.PublicKey.ECC import EccPoint\n"
            "P = EccPoint(%s, %s, curve=%r)\n" % (hex(P[0]), hex(P[1]), curve))
    if op == 'double':
        code += "R = P.copy().double()\n"
    else:
        code += "Q = EccPoint(%s, %s, curve=%r)\nR = P + Q\n" % (hex(Q[0]), hex(Q[1]), curve)
    code += "print(hex(int(R.x)), hex(int(R.y)))   # group law says %s\n" % (hx(expected),)
    rec = {'how': 'python3-vt with PYTHONPATH=/verif:/repo/lib', 'code': code, 'expected_by_group_law': hx(expected), 'note': SO_NOTE}
    try:
        got = lib_ted(curve, op, P, Q)
        rec['installed_library_result'] = hx(got)
        return got != expected, rec
    except Exception as ex:     # noqa
        rec['installed_library_error'] = repr(ex)
        return False, rec


# ------------------------------------------------------------------------------------------------ Montgomery
def mont_sample(rng, which):
    E = C.MontCurve(C.X25519 if which == 'Curve25519' else C.X448, which)
    p = E.p
    while True:
        Q = E.random_point(rng)
        R = E.random_point(rng)
        if Q[0] != R[0]:
            break
    D = E.add(R, (Q[0], -Q[1] % p))        # P = R - Q, the fixed difference
    z2, z3 = rng.randrange(1, p), rng.randrange(1, p)
    asg = {'xq': Q[0], 'yq': Q[1], 'xr': R[0], 'yr': R[1], 'z2': z2, 'z3': z3, 'A': E.A, 'a24': (E.A + 2) // 4,
           'X1': D[0], 'X2': Q[0] * z2 % p, 'Z2': z2, 'X3': R[0] * z3 % p, 'Z3': z3}
    return asg, p, {'curve': which, 'Q': Q, 'R': R, 'P=R-Q': D}


def replay_mont_scalar(curve, u, k, bits):
    """scalar multiplication through the installed library vs the RFC 7748 ladder oracle (no clamping at this API level)"""
    E = C.MontCurve(C.X25519 if curve == 'Curve25519' else C.X448, curve)
    exp = E.x_only_mul(k, u, bits)
    code = ("from Crypto.PublicKey.ECC import EccXPoint\n"
            "print(hex(int((EccXPoint(%s, curve=%r) * %s).x)))   # RFC 7748 ladder says %s\n" % (hex(u), curve, hex(k), hex(exp)))
    rec = {'how': 'python3-vt with PYTHONPATH=/verif:/repo/lib', 'code': code, 'expected_by_rfc7748_ladder': hex(exp), 'note': SO_NOTE}
    try:
        from Crypto.PublicKey.ECC import EccXPoint
        got = int((EccXPoint(u, curve=curve) * k).x)
        rec['installed_library_result'] = hex(got)
        return got != exp, rec
    except Exception as ex:     # noqa
        rec['installed_library_error'] = repr(ex)
        return False, rec
