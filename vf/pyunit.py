"""Glue: PYVC contracts -> runner units."""
import os
import time

from .core import Unit


def reveal_search(reg, c, info, seed):
    """a proof with opaque spec functions failed: look for a concrete failing input by verifying the same function again with
    every spec function revealed (short budget; only confirmed, natively replayed violations are taken from this run)"""
    import copy
    from .pyvc.verify import verify_contract
    c2 = copy.copy(c)
    c2.opaque = set()
    c2.instances = {}
    try:
        info2 = verify_contract(reg, c2, timeout_ms=12000, seed=seed, budget_s=float(os.environ.get('VERIF_REVEAL_BUDGET_S', '150')))
    except Exception:      # noqa
        return
    confirmed = [r for r in info2['results'] if r.status == 'violated' and r.replayed]
    if not confirmed:
        return
    by_clause = {}
    for r in confirmed:
        by_clause.setdefault((r.kind, r.clause), r)
    anyc = confirmed[0]
    for r in info['results']:
        if r.status == 'violated' and r.needs_reveal:
            m = by_clause.get((r.kind, r.clause), anyc)
            r.witness, r.replayed, r.replay = m.witness, True, m.replay
            r.detail += ' | concrete failing input found with the spec functions revealed (obligation %s): confirmed by native replay' % m.oid


def candidate_search(reg, c, info):
    """the solver left an obligation undecided (typically: the counter-model needs non-linear or number-theoretic reasoning).  If the
    contract names boundary inputs (option `candidates`: a list of {parameter: value}), run the REAL function on each and evaluate
    the clause on the concrete pre/post states: a candidate that breaks it natively is a failing input -> violated, replayed.  Nothing
    else changes: no candidate found leaves the obligation undecided, and the candidates are never consulted by a proof."""
    from .pyvc import replay as rp
    from .pyvc.verify import jsonable
    cands = c.options.get('candidates')
    if not cands:
        return
    if callable(cands):
        cands = cands()
    for r in info['results']:
        if r.status != 'undecided' or r.kind not in ('raises_only', 'raises_iff', 'ensures', 'on_raise'):
            continue
        for cand in cands:
            d = {'id': r.oid, 'kind': r.kind, 'clause': r.clause, 'witness': jsonable(cand)}
            try:
                rp.replay_violation(reg, c, d)
            except Exception:      # noqa  (not replayable: next candidate)
                continue
            if d.get('replayed'):
                r.status = 'violated'
                r.witness, r.replayed, r.replay = cand, True, d.get('replay')
                r.detail = ((r.detail or '') + ' | the solver left this obligation undecided; a boundary candidate named by the contract '
                            'breaks the clause on the real code (native replay confirmed)')
                break


def pyvc_unit(prop, uid, build_registry, targets, timeout_ms=None, tiers=('quick', 'thorough'), weight=1, tag=None, fix=None):
    """targets: list of contract target names (all verified in one worker, sharing the registry)"""

    def run():
        from .pyvc.verify import verify_contract
        from .pyvc import replay as rp
        reg = build_registry()
        seed = int(os.environ.get('VERIF_SEED', '0') or 0)
        out = {'functions': [], 'results': [], 'assumptions': [], 'trusted': []}
        for t in targets:
            c = reg.contracts[t]
            if fix:
                # finite-domain parameter instantiated per value (exhaustive in that parameter, unbounded in the data)
                c.params = dict(c.params)
                for k, v in fix.items():
                    c.params[k] = ('const', v)
            info = verify_contract(reg, c, timeout_ms=timeout_ms, seed=seed)
            nres = len(info['results'])
            ok = info['status'] == 'ok' and all(r.status == 'discharged' for r in info['results'])
            out['functions'].append({'target': t, 'engine': 'PYVC', 'status': 'proved' if ok else info['status'] if info['status'] != 'ok' else 'not-proved',
                                     'source': info.get('source'), 'paths': info.get('paths'), 'obligations': nres,
                                     'entry_states': info.get('entry_states'), 'seconds': round(info.get('seconds', 0), 2)})
            if any(r.status == 'violated' and r.needs_reveal for r in info['results']):
                reveal_search(reg, c, info, seed)
            if any(r.status == 'undecided' for r in info['results']):
                candidate_search(reg, c, info)
            if info['status'] != 'ok' and not info['results']:
                out['results'].append({'id': '%s.%s.status' % (prop, t.replace('Crypto.', '')), 'kind': 'structure', 'clause': 'function verified',
                                       'status': 'error' if info['status'] == 'error' else 'undecided', 'backend': '', 'seconds': 0,
                                       'detail': info.get('reason', ''), 'witness': None, 'target': t})
            for r in info['results']:
                d = r.as_dict()
                d['id'] = '%s.%s' % (prop, d['id'])
                if fix:
                    d['path'] = (d.get('path') or '') + ' ' + ','.join('%s=%r' % kv for kv in sorted(fix.items()))
                d['target'] = t
                if info['status'] == 'error':
                    d['status'] = 'error'
                if d['status'] == 'violated' and d.get('replayed') is None:
                    d['replayed'] = False
                out['results'].append(d)
            # contracts this proof relied on
            for q in sorted(getattr(reg, 'used', set())):
                pass
        for q in sorted(reg.used):
            cc = reg.contracts.get(q)
            if cc is not None and cc.assumed:
                out['assumptions'].append('assumed contract of callee %s (%s)' % (q, cc.assumed))
            elif cc is None:
                out['assumptions'].append('modelled callee %s' % q)
        return out
    return Unit(uid, run, 'pyvc', tiers, weight)
