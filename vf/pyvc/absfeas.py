"""Opt-in feasibility check over an ABSTRACTION of the sequence theory (contract option `feas_abstract_seq`).

Why: z3 needs 0.4 s (64 octets) .. 3 s (114 octets) to BUILD A MODEL as soon as the path condition mentions a long byte string
(`Length(sig) == 114`, a 32-octet literal under an uninterpreted hash ...), so every satisfiable feasibility query of a function
that handles fixed-size strings runs into the FEAS time-out.  Path exploration of eddsa._verify_ed25519: 572 queries = 200 s,
while its 30 obligations are discharged in 0.2 s.

What: for the FEASIBILITY query only (Engine.feasible: branch pruning during path exploration; never for an obligation, never
for Engine.implied), every sequence-sorted constant becomes a constant of an uninterpreted sort and every operator with a
sequence argument or result (concat, extract, unit, nth, length, be/le, spec symbols ...) becomes an uninterpreted function;
= / distinct / ite are kept.  A few true facts keep the precision that guard-style code needs:
    len(x) >= 0,  len(empty) == 0,  len(unit(b)) == 1,  len(a ++ b) == len(a) + len(b)      (for the terms that occur)

Soundness: STRICTLY an over-approximation.  Every model of the exact path condition induces a model of the abstract one
(interpret the abstract sort as the set of sequences and each function as the operator it stands for; the added facts hold of
the real operators), hence `unsat` of the abstraction implies `unsat` of the exact condition = the branch is infeasible.
Any other answer (sat, unknown, time-out, an exception inside this module) means "feasible": the branch is explored and its
obligations are then proved against the EXACT path condition.  The only possible loss is less pruning.
"""
import z3

_memo = {}          # ast id -> (original term [kept alive: ids are only unique among live terms], abstract term, {id: length term})
_ufs = {}
_sorts = {}


def _is_seq(s):
    return s.kind() == z3.Z3_SEQ_SORT


def _asort(s):
    if not _is_seq(s):
        return s
    k = str(s)
    if k not in _sorts:
        _sorts[k] = z3.DeclareSort('AbsSeq!%d' % len(_sorts))
    return _sorts[k]


def _uf(name, dom, rng, decl=None):
    """one uninterpreted function per ORIGINAL operator (name, kind, parameters) and abstract signature: two different
    operators must never share a symbol (the induced model interprets each symbol as the operator it stands for)"""
    ident = (decl.kind(), str(decl.params())) if decl is not None else ()
    key = (name, ident, tuple(str(d) for d in dom), str(rng))
    if key not in _ufs:
        _ufs[key] = z3.Function('abs!%s!%d' % (name, len(_ufs)), *(list(dom) + [rng]))
    return _ufs[key]


def _length_of(a, facts, depth=0):
    """abstract length term of the ORIGINAL sequence term a, with the true facts listed in the module docstring"""
    k = ('len', a.get_id())
    if k in _memo:
        _, r, mine = _memo[k]
        facts.update(mine)
        return r
    mine = {}
    aa = absterm(a, mine)
    r = _uf('seq.len', [aa.sort()], z3.IntSort())(aa)
    mine[('ge', r.get_id())] = r >= 0
    if z3.is_app(a) and depth < 40:
        kind = a.decl().kind()
        if kind == z3.Z3_OP_SEQ_EMPTY:
            mine[('v', r.get_id())] = r == 0
        elif kind == z3.Z3_OP_SEQ_UNIT:
            mine[('v', r.get_id())] = r == 1
        elif kind == z3.Z3_OP_SEQ_CONCAT:
            parts = [_length_of(c, mine, depth + 1) for c in a.children()]
            mine[('v', r.get_id())] = r == z3.Sum(parts)
    _memo[k] = (a, r, mine)
    facts.update(mine)
    return r


def absterm(t, facts):
    """the abstraction of term t; `facts` collects the true side facts (dict key -> Bool term) of the lengths met"""
    k = t.get_id()
    if k in _memo:
        _, r, mine = _memo[k]
        facts.update(mine)
        return r
    mine = {}
    if z3.is_app(t):
        d = t.decl()
        kids = t.children()
        seqish = _is_seq(t.sort()) or any(_is_seq(c.sort()) for c in kids)
        if seqish and d.kind() == z3.Z3_OP_SEQ_LENGTH:
            r = _length_of(kids[0], mine)
        else:
            ch = [absterm(c, mine) for c in kids]
            if not seqish:
                r = t if all(a.eq(b) for a, b in zip(ch, kids)) else d(*ch)
            elif d.kind() == z3.Z3_OP_EQ:
                r = ch[0] == ch[1]
            elif d.kind() == z3.Z3_OP_DISTINCT:
                r = z3.Distinct(*ch)
            elif d.kind() == z3.Z3_OP_ITE:
                r = z3.If(ch[0], ch[1], ch[2])
            elif not ch:
                # a sequence constant (uninterpreted, or the empty sequence)
                r = z3.Const('abs!%s' % d.name(), _asort(t.sort()))
            elif d.kind() == z3.Z3_OP_SEQ_CONCAT and len(ch) > 2:
                f = _uf(d.name(), [ch[0].sort(), ch[0].sort()], ch[0].sort(), d)
                r = ch[-1]
                for c in reversed(ch[:-1]):
                    r = f(c, r)
            else:
                r = _uf(d.name(), [c.sort() for c in ch], _asort(t.sort()), d)(*ch)
    else:
        # quantified formulas / bound variables are kept as they are: their sequence symbols are then simply unrelated to
        # the abstract ones (fewer constraints: still an over-approximation)
        r = t
    _memo[k] = (t, r, mine)
    facts.update(mine)
    return r


def feasible(E, st, extra, timeout_ms):
    """False only if the abstraction of pc (and extra) is unsatisfiable"""
    try:
        facts = {}
        s = z3.Solver()
        s.set('timeout', timeout_ms)
        for t in st.pc:
            s.add(absterm(t, facts))
        if extra is not None:
            s.add(absterm(extra, facts))
        for f in facts.values():
            s.add(f)
        return s.check() != z3.unsat
    except z3.Z3Exception:
        return True
