"""Sidecar contracts, their application at call sites, and the per-function verification driver.
See DESIGN.md 2.2 (contract language) and 2.7 (verdict protocol)."""
import ast
import itertools
import re
import time
import z3

from .values import *       # noqa
from .interp import Engine, State, Frame, exc, _MISSING, FuncV, ClassV, BoundV, BuiltinV, ModuleV, _EXC_CLASSES, FrozenDict
from . import loader


# ====================================================================== declarations

class ClassContract:
    def __init__(self, qualname, fields=None, valid=(), abstract=False, doc=''):
        self.qualname = qualname
        self.fields = fields or {}        # name (or 'name?' for optional) -> type spec
        self.valid = list(valid)
        self.abstract = abstract          # True: no source class (opaque native object)
        self.doc = doc


class Contract:
    def __init__(self, target, params=None, requires=(), ensures=None, raises=None, on_raise=None, modifies=None,
                 result=None, returns=None, sets=None, loops=None, inline=(), assumed=None, pure=False,
                 bv_width=None, covers=(), options=None, lemmas=None, doc='', self_type=None, raises_other='forbid',
                 asserts=None, ghost_init=None, prop=None, replay=None, unchanged_on_raise=None, opaque=(), instances=None):
        self.target = target
        self.params = params or {}
        self.requires = list(requires)
        self.ensures = _named(ensures)
        self.raises = raises or {}        # 'ValueError': ('iff'|'only_if', cond)
        self.on_raise = on_raise or {}    # 'TypeError': [clauses]
        self.modifies = modifies          # None = anything reachable; list/dict of paths
        self.result = result
        self.returns = returns
        self.sets = sets or {}
        self.loops = loops or {}
        self.inline = set(inline)
        self.assumed = assumed            # None (proved) | text naming the bounded harness or 'unchecked'
        self.pure = pure
        self.bv_width = bv_width
        self.covers = list(covers)
        self.options = options or {}
        self.lemmas = lemmas or {}
        self.doc = doc
        self.self_type = self_type
        self.raises_other = raises_other
        self.prop = prop
        self.replay = replay
        self.unchanged_on_raise = unchanged_on_raise
        self.opaque = set(opaque)
        # lemma calls (Dafny/Verus style): {'entry'|'exit': ['spec.mod.lemma_x(args)', ...]}.  Each clause must be a call of a spec
        # function registered in Registry.lemmas, i.e. one that has its own proof unit (`result` is True for ALL arguments, with
        # everything revealed); the instance is then assumed here, with the spec functions this proof keeps opaque left opaque.
        self.instances = instances or {}


def _named(x):
    if x is None:
        return {}
    if isinstance(x, dict):
        return dict(x)
    return {('e%d' % i): c for i, c in enumerate(x)}


class Registry:
    def __init__(self):
        self.contracts = {}
        self.classes = {}
        self.models = {}          # qualname -> callable(E, st, args, kwargs) -> outcomes
        self.overrides = {}       # qualname -> value
        self.opaque_call_hook = None
        self.spec_ufs = {}        # name -> z3 FuncDecl (uninterpreted spec symbols)
        self.active = None        # contract under verification
        self.force_inline = set()
        self.lemma_hooks = []
        self.used = set()
        self.opaque_now = set()   # spec functions treated as uninterpreted symbols in the current proof (opaque / reveal)
        self.lemmas = set()       # qualified names of spec lemma functions that have their own proof unit

    def add(self, c):
        if isinstance(c, ClassContract):
            self.classes[c.qualname] = c
        else:
            self.contracts[c.target] = c
        return c

    def model(self, qualname):
        def deco(fn):
            self.models[qualname] = fn
            return fn
        return deco

    def global_override(self, qualname):
        return self.overrides.get(qualname, _MISSING)

    def call_hook(self, E, qualname, st):
        if qualname in self.opaque_now or (qualname.startswith('spec.') and _always_uf(qualname)):
            return lambda E, st, args, kwargs, q=qualname: apply_opaque(E, q, st, args, kwargs)
        if qualname in self.force_inline or qualname in self.lemmas:
            return None        # a lemma's statement is always expanded where it is instantiated
        m = self.models.get(qualname)
        if m is not None:
            self.used.add(qualname)
            return m
        c = self.contracts.get(qualname)
        if c is not None:
            self.used.add(qualname)
            return lambda E, st, args, kwargs, c=c: apply_contract(E, c, st, args, kwargs)
        return None


# ====================================================================== types

def split_union(typ):
    if isinstance(typ, list):
        # explicit list of alternatives (each a type text, ('const', v) or ('make', fn, label))
        return [a for t in typ for a in split_union(t)]
    if not isinstance(typ, str):
        return [typ]
    out, depth, cur = [], 0, ''
    for ch in typ:
        if ch in '([{':
            depth += 1
        elif ch in ')]}':
            depth -= 1
        if ch == '|' and depth == 0:
            out.append(cur.strip())
            cur = ''
        else:
            cur += ch
    out.append(cur.strip())
    res = []
    for t in out:
        m = re.match(r"^enum\((.*)\)$", t)
        if m:
            for x in ast.literal_eval('(' + m.group(1) + ',)'):
                res.append(('const', x))
        elif t == 'buffer':
            res += ['bytes', 'bytearray', 'memoryview']
        else:
            res.append(t)
    return res


def fresh_typed(E, st, typ, name):
    """a fresh symbolic value of an atomic (non-union) type"""
    if isinstance(typ, tuple) and typ and typ[0] == 'const':
        return typ[1]
    if isinstance(typ, tuple) and typ and typ[0] == 'make':
        return typ[1](E, st, name)      # entry value built by the area module (e.g. a **kwargs dict with symbolic values)
    if not isinstance(typ, str):
        return typ                      # a concrete python value given directly
    alts = split_union(typ)
    if len(alts) != 1:
        raise Unsupported('union type %r where a single alternative is needed (%s)' % (typ, name))
    t = alts[0]
    if isinstance(t, tuple):
        return t[1]
    if t == 'int':
        return E.fresh_int(name)
    if t in ('nat', 'pos', 'byte'):
        v = E.fresh_int(name)
        st.assume(v.t >= (1 if t == 'pos' else 0))
        if t == 'byte':
            st.assume(v.t <= 255)
        return v
    m = re.match(r'^int\[(-?\w+)\.\.(-?\w+)\]$', t)
    if m:
        v = E.fresh_int(name)
        st.assume(z3.And(v.t >= int(m.group(1), 0), v.t <= int(m.group(2), 0)))
        return v
    if t == 'bool':
        return E.fresh_bool(name)
    if t in ('none', 'None'):
        return None
    if t in ('bytes', 'memoryview'):
        return E.fresh_bytes(name, t)
    m = re.match(r'^(bytes|memoryview|bytearray)\[(\d+)\]$', t)
    if m:
        v = E.fresh_bytes(name, 'bytes' if m.group(1) == 'bytearray' else m.group(1))
        st.assume(z3.Length(v.t) == int(m.group(2)))
        if m.group(1) == 'bytearray':
            return st.alloc(HObj('bytearray', items=v))
        return v
    m = re.match(r'^(bytes|memoryview)<(\d+)>$', t)
    if m:
        # exactly N bytes given as N individual symbolic bytes: the length is syntactic, so code that iterates over the
        # string (`for x in key`) can be unrolled
        n = int(m.group(2))
        units = [z3.Unit(E.fresh(BV8, '%s_%d' % (name, i))) for i in range(n)]
        return SBytes(z3.Empty(BYTES) if n == 0 else units[0] if n == 1 else z3.Concat(*units), m.group(1))
    if t == 'bytearray':
        return st.alloc(HObj('bytearray', items=E.fresh_bytes(name)))
    if t == 'str':
        return SStr('<%s>' % name)
    if t.startswith('any'):
        return SOpaque(E.fresh(ANY, name), t[4:] if t.startswith('any:') else 'any')
    if t.startswith('obj:'):
        return fresh_object(E, st, t[4:], name)
    if t.startswith('new:'):
        # a blank instance (as handed to __init__): no fields yet
        h = HObj('obj', cls=loader.find_class(t[4:]))
        h.ghost_id = t[4:]
        return st.alloc(h)
    m = re.match(r'^tuple\((.*)\)$', t)
    if m:
        parts = split_top(m.group(1), ',')
        return tuple(fresh_typed(E, st, p.strip(), '%s_%d' % (name, i)) for i, p in enumerate(parts))
    m = re.match(r'^list\((.*)\)$', t)
    if m:
        parts = [p for p in split_top(m.group(1), ',') if p.strip()]
        return st.alloc(HObj('list', items=[fresh_typed(E, st, p.strip(), '%s_%d' % (name, i)) for i, p in enumerate(parts)]))
    m = re.match(r'^dict\((.*)\)$', t)
    if m:
        # keyword record with exactly these (string) keys: dict(key:bytes, iv:bytes[16]); `dict()` is the empty dict.
        # Optional keys = a union of dict(...) alternatives at the top level of the parameter type.
        items = {}
        for p in split_top(m.group(1), ','):
            if p.strip():
                k, _, vt = p.partition(':')
                items[k.strip()] = fresh_typed(E, st, vt.strip(), '%s_%s' % (name, k.strip()))
        return st.alloc(HObj('dict', items=items))
    m = re.match(r'^module:(.*)$', t)
    if m:
        # a module of the tree under verification as a value (e.g. the `factory` argument of the mode constructors)
        return ModuleV(m.group(1), loader.load_module(m.group(1)))
    m = re.match(r'^const:(.*)$', t)
    if m:
        return ast.literal_eval(m.group(1))
    raise Unsupported('type spec %r' % (t,))


def split_top(s, sep):
    out, depth, cur = [], 0, ''
    for ch in s:
        if ch in '([{':
            depth += 1
        elif ch in ')]}':
            depth -= 1
        if ch == sep and depth == 0:
            out.append(cur)
            cur = ''
        else:
            cur += ch
    if cur.strip() or out:
        out.append(cur)
    return out


def fresh_object(E, st, qualclass, name, alts=None):
    """fresh instance of a class under class contract; union-typed fields must be resolved through `alts`
    (dict field -> atomic type); valid() is NOT assumed here"""
    cc = E.registry.classes.get(qualclass)
    if cc is None:
        raise Unsupported('no class contract for ' + qualclass)
    ci = None if cc.abstract else loader.find_class(qualclass)
    h = HObj('obj', cls=ci)
    h.ghost_id = qualclass
    ref = st.alloc(h)
    for fname, ftype in cc.fields.items():
        optional = fname.endswith('?')
        fname = fname.rstrip('?')
        options = split_union(ftype)
        if optional:
            options = options + ['absent']
        if len(options) == 1:
            st.heap[ref.oid].fields[fname] = fresh_typed(E, st, options[0], '%s.%s' % (name, fname))
        else:
            alts2 = []
            for o in options:
                if o == 'absent':
                    alts2.append((o, ABSENT))
                else:
                    alts2.append((o if isinstance(o, str) else repr(o[1]), fresh_typed(E, st, o, '%s.%s' % (name, fname))))
            st.heap[ref.oid].fields[fname] = make_lazy(E, st, alts2, name)
    for f, path in (getattr(cc, 'aliases', None) or {}).items():
        # field f holds the SAME object as `path` (e.g. {'_signer': 'self._omac[1]'}): set after construction as cc.aliases
        fr = Frame({'self': ref}, None)
        fr.spec_mode = True
        st.frames.append(fr)
        r = list(E.ev(ast.parse(path, mode='eval').body, st, []))
        st.frames.pop()
        if len(r) != 1:
            raise Unsupported('alias path %s' % path)
        st.heap[ref.oid].fields[f] = r[0][1]
    return ref


def make_lazy(E, st, alts2, name):
    sel = E.fresh(INT, 'sel_' + name)
    st.assume(z3.And(sel >= 0, sel < len(alts2)))
    return LazyUnion(alts2, name, sel)


def object_alternatives(E, qualclass):
    """union/optional fields are resolved lazily on first read (LazyUnion), so there is one entry alternative"""
    if E.registry.classes.get(qualclass) is None:
        raise Unsupported('no class contract for ' + qualclass)
    return [{}]


# ====================================================================== clause evaluation

def preprocess(clause):
    """`A ==> B` (lowest precedence, right associative) and `A <==> B` to function syntax, at every nesting level"""
    clause = clause.strip()
    for tok, fn in (('<==>', 'iff'), ('==>', 'implies')):
        parts = _split_token(clause, tok)
        if len(parts) > 1:
            if fn == 'iff':
                a, b = parts[0], tok.join(parts[1:])
                return 'iff(%s, %s)' % (preprocess(a), preprocess(b))
            return 'implies(%s, %s)' % (preprocess(parts[0]), preprocess(tok.join(parts[1:])))
    if '==>' not in clause:
        return clause
    # no arrow at this level: descend into bracketed groups
    out, i, n = '', 0, len(clause)
    in_str = None
    while i < n:
        ch = clause[i]
        if in_str:
            out += ch
            if ch == in_str and clause[i - 1] != '\\':
                in_str = None
            i += 1
            continue
        if ch in '"\'':
            in_str = ch
            out += ch
            i += 1
            continue
        if ch in '([{':
            close = {'(': ')', '[': ']', '{': '}'}[ch]
            depth, j = 1, i + 1
            while j < n and depth:
                if clause[j] in '([{':
                    depth += 1
                elif clause[j] in ')]}':
                    depth -= 1
                j += 1
            inner = clause[i + 1:j - 1]
            # comma-separated items are processed separately
            items = split_top(inner, ',')
            out += ch + ','.join(preprocess(x) if '==>' in x else x for x in items) + close
            i = j
            continue
        out += ch
        i += 1
    return out


def _split_token(s, tok):
    out, depth, i, cur = [], 0, 0, ''
    in_str = None
    while i < len(s):
        ch = s[i]
        if in_str:
            cur += ch
            if ch == in_str and s[i - 1] != '\\':
                in_str = None
            i += 1
            continue
        if ch in '"\'':
            in_str = ch
            cur += ch
            i += 1
            continue
        if ch in '([{':
            depth += 1
        elif ch in ')]}':
            depth -= 1
        if depth == 0 and s.startswith(tok, i) and not (tok == '==>' and i > 0 and s[i - 1] == '<'):
            out.append(cur)
            cur = ''
            i += len(tok)
            continue
        cur += ch
        i += 1
    out.append(cur)
    return out


_clause_cache = {}


def parse_clause(clause):
    if clause not in _clause_cache:
        _clause_cache[clause] = ast.parse(preprocess(clause), mode='eval').body
    return _clause_cache[clause]


class SpecEngineMixin:
    pass


def eval_value(E, clause, st, extra=None):
    """evaluate a spec expression to a single value (merging forks of int/bool/bytes values with If)"""
    node = parse_clause(clause) if isinstance(clause, str) else clause
    base_len = len(st.pc)
    s0 = st.fork()
    fr = s0.frame
    fr.spec_mode = True
    if extra:
        fr.env.update(extra)
    _install_spec_env(E, fr.env)
    sink = []
    results = list(E.ev(node, s0, sink))
    facts = []
    cases = []
    for s1, v in results:
        delta = s1.pc[base_len:]
        conds = []
        for t in delta:
            if t.get_id() in s1.facts:
                facts.append(t)
            else:
                conds.append(t)
        cases.append((conds, v, s1))
    raise_conds = []
    for o in sink:
        delta = o[1].pc[base_len:]
        conds = [t for t in delta if t.get_id() not in o[1].facts]
        facts.extend(t for t in delta if t.get_id() in o[1].facts)
        raise_conds.append((z3.And(conds) if conds else z3.BoolVal(True), o[2]))
    for t in facts:
        st.fact(t)
    return cases, raise_conds


def eval_clause(E, clause, st, extra=None):
    """boolean spec clause -> z3 Bool (or python bool).  A clause whose evaluation can raise is ill-defined there:
    that case counts as False."""
    cases, raise_conds = eval_value(E, clause, st, extra)
    conj = []
    for conds, v, s1 in cases:
        t = E.truth(v, s1)
        if isinstance(t, bool):
            t = z3.BoolVal(t)
        if conds:
            conj.append(z3.Implies(z3.And(conds) if len(conds) > 1 else conds[0], t))
        else:
            conj.append(t)
    for c, ex in raise_conds:
        conj.append(z3.Not(c))
    if not conj:
        return z3.BoolVal(True)
    r = z3.And(conj) if len(conj) > 1 else conj[0]
    return r


def eval_single(E, clause, st, extra=None):
    """a spec expression denoting one value; int/bool/bytes results of several cases are merged with If"""
    cases, raise_conds = eval_value(E, clause, st, extra)
    if not cases and not raise_conds:
        # every case was pruned: the state itself is infeasible (an earlier pruning query had timed out and kept it).  Pruning only
        # ever drops `unsat` paths, so evaluate again without pruning; whatever value results is read under an unsatisfiable pc
        E.no_prune = True
        try:
            cases, raise_conds = eval_value(E, clause, st, extra)
        finally:
            E.no_prune = False
    if not cases:
        raise Unsupported('spec expression has no value (it raises in every case): %s' % (clause if isinstance(clause, str) else ast.unparse(clause)))
    if len(cases) == 1:
        return cases[0][1]
    # merge
    vals = [c[1] for c in cases]
    if all(is_intlike(v) and not isinstance(v, (bool, SBool)) for v in vals):
        t = zint(vals[-1])
        for conds, v, _ in reversed(cases[:-1]):
            t = z3.If(z3.And(conds) if conds else z3.BoolVal(True), zint(v), t)
        return mk_int(t)
    if all(isinstance(v, (bool, SBool)) for v in vals):
        t = zbool(vals[-1])
        for conds, v, _ in reversed(cases[:-1]):
            t = z3.If(z3.And(conds) if conds else z3.BoolVal(True), zbool(v), t)
        return mk_bool(t)
    if all(is_byteslike(v) for v in vals):
        t = zbytes(vals[-1])
        for conds, v, _ in reversed(cases[:-1]):
            t = z3.If(z3.And(conds) if conds else z3.BoolVal(True), zbytes(v), t)
        return mk_bytes(t)
    if all(v is vals[0] or (not isinstance(v, SV) and v == vals[0]) for v in vals):
        return vals[0]
    raise Unsupported('spec expression forks into values that cannot be merged: %s' % clause)


def _install_spec_env(E, env):
    for nm, fn in SPEC_FORMS.items():
        env.setdefault(nm, BuiltinV('spec.' + nm, fn))
    if 'spec' not in env:
        m = loader.load_module('spec')
        if m is not None:
            env['spec'] = ModuleV('spec', m)


class SpecForm(BuiltinV):
    pass


def sf_implies(E, st, args, kw):
    a, b = args
    ta, tb = E.truth(a, st), E.truth(b, st)
    ta = z3.BoolVal(ta) if isinstance(ta, bool) else ta
    tb = z3.BoolVal(tb) if isinstance(tb, bool) else tb
    return [('val', st, mk_bool(z3.simplify(z3.Implies(ta, tb))))]


def sf_iff(E, st, args, kw):
    a, b = args
    ta, tb = E.truth(a, st), E.truth(b, st)
    ta = z3.BoolVal(ta) if isinstance(ta, bool) else ta
    tb = z3.BoolVal(tb) if isinstance(tb, bool) else tb
    return [('val', st, mk_bool(ta == tb))]


def sf_valid(E, st, args, kw, _depth=0):
    """object invariant of the class contract, and (recursively) of the objects its fields own"""
    ref = args[0]
    if not isinstance(ref, Ref) or _depth > 4:
        return [('val', st, True)]
    h = st.heap[ref.oid]
    q = getattr(h, 'ghost_id', None) or (h.cls.qualname if h.cls else None)
    cc = E.registry.classes.get(q)
    if cc is None and h.cls is not None:
        for c in h.cls.mro():
            cc = E.registry.classes.get(c.qualname)
            if cc:
                break
    if cc is None:
        return [('val', st, True)]
    conj = []
    for cl in cc.valid:
        conj.append(_as_z3(eval_clause(E, cl, st, {'self': ref})))
    for fname, v in list(h.fields.items()):
        if isinstance(v, Ref) and v.oid != ref.oid and st.heap[v.oid].kind == 'obj':
            r = sf_valid(E, st, [v], kw, _depth + 1)[0][2]
            if r is not True:
                conj.append(_as_z3(r if isinstance(r, bool) else zbool(r)))
    return [('val', st, mk_bool(z3.And(conj)) if conj else True)]


def sf_typeof(E, st, args, kw):
    from .models import b_type
    return b_type(E, st, args, kw)


def sf_exists_attr(E, st, args, kw):
    from .models import b_hasattr
    return b_hasattr(E, st, args, kw)


def sf_bytes_all(E, st, args, kw):
    """bytes_all(s, b): every byte of s equals b  (quantified; use sparingly)"""
    s, b = args
    i = E.fresh(INT, 'q')
    zs = zbytes(s)
    return [('val', st, mk_bool(z3.ForAll([i], z3.Implies(z3.And(i >= 0, i < z3.Length(zs)), zs[i] == z3.Int2BV(zint(b), 8)))))]


def sf_nth(E, st, args, kw):
    """nth(s, i): the i-th byte as an int, total (no IndexError): for spec use under a range hypothesis"""
    s, i = args
    from .ops import byte_int, seq_nth
    # (same element spelling as the code side builds: ops.seq_nth)
    return [('val', st, mk_int(byte_int(E, st, seq_nth(E, st, zbytes(s), zint(i)))))]


def sf_ite(E, st, args, kw):
    c, a, b = args
    t = E.truth(c, st)
    if isinstance(t, bool):
        return [('val', st, a if t else b)]
    if is_intlike(a) and is_intlike(b):
        return [('val', st, mk_int(z3.If(t, zint(a), zint(b))))]
    if is_byteslike(a) and is_byteslike(b):
        return [('val', st, mk_bytes(z3.If(t, zbytes(a), zbytes(b))))]
    raise Unsupported('ite on %r/%r' % (a, b))


def _bytes_of(st, v):
    """the current content of a bytearray reference, or the byte string itself"""
    if isinstance(v, Ref) and st.heap[v.oid].kind == 'bytearray':
        return st.heap[v.oid].items
    return v


def sf_be(E, st, args, kw):
    from .models import be_value
    return [('val', st, mk_int(be_value(E, st, zbytes(_bytes_of(st, args[0])))))]


def sf_le(E, st, args, kw):
    from .models import le_value
    return [('val', st, mk_int(le_value(E, st, zbytes(_bytes_of(st, args[0])))))]


def sf_i2osp(E, st, args, kw):
    from .models import i2osp_value
    x, n = args
    return [('val', st, mk_bytes(i2osp_value(E, st, zint(x), n)))]


def sf_i2le(E, st, args, kw):
    from .models import i2osp_value
    x, n = args
    return [('val', st, mk_bytes(i2osp_value(E, st, zint(x), n, little=True)))]


def sf_rep(E, st, args, kw):
    from .ops import replicate
    return [('val', st, replicate(E, args[0], args[1], st))]


def sf_pow2(E, st, args, kw):
    from .ops import pow2
    n = args[0]
    if isinstance(n, int):
        return [('val', st, 2 ** n)]
    return [('val', st, mk_int(pow2(E, st, zint(n))))]


SPEC_FORMS = {'be': sf_be, 'le': sf_le, 'i2osp': sf_i2osp, 'i2le': sf_i2le, 'rep': sf_rep, 'pow2': sf_pow2,
              'implies': sf_implies, 'iff': sf_iff, 'valid': sf_valid, 'bytes_all': sf_bytes_all, 'nth': sf_nth,
              'ite': sf_ite}


def _as_z3(g):
    return z3.BoolVal(g) if isinstance(g, bool) else g


from . import interp as _interp
for _nm, _fn in SPEC_FORMS.items():
    _interp.SPEC_BUILTINS[_nm] = BuiltinV('spec.' + _nm, _fn)


# `old(e)` and lazily evaluated forms need the AST, so they are handled in the evaluator:
_orig_e_Call = Engine.e_Call


def _e_Call(self, e, st, sink):
    if isinstance(e.func, ast.Name) and st.frames and st.frame.spec_mode:
        nm = e.func.id
        if nm == 'old' and nm not in st.frame.env.get('__shadow__', ()):
            snap = st.snap
            if snap is None:
                raise Unsupported('old() without a pre-state')
            s0 = snap.fork()
            s0.pc = list(st.pc)
            s0.facts = set(st.facts)
            s0.frame.spec_mode = True
            _install_spec_env(self, s0.frame.env)
            # names bound only in the post-state frame (e.g. quantifier-like helper names) are visible too
            for k, v in st.frame.env.items():
                if k not in s0.frame.env and not isinstance(v, Ref):
                    s0.frame.env[k] = v
            base = len(st.pc)
            v = eval_single(self, e.args[0], s0)
            s1 = s0
            for t in s1.pc[base:]:
                if t.get_id() in s1.facts:
                    st.fact(t)
                else:
                    st.pc.append(t)
            if isinstance(v, Ref):
                # an object of the pre-state: import a frozen copy so that field reads see old values
                v = _import_old(st, s1, v)
            return iter([(st, v)])
        if nm == 'implies' and len(e.args) == 2:
            def gen():
                for s1, a in self.ev(e.args[0], st, sink):
                    ta = self.truth(a, s1)
                    tz = z3.BoolVal(ta) if isinstance(ta, bool) else ta
                    yes, no = self.split(s1, tz)
                    if no is not None:
                        yield no, True
                    if yes is not None:
                        for s2, b in self.ev(e.args[1], yes, sink):
                            yield s2, b
            return gen()
        if nm == 'at' and len(e.args) == 2 and isinstance(e.args[0], ast.Constant):
            snap = st.labels.get(e.args[0].value)
            if snap is None:
                raise Unsupported('unknown label %r' % e.args[0].value)
            s0 = snap.fork()
            s0.pc = list(st.pc)
            s0.frame.spec_mode = True
            _install_spec_env(self, s0.frame.env)
            res = list(self.ev(e.args[1], s0, []))
            if len(res) != 1:
                raise Unsupported('at() is not a single value')
            return iter([(st, res[0][1])])
    return _orig_e_Call(self, e, st, sink)


def _import_old(st, old_st, ref):
    """copy an object graph of the pre-state into st under fresh ids (read-only view of old values)"""
    memo = st.ghost.setdefault('_old_import', {})
    memo = dict(memo)
    st.ghost['_old_import'] = memo

    def imp(v):
        if isinstance(v, Ref):
            if v.oid in memo:
                return Ref(memo[v.oid])
            h = old_st.heap[v.oid]
            nh = HObj(h.kind, h.cls)
            if hasattr(h, 'ghost_id'):
                nh.ghost_id = h.ghost_id
            nref = st.alloc(nh)
            memo[v.oid] = nref.oid
            nh.fields = {k: imp(x) for k, x in h.fields.items()}
            if isinstance(h.items, list):
                nh.items = [imp(x) for x in h.items]
            elif isinstance(h.items, dict):
                nh.items = {k: imp(x) for k, x in h.items.items()}
            else:
                nh.items = h.items
            return nref
        if isinstance(v, tuple):
            return tuple(imp(x) for x in v)
        return v
    return imp(ref)


Engine.e_Call = _e_Call


# ====================================================================== contract application at call sites

def resolve_exc(E, name, module):
    if name in _EXC_CLASSES:
        return PyClassV(_EXC_CLASSES[name])
    if name == 'struct.error':
        import struct
        return PyClassV(struct.error)
    if module is not None:
        v = E.module_global(module, name)
        if v is not _MISSING:
            return v
    if '.' in name:
        return ClassV(loader.find_class(name))
    raise Unsupported('unknown exception class ' + name)


def _spec_frame(st, env, module, func=None, cls=None):
    fr = Frame(dict(env), module, func, cls)
    fr.spec_mode = True
    return fr


def apply_contract(E, c, st, args, kwargs):
    """assume/guarantee use of a contract at a call site"""
    try:
        fi = loader.find_function(c.target)
        fv = FuncV(fi)
        binds = E.bind_params(fv, args, kwargs, st)
        module, cls = fi.module, fi.cls
    except KeyError:
        # abstract target (native / opaque): bind by declared parameter names
        fi = None
        names = list(c.params.keys())
        env = dict(zip(names, args))
        env.update(kwargs)
        binds = [('env', st, env)]
        module = cls = None
    outs = []
    where = 'call of ' + c.target
    for b in binds:
        if b[0] == 'raise':
            outs.append(b)
            continue
        _, s0, env = b
        s0.frames.append(_spec_frame(s0, env, module, None, cls))
        for o in _apply_bound(E, c, s0, env, module, where):
            o[1].frames.pop()
            if o[0] == 'val':
                _after_call(E, c, o[1], o[2])
            outs.append(o)
    return outs


def _after_call(E, c, st, rv):
    """opt-in (option after_call = {callee target: {k: [clauses]}} of the contract UNDER VERIFICATION): intermediate assertions in
    the caller's frame right after the k-th (1-based, per path) application of that callee's contract in the function under
    verification itself; `result` denotes the value returned by the call.  Each clause is an obligation (kind assert_after_call),
    then a hypothesis (proof stepping, DESIGN 2.2 assert_at): the path condition is still short there, so a broken step gives a
    definite counter-model."""
    hooks = (E.options.get('after_call') or {}).get(c.target)
    act = E.registry.active if E.registry is not None else None
    if not hooks or act is None or not st.frames or st.frame.func is None or st.frame.func.qualname != act.target:
        return
    key = '_calls:' + c.target
    k = st.ghost.get(key, 0) + 1
    st.ghost[key] = k
    for cl in hooks.get(k, []):
        g = eval_clause(E, cl, st, {'result': rv})
        E.oblige(st, g, 'assert_after_call', 'after call %d of %s' % (k, c.target), {'clause': cl})


def _apply_bound(E, c, st, env, module, where):
    outs = []
    # 1. preconditions are obligations of the caller
    for cl in c.requires:
        g = eval_clause(E, cl, st)
        E.oblige(st, g, 'call_pre', where, {'clause': cl})
    if c.requires and not E.feasible(st):
        # a precondition is false in EVERY caller state of this path: the call_pre obligation just recorded is the verdict
        # (violated); there is no state to continue from (and this is not an inconsistency of the callee's postcondition)
        return outs
    if c.requires and not E.feasible(st):
        # the caller violates the precondition on every input of this path: the call_pre obligations recorded above are judged
        # on their own (violated); there is nothing to continue with
        return outs
    pre = st.fork()
    st.snap_stack = getattr(st, 'snap_stack', [])
    # 2. exceptional outcomes
    normal = st
    for ename, spec in c.raises.items():
        mode, cond = spec if isinstance(spec, tuple) else ('only_if', spec)
        t = _as_z3(eval_clause(E, cond, normal)) if cond not in (None, True, 'True') else z3.BoolVal(True)
        if mode == 'iff':
            r, normal2 = E.split(normal, t)
        else:
            nd = E.fresh(z3.BoolSort(), 'raises_' + ename.split('.')[-1])
            # whether a callee with an `only_if` clause raises is a choice of the callee's abstraction, not an input: a counter-model
            # on a path below cannot be refuted by replaying the entry values (verify._triage_sat reads this ghost flag)
            normal.ghost['abstract_choices'] = 'callee %s may raise %s (only_if)' % (c.target.split('.')[-1], ename.split('.')[-1])
            r, normal2 = E.split(normal, z3.And(nd, t))
        if r is not None:
            ex = ExcV(resolve_exc(E, ename, module), ())
            # exceptional frame: by default nothing is modified when the callee raises, unless on_raise_modifies says otherwise
            hv = c.options.get('on_raise_modifies')
            if hv:
                _havoc_paths(E, r, hv)
            # the callee's exceptional postconditions (proved in its own unit) hold in the state it raises in
            orc = list(c.on_raise.get(ename, [])) + list(c.on_raise.get('*', []))
            if isinstance(c.on_raise.get(ename), str):
                orc = [c.on_raise[ename]] + list(c.on_raise.get('*', []))
            if orc:
                saved_r = r.snap
                r.snap = pre
                for cl in orc:
                    r.assume(_as_z3(eval_clause(E, cl, r)))
                r.snap = saved_r
            outs.append(('raise', r, ex))
        if normal2 is None:
            return outs
        normal = normal2
    st = normal
    saved_snap = st.snap
    st.snap = pre
    pre.snap = None
    # 3. frame + result
    if c.modifies:
        mods = c.modifies
        try:
            kwname = loader.find_function(c.target).node.args.kwarg
        except KeyError:
            kwname = None
        if kwname is not None and not isinstance(mods, dict) and kwname.arg in mods:
            # the callee's own **kwargs dict is created by the call and invisible to the caller: nothing to havoc
            mods = [m for m in mods if m != kwname.arg]
        if c.sets and not isinstance(mods, dict):
            # a location whose exact new value is given by `sets` needs no havoc (and its `sets` expression may then read
            # the value the location has at the call)
            mods = [m for m in mods if m not in c.sets]
        _havoc_paths(E, st, mods)
    for path, expr in c.sets.items():
        v = eval_single(E, expr, st)
        _store_path(E, st, path, v)
    for pname, keys in (c.options.get('dict_pops') or {}).items():
        # effect on a keyword-record argument: these keys are removed (if present).  The contract must prove it as an ensures
        # clause (`'key' not in dict_parameters`) when it is verified against the real function.
        dref = env.get(pname)
        if not (isinstance(dref, Ref) and st.heap[dref.oid].kind == 'dict'):
            raise Unsupported('dict_pops target %s is not a dict' % pname)
        for k in keys:
            if k in st.heap[dref.oid].items:
                del st.heap[dref.oid].items[k]
                st.writes.append((dref.oid, '<items>'))
    results = []
    if c.returns is not None:
        results.append((st, eval_single(E, c.returns, st)))
    elif c.result is None or c.result in ('none', 'None'):
        results.append((st, None))
    else:
        alts = split_union(c.result)
        for i, a in enumerate(alts):
            s1 = st if i == len(alts) - 1 else st.fork()
            if isinstance(a, str) and a.startswith('obj:'):
                for j, oa in enumerate(object_alternatives(E, a[4:])):
                    s2 = s1.fork()
                    results.append((s2, fresh_object(E, s2, a[4:], 'res', oa)))
            else:
                results.append((s1, fresh_typed(E, s1, a, 'res_' + c.target.split('.')[-1])))
    kept = 0
    for s1, rv in results:
        s1.frame.env['result'] = rv
        if isinstance(rv, Ref) and E.registry.classes.get(getattr(s1.heap[rv.oid], 'ghost_id', '')):
            s1.assume(_as_z3(eval_clause(E, 'valid(result)', s1)))
        ok = True
        if not c.options.get('exact'):
            for nm, cl in c.ensures.items():
                s1.assume(_as_z3(eval_clause(E, cl, s1)))
        s1.snap = saved_snap
        if not E.feasible(s1):
            continue
        outs.append(('val', s1, rv))
        kept += 1
    if results and not kept:
        # the callee's postcondition is contradictory (or ill-defined: e.g. it reads a field that does not exist) in a
        # reachable caller state: dropping the path silently would make the caller's proof vacuous
        raise Unsupported('contract of %s cannot be satisfied at this call site (postcondition inconsistent or ill-defined there)' % c.target)
    return outs


_UF_CACHE = {}


def _sort_of(v):
    if isinstance(v, (bool, SBool)):
        return 'bool'
    if is_intlike(v):
        return 'int'
    if is_byteslike(v):
        return 'bytes'
    if v is None:
        return 'none'
    if isinstance(v, str):
        return 'str:' + re.sub(r'[^A-Za-z0-9]', '', v)       # string constants select a symbol family member
    raise Unsupported('argument %r of an opaque spec function' % (v,))


_SIG_CACHE = {}


def _spec_sig(qualname):
    """SIG entry of a spec function: 'bool' | 'int' | 'int[nat]' | 'bytes' | {'sort': ..., 'uf': True, 'facts': [clauses over params + result]}"""
    if qualname not in _SIG_CACHE:
        modname, fname = qualname.rsplit('.', 1)
        m = loader.load_module(modname)
        sig = None
        d = m.defs.get('SIG') if m else None
        if d and d[0] == 'assign':
            sig = ast.literal_eval(d[1]).get(fname)
        _SIG_CACHE[qualname] = sig
    return _SIG_CACHE[qualname]


def _always_uf(qualname):
    try:
        sig = _spec_sig(qualname)
    except Exception:      # noqa
        return False
    return isinstance(sig, dict) and bool(sig.get('uf'))


def apply_opaque(E, qualname, st, args, kwargs):
    """an opaque spec function is an uninterpreted symbol: only congruence (and its declared `facts`) is known about it
    here; its definition is revealed in the proof of the function whose contract introduces it"""
    if kwargs:
        raise Unsupported('keyword arguments to opaque spec function')
    sig = _spec_sig(qualname)
    facts = []
    if isinstance(sig, dict):
        facts = sig.get('facts', [])
        sig = sig['sort']
    if sig is None:
        raise Unsupported('opaque spec function %s has no result sort in SIG' % qualname)
    kinds = tuple(_sort_of(a) for a in args)
    zs = {'bool': z3.BoolSort(), 'int': INT, 'bytes': BYTES}
    key = (qualname, kinds, sig)
    if key not in _UF_CACHE:
        dom = [zs[k] for k in kinds if k not in ('none',) and not k.startswith('str:')]
        nm = qualname.replace('spec.', '') + ''.join(('_N' if k == 'none' else '_' + k[4:] if k.startswith('str:') else '') for k in kinds)
        _UF_CACHE[key] = z3.Function(nm, *(dom + [zs[sig.split('[')[0]]]))
    f = _UF_CACHE[key]
    zargs = []
    for a, k in zip(args, kinds):
        if k == 'bool':
            zargs.append(zbool(a))
        elif k == 'int':
            zargs.append(zint(a))
        elif k == 'bytes':
            zargs.append(zbytes(a))
    t = f(*zargs) if zargs else f()
    if sig == 'bool':
        rv = mk_bool(t)
    elif sig.startswith('int'):
        if sig == 'int[nat]':
            st.fact(t >= 0)
        rv = mk_int(t)
    else:
        rv = mk_bytes(t)
    if facts:
        fi = loader.find_function(qualname)
        names = [x.arg for x in fi.node.args.args]
        env = dict(zip(names, args))
        env['result'] = rv
        s0 = st.fork()
        fr = Frame(env, fi.module)
        fr.spec_mode = True
        s0.frames.append(fr)
        guard = st.ghost.get('_uf_fact_depth', 0)
        if guard < 2:
            s0.ghost['_uf_fact_depth'] = guard + 1
            for cl in facts:
                g = eval_clause(E, cl, s0)
                for t2 in s0.pc[len(st.pc):]:
                    if t2.get_id() in s0.facts:
                        st.fact(t2)
                st.fact(_as_z3(g))
    return [('val', st, rv)]


def assume_instances(E, c, st, where):
    """assume the lemma instances of contract c for program point `where` ('entry' | 'exit')"""
    assume_instance_list(E, st, c.instances.get(where, []))


def assume_instance_list(E, st, clauses):
    """assume calls of registered (separately proved) spec lemmas, evaluated in state st"""
    for cl in clauses:
        node = parse_clause(cl)
        ok = isinstance(node, ast.Call) and ast.unparse(node.func) in E.registry.lemmas
        if not ok:
            raise Unsupported('lemma instance %r is not a call of a registered (separately proved) spec lemma' % cl)
        # an instance that cannot be evaluated (an argument raises) would count as False and make every later obligation vacuous
        cases, raise_conds = eval_value(E, cl, st.fork())
        if raise_conds or not cases:
            raise Unsupported('lemma instance %r cannot be evaluated in this state (an argument may raise)' % cl)
        # the lemma was proved for arguments of its declared parameter types only: guard the instance with them
        guards = []
        lc = E.registry.contracts.get(ast.unparse(node.func))
        ptypes = list((lc.params or {}).items()) if lc is not None else []
        if node.keywords or len(node.args) != len(ptypes):
            raise Unsupported('lemma instance %r: positional arguments for all parameters expected' % cl)
        for a, (pn, pt) in zip(node.args, ptypes):
            pt = pt.strip()
            if pt in ('int', 'bytes', 'bool', 'any'):
                continue
            src = ast.unparse(a)
            m = re.fullmatch(r'int\[(-?\d+)\.\.(-?\d+)\](\|none)?', pt)
            m2 = re.fullmatch(r'bytes<(\d+)>', pt)
            if pt == 'nat':
                guards.append('(%s) >= 0' % src)
            elif m:
                g = '(%s <= (%s) and (%s) <= %s)' % (m.group(1), src, src, m.group(2))
                guards.append('((%s) is None or %s)' % (src, g) if m.group(3) else g)
            elif m2:
                guards.append('len(%s) == %s' % (src, m2.group(1)))
            else:
                raise Unsupported('lemma instance %r: parameter type %r of %s cannot be guarded' % (cl, pt, pn))
        t = _as_z3(eval_clause(E, cl, st))
        if guards:
            t = z3.Implies(z3.And([_as_z3(eval_clause(E, g, st)) for g in guards]), t)
        st.assume(t)


def lemma_contract(reg, qualname, params, opaque=(), options=None, requires=()):
    """register a spec-level lemma: the restricted-python function `qualname` returns True for all arguments of the given types
    (proved by symbolic execution of its body with everything revealed, like any other function under contract)"""
    reg.lemmas.add(qualname)
    return reg.add(Contract(qualname, params=params, requires=list(requires), ensures={'holds': 'result'}, raises={}, modifies=[],
                            opaque=opaque, options=dict(options or {}, spec_target=True)))


def _path_base_is_none(E, st, path):
    """some proper prefix of the path (self.a.b of self.a.b.c.f) is None in state st"""
    parts = path.split('.')
    for k in range(1, len(parts)):
        try:
            r = list(E.ev(ast.parse('.'.join(parts[:k]), mode='eval').body, st.fork(), []))
        except (Unsupported, SyntaxError):      # (a prefix cut inside a call expression such as f(self.x).y is not a path)
            return False
        if len(r) == 1 and r[0][1] is None:
            return True
        if len(r) != 1:
            return False
    return False


def _eval_path_base(E, st, path):
    base, fld = path.rsplit('.', 1)
    sink = []
    r = list(E.ev(ast.parse(base, mode='eval').body, st, sink))
    if len(r) != 1 or not isinstance(r[0][1], Ref):
        raise Unsupported('frame path %s does not denote an object' % path)
    return r[0][1], fld


def _havoc_paths(E, st, paths):
    from .loops import havoc_value
    items = paths.items() if isinstance(paths, dict) else [(p, None) for p in paths]
    for path, typ in items:
        if '.' not in path:
            v = st.frame.env.get(path)
            if isinstance(v, Ref) and st.heap[v.oid].kind == 'bytearray':
                h = st.heap[v.oid]
                old = h.items
                h.items = E.fresh_bytes(path)
                st.assume(z3.Length(h.items.t) == z3.Length(zbytes(old)))
                st.writes.append((v.oid, '<data>'))
                continue
            if v is None and path in st.frame.env:
                continue        # an optional buffer argument that is None at this call (`output=None`): nothing to modify
            raise Unsupported('modifies target %s' % path)
        try:
            ref, fld = _eval_path_base(E, st, path)
        except Unsupported as ex:
            if str(ex).endswith(' of None') or _path_base_is_none(E, st, path):
                # an optional object on the path is None at this call (e.g. `self._hash2._state...` before hash2 exists): the
                # location does not exist in the caller's state, so there is nothing to havoc (an object the callee stores
                # there later is reached through the havocked field that holds it)
                continue
            raise
        h = st.heap[ref.oid]
        cc = None
        if typ is None:
            cc = E.registry.classes.get(getattr(h, 'ghost_id', None) or (h.cls.qualname if h.cls else ''))
            if cc is not None:
                typ = cc.fields.get(fld) or cc.fields.get(fld + '?')
                if typ is not None and len(split_union(typ)) != 1:
                    typ = None
        cur = h.fields.get(fld)
        if typ is None and isinstance(cur, LazyUnion) and not (cc is not None and any(isinstance(v, Ref) for _tn, v in cur.alts)):
            # union-typed field: havoc into a fresh lazily resolved union of the same alternatives
            # (an object-valued alternative of a declared field is rebuilt from the class contract instead: next branch)
            alts2 = []
            for tn, v in cur.alts:
                alts2.append((tn, v if (v is ABSENT or v is None) else havoc_value(E, v, fld, st)))
            h.fields[fld] = make_lazy(E, st, alts2, fld)
        elif typ is None and (cur is None or isinstance(cur, (Ref, LazyUnion))) and cc is not None and (cc.fields.get(fld) or cc.fields.get(fld + '?')):
            ft = cc.fields.get(fld) or cc.fields.get(fld + '?')
            alts2 = [((o if isinstance(o, str) else repr(o[1])), fresh_typed(E, st, o, fld)) for o in split_union(ft)]
            h.fields[fld] = make_lazy(E, st, alts2, fld)
        else:
            h.fields[fld] = havoc_value(E, cur, fld, st, typ)
        st.writes.append((ref.oid, fld))


def _store_path(E, st, path, v):
    if '.' not in path:
        raise Unsupported('sets target %s' % path)
    ref, fld = _eval_path_base(E, st, path)
    cur = st.heap[ref.oid].fields.get(fld, _MISSING)
    if isinstance(v, Ref) and isinstance(cur, Ref) and cur.oid == v.oid:
        return          # the location already holds this very object: nothing is written
    st.heap[ref.oid].fields[fld] = v
    st.writes.append((ref.oid, fld))
