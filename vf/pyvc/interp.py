"""PYVC symbolic executor over the Python AST of the real sources (DESIGN.md 2.3).

One outcome type is threaded through expressions and statements:
  expressions:  generator of (state, value); exceptional outcomes go to `sink` as ('raise', state, ExcV)
  statements:   list of ('fall', st) | ('ret', st, v) | ('raise', st, exc) | ('break', st) | ('cont', st)
States are linear: whoever holds a state may mutate it; every branch point forks.
"""
import ast
import builtins as _pybuiltins
import time
import os
import z3

from .values import *          # noqa
from . import loader

FEAS_TIMEOUT_MS = int(os.environ.get("VERIF_FEAS_MS", "400"))


class Frame:
    __slots__ = ('env', 'module', 'func', 'cls', 'handling', 'spec_mode')

    def __init__(self, env, module, func=None, cls=None):
        self.env = env
        self.module = module
        self.func = func
        self.cls = cls
        self.handling = None      # exception being handled (for bare `raise`)
        self.spec_mode = False

    def copy(self):
        f = Frame(dict(self.env), self.module, self.func, self.cls)
        f.handling = self.handling
        f.spec_mode = self.spec_mode
        return f


class State:
    def __init__(self):
        self.pc = []
        self.heap = {}
        self.frames = []
        self.next_oid = 1
        self.writes = []          # log of (oid, field) heap writes, for frame conditions
        self.ghost = {}           # free-form ghost state (tapes, cursors ...)
        self.trace = []           # branch decisions, for path description
        self.snap = None          # pre-state snapshot for old()
        self.labels = {}          # label -> snapshot State
        self.facts = set()        # z3 ast ids of pc entries that are axioms about uninterpreted symbols (not branch conditions)

    def fork(self):
        n = State()
        n.pc = list(self.pc)
        n.heap = {k: v.copy() for k, v in self.heap.items()}
        n.frames = [f.copy() for f in self.frames]
        n.next_oid = self.next_oid
        n.writes = list(self.writes)
        n.ghost = dict(self.ghost)
        n.trace = list(self.trace)
        n.snap = self.snap
        n.labels = dict(self.labels)
        n.facts = set(self.facts)
        return n

    @property
    def frame(self):
        return self.frames[-1]

    def alloc(self, hobj):
        oid = self.next_oid
        self.next_oid += 1
        self.heap[oid] = hobj
        return Ref(oid)

    def assume(self, t):
        if t is True:
            return
        if t is False:
            t = z3.BoolVal(False)
        self.pc.append(t)

    def fact(self, t):
        """a true statement about the intended interpretation of an uninterpreted symbol"""
        if t.get_id() in self.facts:
            return
        self.pc.append(t)
        self.facts.add(t.get_id())


class Obligation:
    """a proof obligation generated during execution (call-site precondition, loop invariant, assert ...)"""

    def __init__(self, oid, pc, goal, kind, where='', info=None, state=None):
        self.oid = oid
        self.pc = list(pc)
        self.goal = goal
        self.kind = kind
        self.where = where
        self.info = info or {}
        self.state = state


_EXC_CLASSES = {n: getattr(_pybuiltins, n) for n in dir(_pybuiltins)
                if isinstance(getattr(_pybuiltins, n), type) and issubclass(getattr(_pybuiltins, n), BaseException)}


def exc(pycls, *args):
    return ExcV(PyClassV(pycls), args)


class Engine:
    def __init__(self, registry=None, options=None):
        from . import models
        self.registry = registry          # contracts.Registry (models, contracts, class contracts)
        self.options = options or {}
        self.counter = 0
        self.obligations = []
        self.module_cache = {}            # (module name, global name) -> value
        self.builtins = models.make_builtins(self)
        self.models = models
        self.bv_width = self.options.get('bv_width')
        self.max_inline_depth = self.options.get('max_inline_depth', 12)
        self.loop_specs = {}              # funcqual -> {ordinal: spec}
        self.stats = {'feas_queries': 0, 'forks': 0}
        self._solver = None
        self.unroll_limit = self.options.get('unroll_limit', 64)
        self.deadline = None
        self.truncated = []       # loops whose exploration was cut (function then undecided unless a violation is found)

    # ------------------------------------------------------------------ utilities
    def fresh(self, sort, name='t'):
        self.counter += 1
        return z3.Const('%s!%d' % (name, self.counter), sort)

    def fresh_int(self, name='i'):
        return SInt(self.fresh(INT, name))

    def fresh_bytes(self, name='b', kind='bytes'):
        return SBytes(self.fresh(BYTES, name), kind)

    def fresh_bool(self, name='p'):
        return SBool(self.fresh(z3.BoolSort(), name))

    def feasible(self, st, extra=None):
        if extra is not None:
            if extra is True or z3.is_true(extra):
                extra = None
            elif extra is False or z3.is_false(extra):
                return False
        if getattr(self, 'no_prune', False):
            return True
        self.stats['feas_queries'] += 1
        if self.deadline and time.time() > self.deadline:
            raise Unsupported('time budget of the unit exhausted during path exploration')
        if self.options.get('feas_abstract_seq'):
            # opt-in: prune over an abstraction of the sequence theory (strict over-approximation, see absfeas.py)
            from . import absfeas
            return absfeas.feasible(self, st, extra, int(self.options.get('feas_ms') or FEAS_TIMEOUT_MS))
        s = z3.Solver()
        # contract option feas_ms: budget of one pruning query (a time-out keeps the path, so it only costs time)
        s.set('timeout', int(self.options.get('feas_ms') or FEAS_TIMEOUT_MS))
        s.add(*st.pc)
        if extra is not None:
            s.add(extra)
        return s.check() != z3.unsat

    def implied_arith(self, st, t, rlimit=300000):
        """pc |= t from the arithmetic hypotheses alone, under a deterministic resource limit (not a wall-clock time-out, so the
        answer -- and with it the shape of the terms built from it -- does not depend on machine load); unknown -> False"""
        if t is True or z3.is_true(t):
            return True
        s = z3.Solver()
        s.set('rlimit', rlimit)
        s.add(*[c for c in st.pc if not _mentions_seq_ops(c)])
        s.add(z3.Not(t))
        return s.check() == z3.unsat

    def implied(self, st, t):
        """pc |= t (used only to keep values concrete / prune; unknown -> False)"""
        if t is True or z3.is_true(t):
            return True
        # term shapes (plain vs clamped slice bounds, folded lengths) depend on these answers, so they must not flip under
        # load: first a cheap attempt on the arithmetic hypotheses only (sound: fewer hypotheses), then the full set with a
        # budget well above what an `unsat` needs here
        # wall-clock budgets; contract option implied_ms raises them for a function whose proof is known to depend on a slow answer here
        # (a resource-limit version, deterministic across machines, was tried after `vp check` left one C01 obligation undecided on
        # another machine: at the limit that reproduces these answers it tripled the run time of C01/C02 and exhausted the unit budget of a
        # padding unit, so it was reverted -- DESIGN.md 8.8)
        ms = int(self.options.get('implied_ms') or os.environ.get('VERIF_IMPLIED_MS', '6000'))
        arith = [c for c in st.pc if not _mentions_seq_ops(c)]
        if len(arith) != len(st.pc):
            s = z3.Solver()
            s.set('timeout', max(1000, ms // 3))
            s.add(*arith)
            s.add(z3.Not(t))
            if s.check() == z3.unsat:
                return True
        s = z3.Solver()
        s.set('timeout', ms)
        s.add(*st.pc)
        s.add(z3.Not(t))
        return s.check() == z3.unsat

    def split(self, st, t, label=None):
        """fork on boolean t (python bool or z3). returns (st_true|None, st_false|None)"""
        if isinstance(t, bool):
            return (st, None) if t else (None, st)
        if z3.is_true(t):
            return st, None
        if z3.is_false(t):
            return None, st
        a_ok = self.feasible(st, t)
        b_ok = self.feasible(st, z3.Not(t))
        if a_ok and b_ok:
            self.stats['forks'] += 1
            b = st.fork()
            st.pc.append(t)
            b.pc.append(z3.Not(t))
            if label:
                st.trace.append((label, True))
                b.trace.append((label, False))
            return st, b
        if a_ok:
            st.pc.append(t)      # keep the fact: it is implied or the other side is infeasible
            return st, None
        if b_ok:
            st.pc.append(z3.Not(t))
            return None, st
        return None, None

    def resolve_union(self, st, v):
        """fork an int|bytes union value into its two Python types: list of (state, SInt | SBytes)"""
        a, b = self.split(st, v.is_int)
        out = []
        if a is not None:
            out.append((a, mk_int(v.iv)))
        if b is not None:
            out.append((b, mk_bytes(v.bv)))
        return out

    def oblige(self, st, goal, kind, where='', info=None):
        """record a proof obligation pc => goal, then assume it"""
        if goal is True or (not isinstance(goal, bool) and z3.is_true(goal)):
            self.obligations.append(Obligation(len(self.obligations), st.pc, z3.BoolVal(True), kind, where, info, st.fork()))
            return
        if goal is False:
            goal = z3.BoolVal(False)
        self.obligations.append(Obligation(len(self.obligations), st.pc, goal, kind, where, info, st.fork()))
        st.pc.append(goal)

    # ------------------------------------------------------------------ truth
    def truth(self, v, st):
        """python bool or z3 Bool"""
        if isinstance(v, bool):
            return v
        if isinstance(v, SBool):
            return v.t
        if isinstance(v, int):
            return v != 0
        if isinstance(v, SInt):
            return v.t != 0
        if v is None:
            return False
        if isinstance(v, (bytes, bytearray, str, tuple, frozenset, set, dict, list, range)):
            return len(v) > 0
        if isinstance(v, float):
            return v != 0
        if isinstance(v, SBytes):
            return z3.Length(v.t) > 0
        if isinstance(v, Ref):
            h = st.heap[v.oid]
            if h.kind in ('list', 'dict'):
                return len(h.items) > 0
            if h.kind in ('acc', 'pacc'):
                return (h.items[0] > 0) if isinstance(h.items[0], int) else (zint(h.items[0]) > 0)
            if h.kind == 'bytearray':
                return self.truth(h.items, st)
            if h.kind == 'obj' and h.cls is not None:
                for nm in ('__bool__', '__len__'):
                    f = h.cls.find_method(nm)
                    if f is None:
                        # `__bool__ = __nonzero__` in the class body (Integer back ends): an alias of a method
                        _c, node = h.cls.find_attr_node(nm)
                        if node is not None:
                            f = h.cls.find_method(node.id) if isinstance(node, ast.Name) else None
                            if f is None:
                                raise Unsupported('truth value through class attribute %s' % nm)
                    if f is not None:
                        # a pure method with a single outcome (e.g. `return self._value != 0`): its result decides
                        outs = self.call_function(FuncV(f), [v], {}, st)
                        if len(outs) == 1 and outs[0][0] == 'val' and outs[0][1] is st:
                            r = outs[0][2]
                            if nm == '__len__':
                                return (r != 0) if isinstance(r, int) else (zint(r) != 0)
                            if isinstance(r, (bool, SBool)):
                                return self.truth(r, st)
                        raise Unsupported('truth value through %s' % nm)
            return True
        if isinstance(v, (FuncV, BoundV, ClassV, PyClassV, BuiltinV, ModuleV, ExcV)):
            return True
        if isinstance(v, SStrL1):
            return z3.Length(v.l1) > 0
        if isinstance(v, SStr):
            return True    # formatted strings in this code base are never empty; only used for messages
        if isinstance(v, SUnionIB):
            return z3.If(v.is_int, v.iv != 0, z3.Length(v.bv) > 0)
        raise Unsupported('truth of %r' % (v,))

    # ------------------------------------------------------------------ expression evaluation
    def ev(self, e, st, sink):
        m = getattr(self, 'e_' + type(e).__name__, None)
        if m is None:
            raise Unsupported('expression ' + type(e).__name__)
        return m(e, st, sink)

    def ev_list(self, exprs, st, sink):
        """evaluate a list of expressions left to right: yields (st, [values])"""
        if not exprs:
            yield st, []
            return
        first, rest = exprs[0], exprs[1:]
        if isinstance(first, ast.Starred):
            for s1, v in self.ev(first.value, st, sink):
                items = self.iter_concrete(v, s1)
                for s2, vs in self.ev_list(rest, s1, sink):
                    yield s2, list(items) + vs
            return
        for s1, v in self.ev(first, st, sink):
            for s2, vs in self.ev_list(rest, s1, sink):
                yield s2, [v] + vs

    def e_Constant(self, e, st, sink):
        yield st, e.value

    def e_JoinedStr(self, e, st, sink):
        yield st, SStr('<fstring>')

    def e_Name(self, e, st, sink):
        yield st, self.lookup(e.id, st)

    def lookup(self, name, st):
        fr = st.frame
        if name in fr.env:
            return fr.env[name]
        mod = fr.module
        if mod is not None:
            v = self.module_global(mod, name, st)
            if v is not _MISSING:
                return v
        if name in self.builtins:
            return self.builtins[name]
        if name in _EXC_CLASSES:
            return PyClassV(_EXC_CLASSES[name])
        if name in SPEC_BUILTINS and (fr.spec_mode or (mod is not None and mod.name.startswith('spec'))):
            return SPEC_BUILTINS[name]
        raise Unsupported('unresolved name %s' % name)

    def module_global(self, mod, name, st=None):
        key = (mod.name, name)
        if key in self.module_cache:
            return self.module_cache[key]
        if self.registry is not None:
            ov = self.registry.global_override(mod.name + '.' + name)
            if ov is not _MISSING:
                if isinstance(ov, StateGlobal):
                    # a module-level object: lives in the heap of each state (never cached: a Ref is state-specific)
                    if st is None:
                        raise Unsupported('module-level object %s.%s used outside a state' % (mod.name, name))
                    return ov.get(self, st)
                self.module_cache[key] = ov
                return ov
        d = mod.defs.get(name)
        if d is None:
            for sm in mod.stars:
                m2 = loader.load_module(sm)
                if m2 is not None and not name.startswith('_'):
                    v = self.module_global(m2, name, st)
                    if v is not _MISSING:
                        if not isinstance(v, Ref):
                            self.module_cache[key] = v
                        return v
            return _MISSING
        if d[0] == 'func':
            v = FuncV(d[1])
        elif d[0] == 'class':
            v = ClassV(d[1])
        elif d[0] == 'import':
            v = self.import_value(d[1], d[2], st)
            if isinstance(v, Ref):
                return v
        elif d[0] in ('assign', 'assign_tuple'):
            v = self.eval_module_expr(mod, d[1])
            if d[0] == 'assign_tuple':
                v = v[d[2]]
        else:
            raise Unsupported('module def kind')
        self.module_cache[key] = v
        return v

    def import_value(self, modname, attr, st=None):
        m = loader.load_module(modname)
        if attr is None:
            return ModuleV(modname, m)
        if m is not None:
            d = m.defs.get(attr)
            if d is None or (d[0] == 'import' and d[1] == modname and d[2] == attr):
                sub = loader.load_module(modname + '.' + attr)
                if sub is not None:
                    return ModuleV(modname + '.' + attr, sub)
            v = self.module_global(m, attr, st)
            if v is not _MISSING:
                return v
        q = modname + '.' + attr
        if self.registry is not None:
            ov = self.registry.global_override(q)
            if ov is not _MISSING:
                if isinstance(ov, StateGlobal):
                    if st is None:
                        raise Unsupported('module-level object %s used outside a state' % q)
                    return ov.get(self, st)
                return ov
        mv = self.models.external_attr(self, modname, attr)
        if mv is not _MISSING:
            return mv
        raise Unsupported('import %s.%s' % (modname, attr))

    def eval_module_expr(self, mod, node):
        """module-level constant initialiser, evaluated in a scratch state"""
        st = State()
        st.frames.append(Frame({}, mod))
        sink = []
        res = list(self.ev(node, st, sink))
        if len(res) != 1 or sink:
            raise Unsupported('module-level initialiser is not a single value: ' + ast.unparse(node)[:60])
        s1, v = res[0]
        if s1.heap:
            # module-level lists/dicts: freeze to immutable python values where possible
            v = self.freeze(v, s1)
        return v

    def freeze(self, v, st):
        if isinstance(v, Ref):
            h = st.heap[v.oid]
            if h.kind == 'list':
                return tuple(self.freeze(x, st) for x in h.items)
            if h.kind == 'dict':
                return FrozenDict({k: self.freeze(x, st) for k, x in h.items.items()})
            raise Unsupported('module-level mutable object')
        if isinstance(v, tuple):
            return tuple(self.freeze(x, st) for x in v)
        return v

    def e_Attribute(self, e, st, sink):
        for s1, base in self.ev(e.value, st, sink):
            for r in self.getattr(base, e.attr, s1, sink):
                yield r

    def _log_protected_read(self, st, attr):
        """contract option protected_fields=[names]: reads of these attributes by the code under proof (not by spec clauses) are put into
        the write log as pseudo entries (-2, '<read:name>'), next to the lock events (-1, ...), so that a contract can state that the
        lock-protected state is only ACCESSED while the lock is held (C19; spec form reads_outside_lock)"""
        pf = self.options.get('protected_fields')
        if pf and attr in pf and not (st.frames and st.frame.spec_mode):
            st.writes.append((-2, '<read:%s>' % attr))

    def getattr(self, base, attr, st, sink):
        """yields (st, value)"""
        if isinstance(base, Ref):
            h = st.heap[base.oid]
            if h.kind == 'obj':
                if attr in h.fields and isinstance(h.fields[attr], LazyUnion):
                    for s1 in self.resolve_field(st, base, attr):
                        for r in self.getattr(base, attr, s1, sink):
                            yield r
                    return
                if attr in h.fields:
                    self._log_protected_read(st, attr)
                    yield st, h.fields[attr]
                    return
                if h.cls is not None:
                    if attr == '__class__':
                        yield st, ClassV(h.cls)
                        return
                    f = h.cls.find_method(attr)
                    if f is not None:
                        if f.kind == 'property':
                            for o in self.call_function(FuncV(f), [base], {}, st):
                                if o[0] == 'raise':
                                    sink.append(o)
                                else:
                                    yield o[1], o[2]
                            return
                        if f.kind == 'staticmethod':
                            yield st, FuncV(f)
                            return
                        if f.kind == 'classmethod':
                            yield st, BoundV(ClassV(h.cls), FuncV(f))
                            return
                        yield st, BoundV(base, FuncV(f))
                        return
                    c, node = h.cls.find_attr_node(attr)
                    if node is not None:
                        v = self.class_attr(c, attr, node)
                        if isinstance(v, StateGlobal):        # a class-level OBJECT (registry override): lives in each state's heap
                            v = v.get(self, st)
                        self._log_protected_read(st, attr)
                        yield st, v
                        return
                    ga = h.cls.find_method('__getattr__')
                    if ga is not None:
                        for o in self.call_function(FuncV(ga), [base, attr], {}, st):
                            if o[0] == 'raise':
                                sink.append(o)
                            else:
                                yield o[1], o[2]
                        return
                    mv = self.models.object_attr(self, st, base, h, attr)
                    if mv is not _MISSING:
                        yield st, mv
                        return
                gid = getattr(h, 'ghost_id', None)
                if h.cls is None and gid and self.registry is not None:
                    # abstract (native / opaque) object: its methods exist only as contracts  <class>.<method>
                    q = gid + '.' + attr
                    hook = self.registry.call_hook(self, q, st)
                    if hook is not None:
                        yield st, BoundV(base, BuiltinV(q, hook))
                        return
                    raise Unsupported('abstract object %s has no contract for .%s' % (gid, attr))
                sink.append(('raise', st, exc(AttributeError, attr)))
                return
            mv = self.models.container_attr(self, st, base, h, attr)
            if mv is not _MISSING:
                yield st, mv
                return
            raise Unsupported('attribute %s of heap %s' % (attr, h.kind))
        if isinstance(base, ModuleV):
            if base.info is not None:
                v = self.module_global(base.info, attr, st)
                if v is not _MISSING:
                    yield st, v
                    return
                sub = loader.load_module(base.name + '.' + attr)
                if sub is not None:
                    yield st, ModuleV(base.name + '.' + attr, sub)
                    return
            mv = self.models.external_attr(self, base.name, attr)
            if mv is not _MISSING:
                yield st, mv
                return
            raise Unsupported('module attribute %s.%s' % (base.name, attr))
        if isinstance(base, ClassV):
            f = base.info.find_method(attr)
            if f is not None:
                if f.kind == 'classmethod':
                    yield st, BoundV(base, FuncV(f))
                else:
                    yield st, FuncV(f)
                return
            c, node = base.info.find_attr_node(attr)
            if node is not None:
                v = self.class_attr(c, attr, node)
                if isinstance(v, StateGlobal):
                    v = v.get(self, st)
                yield st, v
                return
            if attr == '__name__':
                yield st, base.info.name
                return
            raise Unsupported('class attribute %s.%s' % (base.info.name, attr))
        mv = self.models.value_attr(self, st, base, attr)
        if mv is not _MISSING:
            yield st, mv
            return
        if base is None or is_intlike(base) or is_byteslike(base):
            # plain python value: an attribute its python type does not have is an AttributeError outcome
            rep = None if base is None else self.models._py_representative(base)
            if rep is not _MISSING and attr == '__class__':
                yield st, PyClassV(type(rep))
                return
            if rep is not _MISSING and not hasattr(rep, attr):
                sink.append(('raise', st, exc(AttributeError, attr)))
                return
        raise Unsupported('attribute %s of %r' % (attr, base))

    def resolve_field(self, st, ref, attr):
        """fork on the alternatives of a lazily typed field; returns the list of states"""
        lz = st.heap[ref.oid].fields[attr]
        outs = []
        feas = [i for i in range(len(lz.alts)) if self.feasible(st, lz.sel == i)]
        for n_, i in enumerate(feas):
            tname, v = lz.alts[i]
            s1 = st if n_ == len(feas) - 1 else st.fork()
            s1.pc.append(lz.sel == i)
            if v is ABSENT:
                del s1.heap[ref.oid].fields[attr]
            else:
                s1.heap[ref.oid].fields[attr] = v
            s1.trace.append(('%s.%s' % (lz.name, attr), str(tname)))
            # the pre-state snapshot (old()) must see the same alternative
            sn = s1.snap
            if sn is not None and ref.oid in sn.heap and sn.heap[ref.oid].fields.get(attr) is lz:
                sn = sn.fork()
                if v is ABSENT:
                    del sn.heap[ref.oid].fields[attr]
                else:
                    sn.heap[ref.oid].fields[attr] = v
                s1.snap = sn
            outs.append(s1)
        return outs

    def class_attr(self, cinfo, attr, node):
        key = (cinfo.qualname, attr)
        if key not in self.module_cache:
            if self.registry is not None:
                ov = self.registry.global_override(cinfo.qualname + '.' + attr)
                if ov is not _MISSING:
                    self.module_cache[key] = ov
                    return ov
            self.module_cache[key] = self.eval_module_expr(cinfo.module, node)
        return self.module_cache[key]

    def e_List(self, e, st, sink):
        for s1, vs in self.ev_list(e.elts, st, sink):
            yield s1, s1.alloc(HObj('list', items=list(vs)))

    def e_Tuple(self, e, st, sink):
        for s1, vs in self.ev_list(e.elts, st, sink):
            yield s1, tuple(vs)

    def e_Set(self, e, st, sink):
        for s1, vs in self.ev_list(e.elts, st, sink):
            if all(isinstance(v, (int, str, bytes)) and not isinstance(v, SV) for v in vs):
                yield s1, frozenset(vs)
            else:
                yield s1, tuple(vs)      # only membership tests are supported on it

    def e_Dict(self, e, st, sink):
        if any(k is None for k in e.keys):
            raise Unsupported('dict unpacking literal')
        for s1, ks in self.ev_list(e.keys, st, sink):
            for s2, vs in self.ev_list(e.values, s1, sink):
                if not all(self.is_hashable_concrete(k) for k in ks):
                    raise Unsupported('dict with symbolic key')
                yield s2, s2.alloc(HObj('dict', items=dict(zip(ks, vs))))

    @staticmethod
    def is_hashable_concrete(k):
        return isinstance(k, (int, str, bytes, bool, tuple, type(None))) and not isinstance(k, SV)

    def e_UnaryOp(self, e, st, sink):
        for s1, v in self.ev(e.operand, st, sink):
            if isinstance(e.op, ast.Not):
                t = self.truth(v, s1)
                yield s1, (not t) if isinstance(t, bool) else mk_bool(z3.Not(t))
            elif isinstance(e.op, ast.USub):
                if isinstance(v, (int, float)) and not isinstance(v, SV):
                    yield s1, -v
                elif is_intlike(v):
                    yield s1, mk_int(-zint(v))
                else:
                    raise Unsupported('unary minus on %r' % (v,))
            elif isinstance(e.op, ast.UAdd):
                yield s1, v
            elif isinstance(e.op, ast.Invert):
                if isinstance(v, int):
                    yield s1, ~v
                elif is_intlike(v):
                    yield s1, mk_int(-zint(v) - 1)
                else:
                    raise Unsupported('~ on %r' % (v,))
            else:
                raise Unsupported('unary op')

    def e_BoolOp(self, e, st, sink):
        is_or = isinstance(e.op, ast.Or)

        def rec(vals, st):
            for s1, v in self.ev(vals[0], st, sink):
                if len(vals) == 1:
                    yield s1, v
                    continue
                t = self.truth(v, s1)
                stop = t if is_or else ((not t) if isinstance(t, bool) else z3.Not(t))
                a, b = self.split(s1, stop)
                if a is not None:
                    yield a, v
                if b is not None:
                    for r in rec(vals[1:], b):
                        yield r
        return rec(e.values, st)

    def e_IfExp(self, e, st, sink):
        for s1, c in self.ev(e.test, st, sink):
            a, b = self.split(s1, self.truth(c, s1))
            if a is not None:
                for r in self.ev(e.body, a, sink):
                    yield r
            if b is not None:
                for r in self.ev(e.orelse, b, sink):
                    yield r

    def e_Compare(self, e, st, sink):
        def rec(left, ops, comps, st):
            for s2, right in self.ev(comps[0], st, sink):
                for s3, r in self.compare(ops[0], left, right, s2, sink):
                    if len(ops) == 1:
                        yield s3, r
                        continue
                    t = self.truth(r, s3)
                    a, b = self.split(s3, t)
                    if b is not None:
                        yield b, False
                    if a is not None:
                        for x in rec(right, ops[1:], comps[1:], a):
                            yield x
        for s1, left in self.ev(e.left, st, sink):
            for x in rec(left, e.ops, e.comparators, s1):
                yield x

    def compare(self, op, a, b, st, sink):
        """yields (st, bool-ish value)"""
        if isinstance(op, (ast.Is, ast.IsNot)):
            r = self.identical(a, b)
            yield st, (r if isinstance(op, ast.Is) else self.neg(r))
            return
        if isinstance(op, (ast.In, ast.NotIn)):
            for s1, r in self.contains(b, a, st, sink):
                yield s1, (r if isinstance(op, ast.In) else self.neg(r))
            return
        if isinstance(op, (ast.Eq, ast.NotEq)):
            for s1, r in self.equal(a, b, st, sink):
                yield s1, (r if isinstance(op, ast.Eq) else self.neg(r))
            return
        # ordering
        if isinstance(a, SUnionIB) or isinstance(b, SUnionIB):
            # the Python type of an int|bytes union decides (bytes vs int ordering is a TypeError): fork into the two cases
            for s1, a1 in (self.resolve_union(st, a) if isinstance(a, SUnionIB) else [(st, a)]):
                for s2, b1 in (self.resolve_union(s1, b) if isinstance(b, SUnionIB) else [(s1, b)]):
                    for r in self.compare(op, a1, b1, s2, sink):
                        yield r
            return
        if _conc(a) and _conc(b):
            try:
                yield st, {ast.Lt: lambda: a < b, ast.LtE: lambda: a <= b, ast.Gt: lambda: a > b, ast.GtE: lambda: a >= b}[type(op)]()
            except TypeError as ex:
                sink.append(('raise', st, exc(TypeError, str(ex))))
            return
        if is_intlike(a) and is_intlike(b):
            x, y = zint(a), zint(b)
            yield st, mk_bool({ast.Lt: x < y, ast.LtE: x <= y, ast.Gt: x > y, ast.GtE: x >= y}[type(op)])
            return
        for v, w, swap in ((a, b, False), (b, a, True)):
            if isinstance(v, Ref) and st.heap[v.oid].kind == 'obj':
                nm = {ast.Lt: '__lt__', ast.LtE: '__le__', ast.Gt: '__gt__', ast.GtE: '__ge__'}[type(op)]
                if swap:
                    nm = {'__lt__': '__gt__', '__le__': '__ge__', '__gt__': '__lt__', '__ge__': '__le__'}[nm]
                f = st.heap[v.oid].cls.find_method(nm) if st.heap[v.oid].cls else None
                if f is not None:
                    for o in self.call_function(FuncV(f), [v, w], {}, st):
                        if o[0] == 'raise':
                            sink.append(o)
                        else:
                            yield o[1], o[2]
                    return
        if (is_byteslike(a) or isinstance(a, (str, SStr, type(None), SOpaque, Ref))) != \
                (is_byteslike(b) or isinstance(b, (str, SStr, type(None), SOpaque, Ref))) or \
                (is_intlike(a) != is_intlike(b)):
            if isinstance(a, SOpaque) or isinstance(b, SOpaque):
                raise Unsupported('ordering with opaque value')
            sink.append(('raise', st, exc(TypeError, 'unorderable')))
            return
        raise Unsupported('ordering of %r and %r' % (a, b))

    @staticmethod
    def neg(r):
        if isinstance(r, bool):
            return not r
        return mk_bool(z3.Not(zbool(r)))

    def identical(self, a, b):
        if a is None or b is None:
            if isinstance(a, SOpaque) or isinstance(b, SOpaque):
                return False       # SOpaque is by definition not None
            return a is None and b is None
        if isinstance(a, bool) and isinstance(b, bool):
            return a == b
        if isinstance(a, Ref) and isinstance(b, Ref):
            return a.oid == b.oid
        if isinstance(a, (SBool, bool)) and isinstance(b, (SBool, bool)):
            return mk_bool(zbool(a) == zbool(b))
        if isinstance(a, SOpaque) and isinstance(b, SOpaque):
            return mk_bool(a.t == b.t)
        if type(a) is not type(b) and not (is_intlike(a) and is_intlike(b)) and not (is_byteslike(a) and is_byteslike(b)):
            return False
        if isinstance(a, (ClassV, PyClassV)) and isinstance(b, (ClassV, PyClassV)):
            return (a.info is b.info) if isinstance(a, ClassV) else (a.py is b.py)
        if isinstance(a, str) and isinstance(b, str):
            return a == b
        raise Unsupported('identity of %r and %r' % (a, b))

    def equal(self, a, b, st, sink):
        """python ==  -> yields (st, bool | SBool)"""
        if _conc(a) and _conc(b):
            yield st, a == b
            return
        if is_intlike(a) and is_intlike(b):
            yield st, mk_bool(zint(a) == zint(b))
            return
        if is_byteslike(a) and is_byteslike(b):
            yield st, mk_bool(zbytes(a) == zbytes(b))
            return
        if isinstance(a, tuple) and isinstance(b, tuple):
            if len(a) != len(b):
                yield st, False
                return
            yield st, self.all_equal(a, b, st, sink)
            return
        if isinstance(a, Ref) or isinstance(b, Ref):
            ha = st.heap[a.oid] if isinstance(a, Ref) else None
            hb = st.heap[b.oid] if isinstance(b, Ref) else None
            if (ha is not None and ha.kind == 'acc') or (hb is not None and hb.kind == 'acc'):
                raise Unsupported('== on an accumulator list')
            for v, h, w in ((a, ha, b), (b, hb, a)):
                if h is not None and h.kind == 'obj' and h.cls is not None:
                    f = h.cls.find_method('__eq__')
                    if f is not None:
                        for o in self.call_function(FuncV(f), [v, w], {}, st):
                            if o[0] == 'raise':
                                sink.append(o)
                            else:
                                yield o[1], o[2]
                        return
            if ha is not None and hb is not None:
                if ha.kind == 'list' and hb.kind == 'list':
                    if len(ha.items) != len(hb.items):
                        yield st, False
                    else:
                        yield st, self.all_equal(ha.items, hb.items, st, sink)
                    return
                if ha.kind == 'bytearray' and hb.kind == 'bytearray':
                    yield st, mk_bool(zbytes(ha.items) == zbytes(hb.items))
                    return
                yield st, a.oid == b.oid
                return
            h, other = (ha, b) if ha is not None else (hb, a)
            if h.kind == 'bytearray' and is_byteslike(other):
                yield st, mk_bool(zbytes(h.items) == zbytes(other))
                return
            if h.kind == 'list' and isinstance(other, tuple):
                yield st, False
                return
            yield st, False
            return
        if isinstance(a, SUnionIB) or isinstance(b, SUnionIB):
            # int-or-bytes union: equal iff both sides have the same Python type and the same value (no fork needed)
            x, y = (a, b) if isinstance(a, SUnionIB) else (b, a)
            if isinstance(y, SUnionIB):
                yield st, mk_bool(z3.Or(z3.And(x.is_int, y.is_int, x.iv == y.iv), z3.And(z3.Not(x.is_int), z3.Not(y.is_int), x.bv == y.bv)))
            elif is_intlike(y):
                yield st, mk_bool(z3.And(x.is_int, x.iv == zint(y)))
            elif is_byteslike(y):
                yield st, mk_bool(z3.And(z3.Not(x.is_int), x.bv == zbytes(y)))
            elif isinstance(y, (SOpaque, Ref)):
                raise Unsupported('== between an int|bytes union and an object')
            else:
                yield st, False
            return
        if isinstance(a, SOpaque) or isinstance(b, SOpaque):
            if isinstance(a, SOpaque) and isinstance(b, SOpaque):
                yield st, mk_bool(a.t == b.t)
                return
            raise Unsupported('== with opaque value')
        if isinstance(a, SStrL1) or isinstance(b, SStrL1):
            # latin-1 decoded strings: compared through their encodings; a constant with a code point >= 256 is never equal
            x, y = (a, b) if isinstance(a, SStrL1) else (b, a)
            if isinstance(y, SStrL1):
                yield st, mk_bool(x.l1 == y.l1)
                return
            if isinstance(y, str):
                try:
                    yield st, mk_bool(x.l1 == bytes_const(y.encode('latin-1')))
                except UnicodeEncodeError:
                    yield st, False
                return
            if isinstance(y, SStr):
                raise Unsupported('== between a decoded and an unknown string')
            yield st, False
            return
        if isinstance(a, SStr) or isinstance(b, SStr):
            if isinstance(a, SStr) and isinstance(b, SStr):
                raise Unsupported('== between two unknown strings')
            yield st, False
            return
        # different python types (int vs bytes, bytes vs str, x vs None ...)
        yield st, False

    def all_equal(self, xs, ys, st, sink):
        conj = []
        for x, y in zip(xs, ys):
            rs = list(self.equal(x, y, st, sink))
            if len(rs) != 1 or rs[0][0] is not st:
                raise Unsupported('element comparison forks')
            r = rs[0][1]
            if r is False:
                return False
            if r is not True:
                conj.append(zbool(r))
        if not conj:
            return True
        return mk_bool(z3.And(conj) if len(conj) > 1 else conj[0])

    def contains(self, container, item, st, sink):
        if isinstance(container, Ref):
            h = st.heap[container.oid]
            if h.kind in ('list', 'set'):
                container = tuple(h.items)
            elif h.kind == 'dict':
                if not self.is_hashable_concrete(item):
                    raise Unsupported('symbolic key membership')
                yield st, item in h.items
                return
            elif h.kind == 'bytearray':
                container = h.items
            elif h.kind == 'acc':
                raise Unsupported('membership in an accumulator list')
            else:
                f = h.cls.find_method('__contains__') if h.cls else None
                if f is None:
                    # python falls back to iteration; `x in <non-iterable>` raises TypeError
                    if h.cls and (h.cls.find_method('__iter__') or h.cls.find_method('__getitem__')):
                        raise Unsupported('membership through __iter__')
                    sink.append(('raise', st, exc(TypeError, 'not iterable')))
                    return
                for o in self.call_function(FuncV(f), [container, item], {}, st):
                    if o[0] == 'raise':
                        sink.append(o)
                    else:
                        yield o[1], o[2]
                return
        if isinstance(container, FrozenDict):
            yield st, item in container.d
            return
        if isinstance(container, ClassV) and any(getattr(b, '__name__', '') == 'IntEnum' for b in container.info.py_bases()):
            # `x in <IntEnum class>` (CPython 3.12): true iff x is a member or equals the value of a member
            if not is_intlike(item):
                raise Unsupported('membership of a non-integer in an IntEnum class')
            container = tuple(self.class_attr(c, nm, node) for c in container.info.mro()
                              for nm, node in c.attr_nodes.items() if not nm.startswith('_'))
            if not all(isinstance(x, int) for x in container):
                raise Unsupported('IntEnum class with non-constant members')
        if isinstance(container, (tuple, frozenset, set, list)):
            if _conc(item) and all(_conc(x) for x in container):
                yield st, item in container
                return
            disj = []
            for x in container:
                rs = list(self.equal(item, x, st, sink))
                if len(rs) != 1:
                    raise Unsupported('membership comparison forks')
                r = rs[0][1]
                if r is True:
                    yield st, True
                    return
                if r is not False:
                    disj.append(zbool(r))
            yield st, (mk_bool(z3.Or(disj)) if disj else False)
            return
        if isinstance(container, str):
            if isinstance(item, str):
                yield st, item in container
                return
            if isinstance(item, SStr):
                raise Unsupported('unknown string in str')
            sink.append(('raise', st, exc(TypeError, 'in <string> requires string')))
            return
        if is_byteslike(container):
            if is_byteslike(item):
                yield st, mk_bool(z3.Contains(zbytes(container), zbytes(item)))
                return
            if is_intlike(item):
                yield st, mk_bool(z3.Contains(zbytes(container), z3.Unit(z3.Int2BV(zint(item), 8))))
                return
            sink.append(('raise', st, exc(TypeError, 'a bytes-like object is required')))
            return
        if isinstance(container, range):
            if isinstance(item, int):
                yield st, item in container
                return
            if is_intlike(item) and container.step == 1:
                yield st, mk_bool(z3.And(zint(item) >= container.start, zint(item) < container.stop))
                return
        if is_intlike(container) or container is None:
            sink.append(('raise', st, exc(TypeError, 'argument is not iterable')))
            return
        raise Unsupported('membership in %r' % (container,))

    def e_BinOp(self, e, st, sink):
        for s1, a in self.ev(e.left, st, sink):
            for s2, b in self.ev(e.right, s1, sink):
                for r in self.binop(e.op, a, b, s2, sink):
                    yield r

    def binop(self, op, a, b, st, sink):
        from .ops import binop
        return binop(self, op, a, b, st, sink)

    def e_Subscript(self, e, st, sink):
        from .ops import subscript
        for s1, base in self.ev(e.value, st, sink):
            if isinstance(e.slice, ast.Slice):
                parts = [e.slice.lower, e.slice.upper, e.slice.step]
                for s2, vs in self.ev_list([p if p is not None else ast.Constant(value=None) for p in parts], s1, sink):
                    for r in subscript(self, base, slice(*vs), s2, sink):
                        yield r
            else:
                for s2, idx in self.ev(e.slice, s1, sink):
                    for r in subscript(self, base, idx, s2, sink):
                        yield r

    def e_Lambda(self, e, st, sink):
        fn = ast.FunctionDef(name='<lambda>', args=e.args, body=[ast.Return(value=e.body)], decorator_list=[],
                             lineno=e.lineno, end_lineno=e.end_lineno, col_offset=0)
        fi = loader.FuncInfo(fn, st.frame.module)
        fv = FuncV(fi)
        fv.closure = st.frame.env
        yield st, fv

    def e_ListComp(self, e, st, sink):
        for s1, items in self.comprehension(e.elt, e.generators, st, sink):
            yield s1, s1.alloc(HObj('list', items=items))

    def e_GeneratorExp(self, e, st, sink):
        for s1, items in self.comprehension(e.elt, e.generators, st, sink):
            yield s1, tuple(items)

    def e_SetComp(self, e, st, sink):
        for s1, items in self.comprehension(e.elt, e.generators, st, sink):
            yield s1, tuple(items)

    def comprehension(self, elt, gens, st, sink):
        """only over iterables of concrete length (unrolled)"""
        saved = dict(st.frame.env)

        def rec(gi, st):
            if gi == len(gens):
                for s1, v in self.ev(elt, st, sink):
                    yield s1, [v]
                return
            g = gens[gi]
            for s1, itv in self.ev(g.iter, st, sink):
                items = self.iter_concrete(itv, s1)

                def over(k, st, acc):
                    if k == len(items):
                        yield st, acc
                        return
                    self.assign(g.target, items[k], st, sink)
                    conds = g.ifs

                    def chk(ci, st):
                        if ci == len(conds):
                            yield st, True
                            return
                        for s2, c in self.ev(conds[ci], st, sink):
                            a, b = self.split(s2, self.truth(c, s2))
                            if a is not None:
                                for r in chk(ci + 1, a):
                                    yield r
                            if b is not None:
                                yield b, False
                    for s2, ok in chk(0, st):
                        if ok:
                            for s3, vs in rec(gi + 1, s2):
                                for r in over(k + 1, s3, acc + vs):
                                    yield r
                        else:
                            for r in over(k + 1, s2, acc):
                                yield r
                for r in over(0, s1, []):
                    yield r
        for s1, items in rec(0, st):
            # comprehension variables do not leak
            for g in gens:
                for nm in _target_names(g.target):
                    if nm in saved:
                        s1.frame.env[nm] = saved[nm]
                    else:
                        s1.frame.env.pop(nm, None)
            yield s1, items

    def iter_concrete(self, v, st):
        """list of items of an iterable whose length is concrete"""
        if isinstance(v, Ref):
            h = st.heap[v.oid]
            if h.kind == 'list':
                return list(h.items)
            if h.kind == 'dict':
                return list(h.items.keys())
            if h.kind == 'bytearray':
                v = h.items
            elif h.kind == 'obj' and h.cls is not None and h.cls.find_method('__iter__'):
                raise Unsupported('iteration through __iter__')
            elif h.kind == 'obj' and h.cls is None and getattr(h, 'ghost_id', None) and self.registry is not None:
                # abstract object: its items exist only as the model  <class>.__iter__  (single outcome: a tuple of the items)
                hook = self.registry.call_hook(self, h.ghost_id + '.__iter__', st)
                if hook is None:
                    raise Unsupported('abstract object %s has no model for iteration' % h.ghost_id)
                outs = list(hook(self, st, [v], {}))
                if len(outs) != 1 or outs[0][0] != 'val' or outs[0][1] is not st or not isinstance(outs[0][2], tuple):
                    raise Unsupported('iteration over abstract object %s is not a single tuple' % h.ghost_id)
                return list(outs[0][2])
        if isinstance(v, FrozenDict):
            return list(v.d.keys())
        from .loops import SRange, _range_items_if_decided
        if isinstance(v, SRange):
            items = _range_items_if_decided(self, v, st)      # symbolic range whose trip count the path condition fixes
            if items is None:
                raise Unsupported('iteration over a range whose length the path condition does not fix')
            return items
        if isinstance(v, (tuple, list, range, frozenset, str)):
            if isinstance(v, range) and len(v) > 4096:
                raise Unsupported('long concrete range')
            return list(v)
        if isinstance(v, (bytes, bytearray)):
            return list(v)
        if isinstance(v, SBytes):
            n = z3.simplify(z3.Length(v.t))
            if z3.is_int_value(n):
                return [mk_int(z3.BV2Int(v.t[i])) for i in range(n.as_long())]
            raise Unsupported('iteration over a byte string of symbolic length')
        if isinstance(v, self.models.LazyMap):
            return self.models.consume_map(self, st, v)
        raise Unsupported('iteration over %r' % (v,))

    def e_Call(self, e, st, sink):
        for s1, f in self.ev(e.func, st, sink):
            pos = list(e.args)
            for s2, args in self.ev_list(pos, s1, sink):
                kwnodes = [k for k in e.keywords]

                def evkw(i, st, acc):
                    if i == len(kwnodes):
                        yield st, acc
                        return
                    k = kwnodes[i]
                    for s3, v in self.ev(k.value, st, sink):
                        if k.arg is None:
                            if isinstance(v, Ref) and s3.heap[v.oid].kind == 'dict':
                                d = dict(acc)
                                d.update(s3.heap[v.oid].items)
                            elif isinstance(v, FrozenDict):
                                d = dict(acc)
                                d.update(v.d)
                            else:
                                raise Unsupported('** of non-dict')
                        else:
                            d = dict(acc)
                            d[k.arg] = v
                        for r in evkw(i + 1, s3, d):
                            yield r
                for s3, kwargs in evkw(0, s2, {}):
                    for o in self.call(f, args, kwargs, s3, node=e):
                        if o[0] == 'raise':
                            sink.append(o)
                        else:
                            yield o[1], o[2]

    # ------------------------------------------------------------------ calls
    def call(self, f, args, kwargs, st, node=None):
        """returns list of ('val', st, v) | ('raise', st, exc)"""
        if isinstance(f, BoundV):
            return self.call(f.func, [f.selfv] + list(args), kwargs, st, node)
        if isinstance(f, BuiltinV):
            return list(f.fn(self, st, list(args), dict(kwargs)))
        if isinstance(f, FuncV):
            return self.call_function(f, list(args), dict(kwargs), st)
        if isinstance(f, ClassV):
            return self.instantiate(f, list(args), dict(kwargs), st)
        if isinstance(f, PyClassV):
            if issubclass(f.py, BaseException):
                return [('val', st, ExcV(f, args))]
            b = self.models.CLASS_CALLS.get(f.py.__name__)
            if b is not None:
                return list(b(self, st, list(args), dict(kwargs)))
            raise Unsupported('call of python class %s' % f.py.__name__)
        if isinstance(f, Ref):
            h = st.heap[f.oid]
            m = h.cls.find_method('__call__') if h.kind == 'obj' and h.cls else None
            if m is not None:
                return self.call_function(FuncV(m), [f] + list(args), dict(kwargs), st)
            gid = getattr(h, 'ghost_id', None)
            if h.kind == 'obj' and h.cls is None and gid and self.registry is not None:
                # abstract (native / opaque) callable object: its call is the contract  <class>.__call__
                hook = self.registry.call_hook(self, gid + '.__call__', st)
                if hook is not None:
                    return list(hook(self, st, [f] + list(args), dict(kwargs)))
            mv = self.models.call_object(self, st, f, h, args, kwargs)
            if mv is not _MISSING:
                return mv
        if isinstance(f, SOpaque):
            mv = self.models.call_opaque(self, st, f, args, kwargs)
            if mv is not _MISSING:
                return mv
        if f is None or is_intlike(f) or is_byteslike(f) or isinstance(f, (str, tuple)):
            return [('raise', st, exc(TypeError, 'object is not callable'))]
        raise Unsupported('call of %r' % (f,))

    def call_function(self, fv, args, kwargs, st):
        fi = fv.info
        reg = self.registry
        if reg is not None:
            h = reg.call_hook(self, fi.qualname, st)
            if h is not None:
                return list(h(self, st, args, kwargs))
        return self.inline(fv, args, kwargs, st)

    def bind_params(self, fv, args, kwargs, st):
        """python parameter binding -> list of outcomes ('env', st, env) | ('raise', st, exc)"""
        fi = fv.info
        a = fi.node.args
        names = [x.arg for x in a.posonlyargs + a.args]
        env = {}
        args = list(args)
        kwargs = dict(kwargs)
        if len(args) > len(names) and a.vararg is None:
            return [('raise', st, exc(TypeError, 'too many positional arguments'))]
        for nm, v in zip(names, args):
            env[nm] = v
        extra = args[len(names):]
        if a.vararg is not None:
            env[a.vararg.arg] = tuple(extra)
        defaults = a.defaults
        first_default = len(names) - len(defaults)
        outs = []
        pending = []
        for i, nm in enumerate(names):
            if nm in env:
                if nm in kwargs:
                    return [('raise', st, exc(TypeError, 'multiple values for argument'))]
                continue
            if nm in kwargs:
                env[nm] = kwargs.pop(nm)
            elif i >= first_default:
                pending.append((nm, defaults[i - first_default]))
            else:
                return [('raise', st, exc(TypeError, 'missing argument %s' % nm))]
        for k, d in zip(a.kwonlyargs, a.kw_defaults):
            if k.arg in kwargs:
                env[k.arg] = kwargs.pop(k.arg)
            elif d is not None:
                pending.append((k.arg, d))
            else:
                return [('raise', st, exc(TypeError, 'missing keyword argument %s' % k.arg))]
        if kwargs:
            if a.kwarg is None:
                return [('raise', st, exc(TypeError, 'unexpected keyword argument'))]
        # defaults are evaluated in the defining module (constants in this code base)
        dd = getattr(fv, 'def_defaults', None)
        for nm, d in pending:
            if dd is not None and (d.lineno, d.col_offset) in dd:
                env[nm] = dd[(d.lineno, d.col_offset)]
            else:
                env[nm] = self.eval_default(fi, d)
        if a.kwarg is not None:
            env[a.kwarg.arg] = st.alloc(HObj('dict', items=dict(kwargs)))
        return [('env', st, env)]

    def eval_default(self, fi, node):
        key = ('default', fi.qualname, node.lineno, node.col_offset)
        if key not in self.module_cache:
            self.module_cache[key] = self.eval_module_expr(fi.module, node)
        return self.module_cache[key]

    def inline(self, fv, args, kwargs, st):
        fi = fv.info
        if len(st.frames) > self.max_inline_depth:
            raise Unsupported('inline depth exceeded at ' + fi.qualname)
        outs = []
        for b in self.bind_params(fv, args, kwargs, st):
            if b[0] == 'raise':
                outs.append(b)
                continue
            _, s1, env = b
            clo = getattr(fv, 'closure', None)
            if clo:
                e2 = dict(clo)
                e2.update(env)
                env = e2
            fr = Frame(env, fi.module, fi, fi.cls)
            fr.spec_mode = st.frame.spec_mode if st.frames else False
            s1.frames.append(fr)
            for o in self.run_body(fi, s1):
                s2 = o[1]
                s2.frames.pop()
                if o[0] == 'fall':
                    outs.append(('val', s2, None))
                elif o[0] == 'ret':
                    outs.append(('val', s2, o[2]))
                elif o[0] == 'raise':
                    outs.append(o)
                else:
                    raise Unsupported('break/continue outside loop')
        return outs

    def run_body(self, fi, st):
        body = fi.node.body
        return self.run_block(body, st)

    def instantiate(self, cv, args, kwargs, st):
        ci = cv.info
        reg = self.registry
        if reg is not None:
            h = reg.call_hook(self, ci.qualname, st)
            if h is not None:
                return list(h(self, st, args, kwargs))
        if any(issubclass(b, BaseException) for b in ci.py_bases()):
            if ci.find_method('__init__') is None:
                return [('val', st, ExcV(cv, args))]
        ref = st.alloc(HObj('obj', cls=ci))
        init = ci.find_method('__init__')
        if init is None:
            if args or kwargs:
                return [('raise', st, exc(TypeError, 'takes no arguments'))]
            return [('val', st, ref)]
        outs = []
        for o in self.call_function(FuncV(init), [ref] + args, kwargs, st):
            if o[0] == 'raise':
                outs.append(o)
            else:
                outs.append(('val', o[1], ref))
        return outs

    # ------------------------------------------------------------------ statements
    def run_block(self, stmts, st):
        outs = [('fall', st)]
        for stmt in stmts:
            nxt = []
            progressed = False
            for o in outs:
                if o[0] != 'fall':
                    nxt.append(o)
                    continue
                progressed = True
                nxt.extend(self.run_stmt(stmt, o[1]))
            outs = nxt
            if not progressed:
                break
        return outs

    def run_stmt(self, n, st):
        m = getattr(self, 's_' + type(n).__name__, None)
        if m is None:
            raise Unsupported('statement ' + type(n).__name__)
        return m(n, st)

    def s_Expr(self, n, st):
        if isinstance(n.value, ast.Constant):
            return [('fall', st)]
        sink = []
        outs = [('fall', s1) for s1, _ in self.ev(n.value, st, sink)]
        return sink + outs

    def s_Pass(self, n, st):
        return [('fall', st)]

    def s_Break(self, n, st):
        return [('break', st)]

    def s_Continue(self, n, st):
        return [('cont', st)]

    def s_Global(self, n, st):
        raise Unsupported('global statement')

    def s_Import(self, n, st):
        for a in n.names:
            nm = a.asname or a.name.split('.')[0]
            st.frame.env[nm] = self.import_value(a.name if a.asname else a.name.split('.')[0], None)
        return [('fall', st)]

    def s_ImportFrom(self, n, st):
        mod = n.module or ''
        if n.level:
            base = st.frame.module.name.split('.')
            if not st.frame.module.path.endswith('__init__.py'):
                base = base[:-1]
            base = base[:len(base) - (n.level - 1)]
            mod = '.'.join(base + ([mod] if mod else []))
        for a in n.names:
            st.frame.env[a.asname or a.name] = self.import_value(mod, a.name, st)
        return [('fall', st)]

    def s_FunctionDef(self, n, st):
        fi = loader.FuncInfo(n, st.frame.module)
        fv = FuncV(fi)
        fv.closure = st.frame.env
        # default values of a nested def are evaluated once, at definition time, in the defining scope
        dd = {}
        for d in list(n.args.defaults) + [k for k in n.args.kw_defaults if k is not None]:
            dsink = []
            r = list(self.ev(d, st, dsink))
            if len(r) != 1 or dsink or r[0][0] is not st:
                raise Unsupported('default value of nested def %s is not a single value' % n.name)
            dd[(d.lineno, d.col_offset)] = r[0][1]
        fv.def_defaults = dd
        st.frame.env[n.name] = fv
        return [('fall', st)]

    def s_ClassDef(self, n, st):
        """a class statement inside a function body (`class InputComps(object): pass`, the `EcLib` namespaces of the curve
        loaders).  Supported bodies: docstrings, pass, methods that use no closure variable, and `name = <expr>` attributes whose
        value is evaluated NOW in the enclosing scope and does not live in the heap; anything else is outside the subset."""
        if n.keywords or n.decorator_list:
            raise Unsupported('local class with keywords/decorators')
        ci = loader.ClassInfo(n, st.frame.module)
        self.counter += 1
        ci.qualname = '%s.<local#%d>.%s' % (st.frame.module.name, self.counter, n.name)
        for stmt in n.body:
            if isinstance(stmt, (ast.Pass, ast.FunctionDef)) or (isinstance(stmt, ast.Expr) and isinstance(stmt.value, ast.Constant)):
                continue
            if isinstance(stmt, ast.Assign) and len(stmt.targets) == 1 and isinstance(stmt.targets[0], ast.Name):
                sink = []
                r = list(self.ev(stmt.value, st, sink))
                if len(r) != 1 or sink or r[0][0] is not st:
                    raise Unsupported('attribute %s of local class %s is not a single value' % (stmt.targets[0].id, n.name))
                v = r[0][1]
                if isinstance(v, (Ref, LazyUnion)) or (isinstance(v, BoundV) and isinstance(v.selfv, Ref)) or \
                        (isinstance(v, tuple) and not _conc(v)):
                    raise Unsupported('attribute %s of local class %s lives in the heap' % (stmt.targets[0].id, n.name))
                self.module_cache[(ci.qualname, stmt.targets[0].id)] = v
                continue
            raise Unsupported('statement %s in the body of local class %s' % (type(stmt).__name__, n.name))
        st.frame.env[n.name] = ClassV(ci)
        return [('fall', st)]

    def s_Assert(self, n, st):
        sink = []
        outs = []
        for s1, v in self.ev(n.test, st, sink):
            t = self.truth(v, s1)
            # (the mode of the LIVE state s1: `st` may be a stale object that still carries the spec frame a contract
            # application pushed while the test was evaluated -- an assert after a call must stay an obligation)
            if s1.frames and s1.frame.spec_mode:
                s1.assume(t if not isinstance(t, bool) else z3.BoolVal(t))
                outs.append(('fall', s1))
                continue
            a, b = self.split(s1, t)
            if b is not None:
                outs.append(('raise', b, exc(AssertionError)))
            if a is not None:
                outs.append(('fall', a))
        return sink + outs

    def s_Assign(self, n, st):
        sink = []
        outs = []
        for s1, v in self.ev(n.value, st, sink):
            sts = [s1]
            for tgt in n.targets:
                nxt = []
                for s2 in sts:
                    nxt.extend(self.assign(tgt, v, s2, sink))
                sts = nxt
            outs.extend(('fall', s2) for s2 in sts)
        return sink + outs

    def s_AnnAssign(self, n, st):
        if n.value is None:
            return [('fall', st)]
        return self.s_Assign(ast.Assign(targets=[n.target], value=n.value), st)

    def s_AugAssign(self, n, st):
        sink = []
        outs = []
        tgt = n.target
        load = _as_load(tgt)
        # evaluate target sub-expressions once (attribute base / subscript base+index)
        for s1, cur in self.ev(load, st, sink):
            for s2, rhs in self.ev(n.value, s1, sink):
                done = False
                if isinstance(cur, Ref):
                    h = s2.heap[cur.oid]
                    if h.kind == 'obj' and h.cls is not None:
                        nm = _INPLACE.get(type(n.op))
                        f = h.cls.find_method(nm) if nm else None
                        if f is not None:
                            for o in self.call_function(FuncV(f), [cur, rhs], {}, s2):
                                if o[0] == 'raise':
                                    sink.append(o)
                                else:
                                    outs.extend(('fall', s3) for s3 in self.assign(tgt, o[2], o[1], sink))
                            done = True
                    elif h.kind == 'list' and isinstance(n.op, ast.Add):
                        h.items.extend(self.iter_concrete(rhs, s2))
                        outs.append(('fall', s2))
                        done = True
                    elif h.kind == 'acc' and isinstance(n.op, ast.Add):
                        # accumulator abstraction (count, last, joined): `t += [x, ...]` is a sequence of appends
                        for x in self.iter_concrete(rhs, s2):
                            if not is_byteslike(x):
                                raise Unsupported('accumulator list: += of a non-bytes item')
                            cnt, _last, joined = h.items
                            h.items = [mk_int(zint(cnt) + 1), x, mk_bytes(z3.Concat(zbytes(joined), zbytes(x)))]
                        s2.writes.append((cur.oid, '<items>'))
                        outs.append(('fall', s2))
                        done = True
                    elif h.kind == 'bytearray' and isinstance(n.op, ast.Add):
                        if not is_byteslike(rhs) and not (isinstance(rhs, Ref) and s2.heap[rhs.oid].kind == 'bytearray'):
                            sink.append(('raise', s2, exc(TypeError, "can't concat")))
                        else:
                            r = s2.heap[rhs.oid].items if isinstance(rhs, Ref) else rhs
                            h.items = mk_bytes(z3.Concat(zbytes(h.items), zbytes(r)))
                            s2.writes.append((cur.oid, '<data>'))
                            outs.append(('fall', s2))
                        done = True
                if not done:
                    for s3, v in self.binop(n.op, cur, rhs, s2, sink):
                        outs.extend(('fall', s4) for s4 in self.assign(tgt, v, s3, sink))
        return sink + outs

    def assign(self, tgt, v, st, sink, sink_stmt=None):
        """returns list of states"""
        if isinstance(tgt, ast.Name):
            st.frame.env[tgt.id] = v
            return [st]
        if isinstance(tgt, ast.Attribute):
            outs = []
            for s1, base in self.ev(tgt.value, st, sink):
                if isinstance(base, Ref) and s1.heap[base.oid].kind == 'obj':
                    h = s1.heap[base.oid]
                    if h.cls is not None:
                        f = h.cls.find_method(tgt.attr)
                        if f is not None and f.kind == 'property':
                            raise Unsupported('assignment to property')
                        if h.cls.find_method('__setattr__'):
                            raise Unsupported('__setattr__')
                    if tgt.attr == '__dict__':
                        # obj.__dict__ = <record dict>: replaces all instance fields (CMAC.copy idiom)
                        d = s1.heap[v.oid].items if isinstance(v, Ref) and s1.heap[v.oid].kind == 'dict' else \
                            v.d if isinstance(v, FrozenDict) else None
                        if d is None or not all(isinstance(k, str) for k in d):
                            raise Unsupported('__dict__ assignment of a non-record')
                        for k in set(h.fields) | set(d):
                            s1.writes.append((base.oid, k))
                        h.fields = dict(d)
                        outs.append(s1)
                        continue
                    h.fields[tgt.attr] = v
                    s1.writes.append((base.oid, tgt.attr))
                    outs.append(s1)
                else:
                    raise Unsupported('attribute assignment on %r' % (base,))
            return outs
        if isinstance(tgt, (ast.Tuple, ast.List)):
            items = self.iter_concrete(v, st) if not isinstance(v, tuple) else list(v)
            if any(isinstance(x, ast.Starred) for x in tgt.elts):
                raise Unsupported('starred assignment')
            if len(items) != len(tgt.elts):
                sink.append(('raise', st, exc(ValueError, 'unpack')))
                return []
            sts = [st]
            for t, x in zip(tgt.elts, items):
                nxt = []
                for s1 in sts:
                    nxt.extend(self.assign(t, x, s1, sink))
                sts = nxt
            return sts
        if isinstance(tgt, ast.Subscript):
            from .ops import store_subscript
            outs = []
            for s1, base in self.ev(tgt.value, st, sink):
                if isinstance(tgt.slice, ast.Slice):
                    parts = [tgt.slice.lower, tgt.slice.upper, tgt.slice.step]
                    for s2, vs in self.ev_list([p if p is not None else ast.Constant(value=None) for p in parts], s1, sink):
                        outs.extend(store_subscript(self, base, slice(*vs), v, s2, sink))
                else:
                    for s2, idx in self.ev(tgt.slice, s1, sink):
                        outs.extend(store_subscript(self, base, idx, v, s2, sink))
            return outs
        raise Unsupported('assignment target ' + type(tgt).__name__)

    def s_Delete(self, n, st):
        sink = []
        sts = [st]
        for tgt in n.targets:
            nxt = []
            for s0 in sts:
                if isinstance(tgt, ast.Name):
                    s0.frame.env.pop(tgt.id, None)
                    nxt.append(s0)
                elif isinstance(tgt, ast.Attribute):
                    for s1, base in self.ev(tgt.value, s0, sink):
                        if isinstance(base, Ref) and s1.heap[base.oid].kind == 'obj':
                            if tgt.attr in s1.heap[base.oid].fields:
                                del s1.heap[base.oid].fields[tgt.attr]
                                s1.writes.append((base.oid, tgt.attr))
                                nxt.append(s1)
                            else:
                                sink.append(('raise', s1, exc(AttributeError, tgt.attr)))
                        else:
                            raise Unsupported('del attribute')
                elif isinstance(tgt, ast.Subscript):
                    for s1, base in self.ev(tgt.value, s0, sink):
                        for s2, idx in self.ev(tgt.slice, s1, sink):
                            if isinstance(base, Ref) and s2.heap[base.oid].kind == 'dict' and self.is_hashable_concrete(idx):
                                if idx in s2.heap[base.oid].items:
                                    del s2.heap[base.oid].items[idx]
                                    nxt.append(s2)
                                else:
                                    sink.append(('raise', s2, exc(KeyError, idx)))
                            else:
                                raise Unsupported('del subscript')
                else:
                    raise Unsupported('del target')
            sts = nxt
        return sink + [('fall', s) for s in sts]

    def s_Return(self, n, st):
        if n.value is None:
            return [('ret', st, None)]
        sink = []
        outs = [('ret', s1, v) for s1, v in self.ev(n.value, st, sink)]
        return sink + outs

    def s_Raise(self, n, st):
        if n.exc is None:
            h = st.frame.handling
            if h is None:
                raise Unsupported('bare raise outside handler')
            return [('raise', st, h)]
        sink = []
        outs = []
        for s1, v in self.ev(n.exc, st, sink):
            if isinstance(v, ExcV):
                outs.append(('raise', s1, v))
            elif isinstance(v, PyClassV) and issubclass(v.py, BaseException):
                outs.append(('raise', s1, ExcV(v, ())))
            elif isinstance(v, ClassV):
                for o in self.instantiate(v, [], {}, s1):
                    outs.append(('raise', o[1], o[2]) if o[0] == 'val' else o)
            else:
                raise Unsupported('raise of %r' % (v,))
        return sink + outs

    def s_If(self, n, st):
        sink = []
        outs = []
        for s1, c in self.ev(n.test, st, sink):
            a, b = self.split(s1, self.truth(c, s1), label='if@%d' % n.lineno)
            if a is not None:
                outs.extend(self.run_block(n.body, a))
            if b is not None:
                outs.extend(self.run_block(n.orelse, b))
        return sink + outs

    def s_With(self, n, st):
        # only context managers whose __enter__/__exit__ are modelled as no-ops (locks); the
        # registry records the enter/exit so that lock-ownership contracts (C19) can see it
        sink = []
        sts = [st]
        mgrs = []
        for item in n.items:
            nxt = []
            for s0 in sts:
                for s1, v in self.ev(item.context_expr, s0, sink):
                    if not self.models.is_lock_like(self, s1, v):
                        raise Unsupported('with on non-lock object')
                    s1.ghost['locks_held'] = s1.ghost.get('locks_held', ()) + (self.models.lock_id(self, s1, v),)
                    # lock events are also put into the write log (pseudo object -1) so that a contract can tell which heap writes
                    # happened while the lock was held (C19 lock discipline: spec form writes_outside_lock)
                    s1.writes.append((-1, '<lock+>'))
                    if item.optional_vars is not None:
                        nxt.extend(self.assign(item.optional_vars, v, s1, sink))
                    else:
                        nxt.append(s1)
            sts = nxt
        outs = list(sink)
        for s1 in sts:
            for o in self.run_block(n.body, s1):
                held = o[1].ghost.get('locks_held', ())
                o[1].ghost['locks_held'] = held[:len(held) - len(n.items)]
                for _i in n.items:
                    o[1].writes.append((-1, '<lock->'))
                outs.append(o)
        return outs

    def exc_matches(self, ex, handler_type, st):
        """does exception instance `ex` match the handler's type value?  python bool"""
        if handler_type is None:
            return True
        if isinstance(handler_type, tuple):
            return any(self.exc_matches(ex, t, st) for t in handler_type)
        if isinstance(handler_type, PyClassV):
            if isinstance(ex.cls, PyClassV):
                return issubclass(ex.cls.py, handler_type.py)
            return ex.cls.info.is_subclass_of(handler_type.py)
        if isinstance(handler_type, ClassV):
            if isinstance(ex.cls, ClassV):
                return ex.cls.info.is_subclass_of(handler_type.info)
            return False
        raise Unsupported('except clause type %r' % (handler_type,))

    def s_Try(self, n, st):
        outs = []
        body_outs = self.run_block(n.body, st)
        after = []
        for o in body_outs:
            if o[0] == 'raise':
                s1, ex = o[1], o[2]
                handled = False
                for h in n.handlers:
                    sink = []
                    if h.type is None:
                        htype = None
                    else:
                        r = list(self.ev(h.type, s1, sink))
                        if len(r) != 1 or sink:
                            raise Unsupported('except type expression')
                        s1, htype = r[0]
                    if self.exc_matches(ex, htype, s1):
                        if h.name:
                            s1.frame.env[h.name] = ex
                        prev = s1.frame.handling
                        s1.frame.handling = ex
                        for ho in self.run_block(h.body, s1):
                            ho[1].frame.handling = prev
                            after.append(ho)
                        handled = True
                        break
                if not handled:
                    after.append(o)
            elif o[0] == 'fall' and n.orelse:
                after.extend(self.run_block(n.orelse, o[1]))
            else:
                after.append(o)
        if not n.finalbody:
            return after
        for o in after:
            for fo in self.run_block(n.finalbody, o[1]):
                if fo[0] == 'fall':
                    outs.append((o[0], fo[1]) + tuple(o[2:]))
                else:
                    outs.append(fo)
        return outs

    # loops --------------------------------------------------------------
    def loop_spec(self, st, node):
        fi = st.frame.func
        if fi is None:
            return None
        specs = self.loop_specs.get(fi.qualname)
        if not specs:
            return None
        loops = [x for x in ast.walk(fi.node) if isinstance(x, (ast.While, ast.For))]
        loops.sort(key=lambda x: (x.lineno, x.col_offset))
        k = loops.index(node)
        return specs.get(k)

    def s_While(self, n, st):
        from .loops import run_while
        return run_while(self, n, st)

    def s_For(self, n, st):
        from .loops import run_for
        return run_for(self, n, st)


SPEC_BUILTINS = {}      # filled by contracts.py (be, i2osp, rep, implies ...)


_SEQ_MEMO = {}


def _mentions_seq_ops(t):
    """does the formula contain sequence operations other than Length of an uninterpreted constant?"""
    k = t.get_id()
    if k in _SEQ_MEMO:
        return _SEQ_MEMO[k]
    res = False
    todo = [t]
    seen = set()
    while todo and not res:
        x = todo.pop()
        if x.get_id() in seen:
            continue
        seen.add(x.get_id())
        if z3.is_app(x):
            kind = x.decl().kind()
            if kind == z3.Z3_OP_SEQ_LENGTH and z3.is_const(x.arg(0)) and x.arg(0).decl().kind() == z3.Z3_OP_UNINTERPRETED:
                continue
            if z3.is_seq(x) and not (z3.is_const(x) and x.decl().kind() == z3.Z3_OP_UNINTERPRETED):
                res = True
                break
            if kind in (z3.Z3_OP_SEQ_LENGTH, z3.Z3_OP_SEQ_NTH, z3.Z3_OP_SEQ_INDEX, z3.Z3_OP_SEQ_CONTAINS, z3.Z3_OP_SEQ_PREFIX, z3.Z3_OP_SEQ_SUFFIX):
                res = True
                break
            todo.extend(x.children())
        elif z3.is_quantifier(x):
            res = True
    if len(_SEQ_MEMO) > 200000:
        _SEQ_MEMO.clear()
    _SEQ_MEMO[k] = res
    return res


class FrozenDict:
    """module-level dict constants"""

    def __init__(self, d):
        self.d = d

    def __repr__(self):
        return 'FrozenDict(%r)' % (self.d,)


class _Missing:
    def __repr__(self):
        return '<missing>'


_MISSING = _Missing()

_INPLACE = {ast.Add: '__iadd__', ast.Sub: '__isub__', ast.Mult: '__imul__', ast.FloorDiv: '__ifloordiv__',
            ast.Mod: '__imod__', ast.Pow: '__ipow__', ast.BitAnd: '__iand__', ast.BitOr: '__ior__',
            ast.BitXor: '__ixor__', ast.LShift: '__ilshift__', ast.RShift: '__irshift__'}


def _conc(v):
    """a fully concrete python value (recursively)"""
    if isinstance(v, (SV, SStr, Ref, FuncV, BoundV, ClassV, ExcV, BuiltinV, ModuleV)):
        return False
    if isinstance(v, tuple):
        return all(_conc(x) for x in v)
    return isinstance(v, (int, bool, bytes, str, float, type(None), frozenset, range, PyClassV))


def _as_load(t):
    import copy
    t2 = copy.copy(t)
    t2.ctx = ast.Load()
    return t2


def _target_names(t):
    if isinstance(t, ast.Name):
        return [t.id]
    if isinstance(t, (ast.Tuple, ast.List)):
        out = []
        for x in t.elts:
            out += _target_names(x)
        return out
    return []
