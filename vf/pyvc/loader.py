"""Loads the real source of /repo (and of /verif/spec) as ASTs, on every run.

Nothing of a function body is dropped.  Docstrings, comments, decorators other
than staticmethod/classmethod/property, and annotations carry no semantics for
the supported functions and are ignored (DESIGN.md 2.3).
"""
import ast
import hashlib
import os

REPO_LIB = os.environ.get('VERIF_REPO_LIB') or os.path.join(os.environ.get('VERIF_REPO', '/repo'), 'lib')
VERIF_ROOT = os.path.dirname(os.path.dirname(os.path.dirname(os.path.abspath(__file__))))

_modules = {}


class FuncInfo:
    def __init__(self, node, module, cls=None):
        self.node = node
        self.module = module
        self.cls = cls
        self.name = node.name
        self.qualname = module.name + '.' + ((cls.name + '.') if cls else '') + node.name
        self.kind = 'function'
        for d in node.decorator_list:
            if isinstance(d, ast.Name) and d.id in ('staticmethod', 'classmethod', 'property'):
                self.kind = d.id
        self._sha = None

    def source_id(self):
        """path, line span and SHA-256 of the function text (for the evidence)"""
        if self._sha is None:
            seg = '\n'.join(self.module.lines[self.node.lineno - 1:self.node.end_lineno])
            self._sha = hashlib.sha256(seg.encode()).hexdigest()[:16]
        return {'file': os.path.relpath(self.module.path, '/'), 'lines': [self.node.lineno, self.node.end_lineno],
                'sha256_16': self._sha}


class ClassInfo:
    def __init__(self, node, module):
        self.node = node
        self.module = module
        self.name = node.name
        self.qualname = module.name + '.' + node.name
        self.methods = {}
        self.attr_nodes = {}
        for n in node.body:
            if isinstance(n, ast.FunctionDef):
                self.methods[n.name] = FuncInfo(n, module, self)
            elif isinstance(n, ast.Assign):
                for t in n.targets:
                    if isinstance(t, ast.Name):
                        self.attr_nodes[t.id] = n.value
        self._bases = None

    def bases(self):
        """list of ClassInfo or python classes"""
        if self._bases is None:
            out = []
            for b in self.node.bases:
                v = self.module.resolve_static(b)
                out.append(v)
            self._bases = out
        return self._bases

    def mro(self):
        out = [self]
        for b in self.bases():
            if isinstance(b, ClassInfo):
                for c in b.mro():
                    if c not in out:
                        out.append(c)
        return out

    def py_bases(self):
        out = []
        for c in self.mro():
            for b in c.bases():
                if isinstance(b, type):
                    out.append(b)
        return out

    def find_method(self, name):
        for c in self.mro():
            if name in c.methods:
                return c.methods[name]
        return None

    def find_attr_node(self, name):
        for c in self.mro():
            if name in c.attr_nodes:
                return c, c.attr_nodes[name]
        return None, None

    def is_subclass_of(self, other):
        if isinstance(other, ClassInfo):
            return other in self.mro()
        if isinstance(other, type):
            return any(issubclass(b, other) for b in self.py_bases()) or other is object
        return False


def _static_version_test(test):
    """value of a module-level test that mentions nothing but sys.version_info and constants; None if it mentions more"""
    for x in ast.walk(test):
        if isinstance(x, ast.Name) and x.id != 'sys':
            return None
        if isinstance(x, ast.Attribute) and not (isinstance(x.value, ast.Name) and x.value.id == 'sys' and x.attr == 'version_info'):
            return None
        if isinstance(x, (ast.Call, ast.Lambda)):
            return None
    class _S:
        version_info = (3, 12, 1, 'final', 0)
    try:
        return bool(eval(compile(ast.Expression(body=test), '<version test>', 'eval'), {'__builtins__': {}}, {'sys': _S}))
    except Exception:      # noqa
        return None


class ModuleInfo:
    def __init__(self, name, path):
        self.name = name
        self.path = path
        src = open(path).read()
        self.lines = src.split('\n')
        self.tree = ast.parse(src, path)
        self.stars = []       # modules imported with `from X import *`
        self.defs = {}        # name -> ('func', FuncInfo) | ('class', ClassInfo) | ('import', modname, attr|None) | ('assign', node)
        self._scan(self.tree.body)

    def _scan(self, body):
        for n in body:
            if isinstance(n, ast.FunctionDef):
                self.defs[n.name] = ('func', FuncInfo(n, self))
            elif isinstance(n, ast.ClassDef):
                self.defs[n.name] = ('class', ClassInfo(n, self))
            elif isinstance(n, ast.Import):
                for a in n.names:
                    if a.asname:
                        self.defs[a.asname] = ('import', a.name, None)
                    else:
                        self.defs[a.name.split('.')[0]] = ('import', a.name.split('.')[0], None)
            elif isinstance(n, ast.ImportFrom):
                mod = n.module or ''
                if n.level:
                    base = self.name.split('.')
                    if not self.path.endswith('__init__.py'):
                        base = base[:-1]
                    base = base[:len(base) - (n.level - 1)]
                    mod = '.'.join(base + ([mod] if mod else []))
                for a in n.names:
                    if a.name == '*':
                        self.stars.append(mod)
                    else:
                        self.defs[a.asname or a.name] = ('import', mod, a.name)
            elif isinstance(n, ast.Assign):
                for t in n.targets:
                    if isinstance(t, ast.Name):
                        self.defs[t.id] = ('assign', n.value)
                    elif isinstance(t, ast.Tuple) and all(isinstance(e, ast.Name) for e in t.elts):
                        for i, e in enumerate(t.elts):
                            self.defs[e.id] = ('assign_tuple', n.value, i)
            elif isinstance(n, (ast.If, ast.Try)):
                # module-level conditionals (py2/py3 switches, optional imports): take the
                # branch CPython 3 takes for `sys.version_info[0] == 2`-style tests; otherwise scan both, later wins
                if isinstance(n, ast.If):
                    txt = ast.unparse(n.test)
                    dec = _static_version_test(n.test) if 'version_info' in txt else None
                    if dec is not None:
                        # `sys.version_info[...] <op> (tuple)`: the branch CPython 3.12 takes (same value as models ('sys','version_info'))
                        self._scan(n.body if dec else n.orelse)
                        continue
                    if 'version_info' in txt and ('== 2' in txt or '< 3' in txt or '<3' in txt):
                        self._scan(n.orelse)
                        continue
                    if 'version_info' in txt and ('>= 3' in txt or '== 3' in txt or '> 2' in txt):
                        self._scan(n.body)
                        continue
                    self._scan(n.body)
                    self._scan(n.orelse)
                else:
                    self._scan(n.body)

    def get_class(self, name):
        d = self.defs.get(name)
        if d and d[0] == 'class':
            return d[1]
        if d and d[0] == 'import' and d[2]:
            m = load_module(d[1])
            if m:
                return m.get_class(d[2])
        return None

    def get_func(self, qual):
        parts = qual.split('.')
        d = self.defs.get(parts[0])
        if d is None:
            return None
        if d[0] == 'func' and len(parts) == 1:
            return d[1]
        if d[0] == 'class' and len(parts) == 2:
            return d[1].methods.get(parts[1])
        return None

    def resolve_static(self, node):
        """resolve a base-class expression without the engine"""
        import builtins
        if isinstance(node, ast.Name):
            d = self.defs.get(node.id)
            if d is None:
                py = getattr(builtins, node.id, None)
                if isinstance(py, type):
                    return py
                raise KeyError(node.id)
            if d[0] == 'class':
                return d[1]
            if d[0] == 'import' and d[2]:
                m = load_module(d[1])
                if m:
                    return m.resolve_static(ast.Name(id=d[2]))
                if not d[1].startswith('Crypto'):
                    # base class imported from the standard library (e.g. abc.ABC through py3compat): the real python class
                    import importlib
                    try:
                        py = getattr(importlib.import_module(d[1]), d[2], None)
                    except ImportError:
                        py = None
                    if isinstance(py, type):
                        return py
        if isinstance(node, ast.Attribute):
            if isinstance(node.value, ast.Name):
                d = self.defs.get(node.value.id)
                if d and d[0] == 'import' and d[2] is None:
                    m = load_module(d[1])
                    if m:
                        return m.resolve_static(ast.Name(id=node.attr))
        raise KeyError(ast.dump(node))


def module_path(name):
    parts = name.split('.')
    if parts[0] == 'Crypto':
        base = os.path.join(REPO_LIB, *parts)
    elif parts[0] == 'spec':
        base = os.path.join(VERIF_ROOT, *parts)
    else:
        return None
    if os.path.isfile(base + '.py'):
        return base + '.py'
    if os.path.isfile(os.path.join(base, '__init__.py')):
        return os.path.join(base, '__init__.py')
    return None


def load_module(name):
    if name in _modules:
        return _modules[name]
    p = module_path(name)
    m = ModuleInfo(name, p) if p else None
    _modules[name] = m
    return m


def find_function(qualname):
    """'Crypto.Util.asn1.DerObject._decodeLen' -> FuncInfo"""
    parts = qualname.split('.')
    for i in range(len(parts) - 1, 0, -1):
        m = load_module('.'.join(parts[:i]))
        if m:
            f = m.get_func('.'.join(parts[i:]))
            if f:
                return f
            break
    raise KeyError('function not found in the current tree: ' + qualname)


def find_class(qualname):
    parts = qualname.split('.')
    m = load_module('.'.join(parts[:-1]))
    c = m.get_class(parts[-1]) if m else None
    if c is None:
        raise KeyError('class not found in the current tree: ' + qualname)
    return c
