"""Loops: complete unrolling when the trip count is decided by the path condition, otherwise
cut by a sidecar invariant (establish, havoc, assume, preserve).  DESIGN.md 2.3."""
import ast
import z3

from .values import *      # noqa
from .interp import exc, _target_names


class SRange:
    """range() with symbolic bounds (step is a concrete positive int)"""

    def __init__(self, lo, hi, step=1):
        self.lo, self.hi, self.step = lo, hi, step


def _assigned_names(nodes):
    out = set()
    for n in nodes:
        for x in ast.walk(n):
            if isinstance(x, ast.Name) and isinstance(x.ctx, (ast.Store, ast.Del)):
                out.add(x.id)
            elif isinstance(x, ast.AugAssign):
                out.update(_target_names(x.target))
    return out


def havoc_value(E, v, name, st, typ=None):
    """a fresh value of the same python type as v (or of declared type `typ`)"""
    if typ == 'acc':
        # append-only accumulator abstraction (DESIGN 2.3) of a list of byte strings: the list object is turned IN PLACE
        # (aliases stay aliases) into (count, last, joined), all three unknown; exact for append / [-1] / len / b''.join,
        # every other operation on it is Unsupported
        if not (isinstance(v, Ref) and st.heap[v.oid].kind in ('list', 'acc')):
            raise Unsupported('acc abstraction of %s: not a list' % name)
        h = st.heap[v.oid]
        if h.kind == 'list' and not all(is_byteslike(x) for x in h.items):
            raise Unsupported('acc abstraction of %s: items are not byte strings' % name)
        cnt = E.fresh_int(name + '_count')
        st.assume(cnt.t >= 0)
        h.kind = 'acc'
        h.items = [cnt, E.fresh_bytes(name + '_last'), E.fresh_bytes(name + '_joined')]
        return v
    if typ == 'pacc':
        # PREPEND accumulator abstraction of a list of byte strings built with insert(0, x): the list object is turned IN PLACE into
        # (count, first, rest), all unknown, standing for the list [first] + <items whose concatenation is rest> when count >= 1.
        # Exact for insert(0, x) / [0] read and write / len / truth / b''.join; every other operation is Unsupported.
        if not (isinstance(v, Ref) and st.heap[v.oid].kind in ('list', 'pacc')):
            raise Unsupported('pacc abstraction of %s: not a list' % name)
        h = st.heap[v.oid]
        if h.kind == 'list' and not all(is_byteslike(x) for x in h.items):
            raise Unsupported('pacc abstraction of %s: items are not byte strings' % name)
        cnt = E.fresh_int(name + '_count')
        first, rest = E.fresh_bytes(name + '_first'), E.fresh_bytes(name + '_rest')
        st.assume(cnt.t >= 0)
        st.assume(z3.Implies(cnt.t == 0, z3.And(z3.Length(first.t) == 0, z3.Length(rest.t) == 0)))    # the empty list joins to b''
        h.kind = 'pacc'
        h.items = [cnt, first, rest]
        return v
    if isinstance(typ, str) and typ.startswith('alist'):
        # counted-list abstraction: the list object is turned IN PLACE into (count) -- exact for append and len, everything else
        # Unsupported.  What is known about the ELEMENTS is stated per append: options['on_append'][<hook>] = [clauses over `item`
        # and the state at the append], each an obligation at every append (typ = 'alist:<hook>').
        if not (isinstance(v, Ref) and st.heap[v.oid].kind in ('list', 'alist')):
            raise Unsupported('alist abstraction of %s: not a list' % name)
        h = st.heap[v.oid]
        old_n = len(h.items) if h.kind == 'list' else zint(h.items[0])
        cnt = E.fresh_int(name + '_count')
        st.assume(cnt.t >= old_n)
        h.kind = 'alist'
        h.items = [cnt]
        h.fields = {'__hook__': typ.split(':', 1)[1] if ':' in typ else ''}
        return v
    if typ is not None:
        from .contracts import fresh_typed
        return fresh_typed(E, st, typ, name)
    if isinstance(v, bool) or isinstance(v, SBool):
        return E.fresh_bool(name)
    if isinstance(v, int) or isinstance(v, SInt):
        return E.fresh_int(name)
    if isinstance(v, (bytes, SBytes)):
        return E.fresh_bytes(name, v.kind if isinstance(v, SBytes) else 'bytes')
    if isinstance(v, tuple):
        return tuple(havoc_value(E, x, '%s_%d' % (name, i), st) for i, x in enumerate(v))
    raise Unsupported('cannot havoc %s of value %r (declare its type in the loop spec)' % (name, v))


def _merge_loop_exits(outs):
    return outs


def run_while(E, n, st):
    if n.orelse:
        raise Unsupported('while-else')
    spec = E.loop_spec(st, n)
    if spec is None:
        return _unroll_while(E, n, st)
    # `peel: k` executes the first k iterations explicitly (while c: B == if c: B; while c: B) and cuts the rest by the
    # invariant: for loops whose first iteration differs in kind (e.g. a sentinel int later replaced by an object)
    outs = []
    states = [st]
    for _ in range(int(spec.get('peel', 0) or 0)):
        nxt = []
        for s0 in states:
            sink = []
            for s1, c in E.ev(n.test, s0, sink):
                a, b = E.split(s1, E.truth(c, s1), label='peel@%d' % n.lineno)
                if b is not None:
                    outs.append(('fall', b))
                if a is not None:
                    for o in E.run_block(n.body, a):
                        if o[0] in ('fall', 'cont'):
                            nxt.append(o[1])
                        elif o[0] == 'break':
                            outs.append(('fall', o[1]))
                        else:
                            outs.append(o)
            outs.extend(sink)
        states = nxt
    for s0 in states:
        outs.extend(_cut_loop(E, n, s0, spec, kind='while'))
    return outs


def _unroll_while(E, n, st):
    outs = []
    work = [(st, 0, 0)]
    while work:
        s0, k, forks = work.pop()
        sink = []
        for s1, c in E.ev(n.test, s0, sink):
            a, b = E.split(s1, E.truth(c, s1), label='while@%d' % n.lineno)
            if b is not None:
                outs.append(('fall', b))
            if a is not None:
                f2 = forks + (1 if b is not None else 0)
                if k >= E.unroll_limit or f2 > E.options.get('fork_unroll_limit', 6):
                    # the trip count is not decided by the path condition: the paths explored so far are kept (their obligations
                    # are checked: a violation found there is a violation), the remaining ones make the function undecided
                    E.truncated.append('loop at line %d needs an invariant (unrolled %d times, %d undecided guards, still feasible)'
                                       % (n.lineno, k, f2))
                    continue
                for o in E.run_block(n.body, a):
                    if o[0] in ('fall', 'cont'):
                        work.append((o[1], k + 1, f2))
                    elif o[0] == 'break':
                        outs.append(('fall', o[1]))
                    else:
                        outs.append(o)
        outs.extend(sink)
    return outs


def run_for(E, n, st):
    spec = E.loop_spec(st, n)
    sink = []
    outs = []
    for s1, itv in E.ev(n.iter, st, sink):
        items = None
        if spec is None or spec.get('unroll'):
            try:
                items = E.iter_concrete(itv, s1) if not isinstance(itv, SRange) else None
            except Unsupported:
                items = None
            if items is None and isinstance(itv, SRange):
                # symbolic range whose trip count the path condition fixes
                items = _range_items_if_decided(E, itv, s1)
        if items is not None:
            outs.extend(_unroll_for(E, n, s1, items, sink))
            continue
        if spec is None:
            raise Unsupported('for loop at line %d over a symbolic iterable needs an invariant' % n.lineno)
        outs.extend(_cut_loop(E, n, s1, spec, kind='for', iterable=itv))
    return sink + outs


def _range_items_if_decided(E, r, st):
    lo, hi = zint(r.lo), zint(r.hi)
    for cnt in range(0, 20):
        t = (hi - lo <= 0) if cnt == 0 else z3.And(hi - lo > (cnt - 1) * r.step, hi - lo <= cnt * r.step)
        if E.implied(st, t):
            return [mk_int(lo + k * r.step) for k in range(cnt)]
    return None


def _unroll_for(E, n, st, items, sink):
    outs = []
    sts = [st]
    for it in items:
        nxt = []
        for s0 in sts:
            for s1 in E.assign(n.target, it, s0, sink):
                for o in E.run_block(n.body, s1):
                    if o[0] in ('fall', 'cont'):
                        nxt.append(o[1])
                    elif o[0] == 'break':
                        outs.append(('fall', o[1]))
                    else:
                        outs.append(o)
        sts = nxt
        if len(sts) > 512:
            raise Unsupported('path explosion while unrolling loop at line %d' % n.lineno)
    if n.orelse:
        # for ... else: the else suite runs on the paths that exhausted the iterable, not on those that left through `break`
        for s in sts:
            outs.extend(E.run_block(n.orelse, s))
        return outs
    outs.extend(('fall', s) for s in sts)
    return outs


def _cut_loop(E, n, st, spec, kind, iterable=None):
    """invariant-based loop cut.  spec keys: invariant (list of str), havoc (list of 'name' or 'obj.field'),
    types (name -> type), index (ghost index name for `for`), decreases (str, optional)"""
    from .contracts import eval_clause, fresh_typed
    outs = []
    where = '%s loop at line %d of %s' % (kind, n.lineno, st.frame.func.qualname if st.frame.func else '?')
    invs = spec.get('invariant', [])
    if isinstance(invs, str):
        invs = [invs]
    idx_name = spec.get('index', '_k')
    types = spec.get('types', {})
    env = st.frame.env

    length = item = None
    if kind == 'for':
        if isinstance(iterable, SRange):
            lo, hi, stp = zint(iterable.lo), zint(iterable.hi), iterable.step
            if not isinstance(stp, int) or stp < 1:
                raise Unsupported('symbolic range with step in invariant loop')
            if stp == 1:
                length = z3.If(hi > lo, hi - lo, 0)
                item = lambda k: mk_int(lo + k)
            else:
                # range(lo, hi, step), constant step > 1: ceil((hi - lo) / step) items, the k-th is lo + k*step
                length = z3.If(hi > lo, (hi - lo + (stp - 1)) / stp, 0)
                item = lambda k: mk_int(lo + k * stp)
        elif isinstance(iterable, range):
            lo, hi = iterable.start, iterable.stop
            if iterable.step != 1:
                raise Unsupported('range step in invariant loop')
            length = z3.IntVal(max(0, hi - lo))
            item = lambda k: mk_int(z3.IntVal(lo) + k)
        elif is_byteslike(iterable):
            zs = zbytes(iterable)
            length = z3.Length(zs)
            item = lambda k: mk_int(z3.BV2Int(zs[k]))
        elif type(iterable).__name__ == 'SEnumerate':
            # enumerate(byte string, start): the k-th item is the pair (start + k, k-th octet)
            zs = zbytes(iterable.seq)
            length = z3.Length(zs)
            e_start = iterable.start
            item = lambda k: (mk_int(e_start + k), mk_int(z3.BV2Int(zs[k])))
        else:
            raise Unsupported('invariant loop over %r' % (iterable,))
        env[idx_name] = 0

    # 1. establishment
    for i, inv in enumerate(invs):
        g = eval_clause(E, inv, st)
        E.oblige(st, g, 'loop_inv_entry', where, {'clause': inv})

    # 2. havoc everything the body may assign
    names = _assigned_names(n.body) | (set(_target_names(n.target)) if kind == 'for' else set())
    explicit = list(spec.get('havoc', []))
    pre_env = dict(env)
    for nm in sorted(names):
        if nm in env:
            env[nm] = havoc_value(E, env[nm], nm, st, types.get(nm))
        elif nm in types:
            env[nm] = fresh_typed(E, st, types[nm], nm)
    for h in explicit:
        if '.' in h:
            base, fld = h.rsplit('.', 1)
            sink = []
            r = _ev_spec(E, st, base, sink)
            if len(r) != 1:
                raise Unsupported('havoc target ' + h)
            ref = r[0][1]
            ho = st.heap[ref.oid]
            ho.fields[fld] = havoc_value(E, ho.fields.get(fld), fld, st, types.get(h))
        elif h in env and h not in names:
            env[h] = havoc_value(E, env[h], h, st, types.get(h))
    written_fields = _fields_assigned(n.body)
    for (basenm, fld) in written_fields:
        if basenm in env and isinstance(env[basenm], Ref):
            ho = st.heap[env[basenm].oid]
            key = '%s.%s' % (basenm, fld)
            if ho.kind == 'obj' and fld in ho.fields and key not in explicit:
                ho.fields[fld] = havoc_value(E, ho.fields[fld], fld, st, types.get(key))
    if kind == 'for':
        k = E.fresh_int(idx_name)
        env[idx_name] = k
        st.assume(z3.And(k.t >= 0, k.t <= length))
    # ghost counters (entropy tape cursors ...) advanced by the body are loop-carried too: havoc every integer-valued ghost entry
    for gk, gv in list(st.ghost.items()):
        if not gk.startswith('_') and (isinstance(gv, (SInt,)) or (isinstance(gv, int) and not isinstance(gv, bool))):
            ng = E.fresh_int('ghost_' + gk)
            if gk.endswith('cursor'):
                st.assume(ng.t >= zint(gv))       # cursors only move forward
            st.ghost[gk] = ng
    if spec.get('forget'):
        _forget_dead(E, st)
    heap_writes_before = len(st.writes)
    oid_floor = st.next_oid

    # 3. assume the invariant at an arbitrary iteration
    for inv in invs:
        st.assume(_as_z3(eval_clause(E, inv, st)))
    for a in spec.get('assume_types', []):
        st.assume(_as_z3(eval_clause(E, a, st)))
    # lemma calls at the loop head (arbitrary iteration, after the invariant): only registered, separately proved spec lemmas
    linst = spec.get('instances', {})
    if linst.get('head'):
        from .contracts import assume_instance_list
        assume_instance_list(E, st, linst['head'])

    # 4. guard
    if kind == 'while' and spec.get('exit_gives'):
        _exit_gives(E, n, st, spec['exit_gives'], where)
    if kind == 'while':
        sink = []
        branches = []
        for s1, c in E.ev(n.test, st, sink):
            a, b = E.split(s1, E.truth(c, s1), label='loop@%d' % n.lineno)
            branches.append((a, b))
        outs.extend(sink)
    else:
        a, b = E.split(st, k.t < length, label='loop@%d' % n.lineno)
        branches = [(a, b)]
    for a, b in branches:
        if b is not None:
            if kind == 'for':
                b.frame.env.pop(idx_name, None)
            if kind == 'for' and n.orelse:
                # for ... else: the else suite runs on the exit through the exhausted iterable (not on `break`, below)
                outs.extend(E.run_block(n.orelse, b))
            else:
                outs.append(('fall', b))
        if a is None:
            continue
        body_sts = [a]
        if kind == 'for':
            sink = []
            body_sts = E.assign(n.target, item(k.t), a, sink)
            outs.extend(sink)
        for s2 in body_sts:
            dec0 = None
            if spec.get('decreases'):
                dec0 = zint(_value_of(E, spec['decreases'], s2))
            for o in E.run_block(n.body, s2):
                if o[0] in ('fall', 'cont'):
                    s3 = o[1]
                    _check_unhavocked_writes(E, s3, heap_writes_before, written_fields, explicit, where, oid_floor)
                    if kind == 'for':
                        s3.frame.env[idx_name] = mk_int(k.t + 1)
                    if linst.get('body_end'):
                        from .contracts import assume_instance_list
                        assume_instance_list(E, s3, linst['body_end'])
                    for inv in invs:
                        g = eval_clause(E, inv, s3)
                        E.oblige(s3, g, 'loop_inv_preserved', where, {'clause': inv})
                    if dec0 is not None:
                        dec1 = zint(_value_of(E, spec['decreases'], s3))
                        E.oblige(s3, z3.And(dec0 >= 0, dec1 < dec0), 'loop_decreases', where, {'clause': spec['decreases']})
                elif o[0] == 'break':
                    if kind == 'for':
                        o[1].frame.env.pop(idx_name, None)
                    outs.append(('fall', o[1]))
                else:
                    outs.append(o)
    return outs


def _exit_gives(E, n, st, eg, where):
    """opt-in loop-spec key  exit_gives = {'assume': [clauses], 'clauses': [clauses]}:  an additional, self-contained check of the
    loop GUARD: for ARBITRARY values of the loop-carried variables (the state just havocked, with every hypothesis dropped except
    the `assume` clauses, each of which is first proved in the real state), leaving the loop -- the guard being false -- implies
    each of `clauses`.  "On exit X holds from the guard alone."  The obligations are small, so a wrong guard yields a definite
    counter-model instead of a time-out; they are extra obligations and take nothing away from the main proof."""
    from .contracts import eval_clause
    for cl in eg.get('assume', []):
        g = eval_clause(E, cl, st)
        E.oblige(st, g, 'loop_exit_assume', where, {'clause': cl})
    s0 = st.fork()
    s0.pc = []
    s0.facts = set()
    for cl in eg.get('assume', []):
        s0.assume(_as_z3(eval_clause(E, cl, s0)))
    sink = []
    for s1, c in E.ev(n.test, s0, sink):
        _a, b = E.split(s1, E.truth(c, s1), label='exit_gives@%d' % n.lineno)
        if b is None:
            continue
        for cl in eg.get('clauses', []):
            g = eval_clause(E, cl, b)
            E.oblige(b.fork(), g, 'loop_exit', where, {'clause': cl})


def _consts0(t, cache):
    """names of the uninterpreted constants (arity 0) of a z3 term"""
    key = t.get_id()
    if key in cache:
        return cache[key]
    acc, seen, todo = set(), set(), [t]
    while todo:
        x = todo.pop()
        if x.get_id() in seen:
            continue
        seen.add(x.get_id())
        if z3.is_app(x):
            if x.num_args() == 0 and x.decl().kind() == z3.Z3_OP_UNINTERPRETED:
                acc.add(x.decl().name())
            todo.extend(x.children())
        elif z3.is_quantifier(x):
            todo.append(x.body())
    cache[key] = acc
    return acc


def _forget_dead(E, st):
    """opt-in (loop spec `forget: True`), the classical loop rule: at the cut, hypotheses that mention a symbol no live value
    refers to any more (pre-loop values of the variables just havocked, consumed temporaries) are dropped -- what the loop needs
    to know about the past is what its invariant says.  Dropping hypotheses is sound; it keeps the queries of long functions
    with several loops small.  Live = reachable from any frame, the heap, the ghost state or the entry snapshot."""
    cache = E.__dict__.setdefault('_consts0_cache', {})
    live = set()

    def walk(v, depth=0):
        if depth > 6:
            return
        if isinstance(v, SV):
            live.update(_consts0(v.t, cache))
        elif isinstance(v, LazyUnion):
            live.update(_consts0(v.sel, cache))
            for _n, x in v.alts:
                walk(x, depth + 1)
        elif isinstance(v, (tuple, list)):
            for x in v:
                walk(x, depth + 1)
        elif isinstance(v, dict):
            for x in v.values():
                walk(x, depth + 1)
        elif z3.is_expr(v) if not isinstance(v, (int, str, bytes, bool, type(None), Ref)) else False:
            live.update(_consts0(v, cache))

    for s0 in (st, st.snap):
        if s0 is None:
            continue
        for fr in s0.frames:
            walk(list(fr.env.values()))
        for h in s0.heap.values():
            walk(list(h.fields.values()))
            walk(h.items)
        walk(list(s0.ghost.values()))
    keep = []
    for c in st.pc:
        cs = _consts0(c, cache)
        if cs - live:
            st.facts.discard(c.get_id())
        else:
            keep.append(c)
    st.pc = keep


def _ev_spec(E, st, base, sink):
    """the object a havoc path starts from: a spec expression over the current state (spec forms allowed)"""
    saved = st.frame.spec_mode
    st.frame.spec_mode = True
    try:
        return list(E.ev(ast.parse(base, mode='eval').body, st, sink))
    finally:
        st.frame.spec_mode = saved


def _as_z3(g):
    if isinstance(g, bool):
        return z3.BoolVal(g)
    return g


def _value_of(E, expr, st):
    sink = []
    r = list(E.ev(ast.parse(expr, mode='eval').body, st, sink))
    if len(r) != 1 or sink:
        raise Unsupported('loop measure is not a single value')
    return r[0][1]


def _fields_assigned(nodes):
    out = set()
    for n in nodes:
        for x in ast.walk(n):
            if isinstance(x, ast.Attribute) and isinstance(x.ctx, ast.Store) and isinstance(x.value, ast.Name):
                out.add((x.value.id, x.attr))
            if isinstance(x, ast.AugAssign) and isinstance(x.target, ast.Attribute) and isinstance(x.target.value, ast.Name):
                out.add((x.target.value.id, x.target.attr))
    return out


def _check_unhavocked_writes(E, st, start, written_fields, explicit, where, oid_floor):
    """heap writes performed by the body (directly or through inlined callees / contracts) that were
    not havocked before assuming the invariant would make the cut unsound -> undecided"""
    allowed = set()
    env = st.frame.env
    for (basenm, fld) in written_fields:
        if basenm in env and isinstance(env[basenm], Ref):
            allowed.add((env[basenm].oid, fld))
    for h in explicit:
        if '.' in h:
            base, fld = h.rsplit('.', 1)
            sink = []
            r = _ev_spec(E, st, base, sink)
            if len(r) == 1 and isinstance(r[0][1], Ref):
                allowed.add((r[0][1].oid, fld))
                tgt = st.heap[r[0][1].oid].fields.get(fld)
                if isinstance(tgt, Ref) and tgt.oid in st.heap and st.heap[tgt.oid].kind in ('acc', 'alist', 'pacc'):
                    allowed.add((tgt.oid, '<items>'))       # the list behind the havocked field was abstracted before the cut
        elif isinstance(env.get(h), Ref) and st.heap[env[h].oid].kind in ('acc', 'alist', 'pacc'):
            allowed.add((env[h].oid, '<items>'))       # havocked as an accumulator before the invariant was assumed
    for (oid, fld) in st.writes[start:]:
        if (oid, fld) not in allowed and 0 <= oid < oid_floor:          # oid -1 = lock events of `with` (no heap location)
            raise Unsupported('%s: body writes %s of object %d which the loop spec does not havoc' % (where, fld, oid))
