"""Models of Python builtins and of the few external modules the code under contract uses.
Every model carries its failure outcome (DESIGN.md 2.3)."""
import ast
import struct as _struct
import z3

from .values import *      # noqa
from .interp import exc, _conc, _MISSING, FrozenDict
from .loops import SRange
from . import ops

BE = z3.Function('be', BYTES, INT)                  # big-endian value of a byte string
LE = z3.Function('le', BYTES, INT)
I2OSP = z3.Function('i2osp', INT, INT, BYTES)       # fixed-length big-endian encoding
I2LE = z3.Function('i2le', INT, INT, BYTES)
MODPOW = z3.Function('modpow', INT, INT, INT, INT)
BITLEN = z3.Function('bitlen', INT, INT)
ENC_LATIN1 = z3.Function('enc_latin1', ANY, BYTES)
RFIND = z3.Function('rfind', BYTES, BYTES, INT)


def val(st, v):
    return [('val', st, v)]


def rz(st, pycls, msg=''):
    return [('raise', st, exc(pycls, msg))]


# ---------------------------------------------------------------- integer <-> bytes

def be_value(E, st, zs):
    n = z3.simplify(z3.Length(zs))
    if z3.is_int_value(n) and n.as_long() <= 16:
        k = n.as_long()
        t = z3.IntVal(0)
        for i in range(k):
            t = t * 256 + ops.byte_int(E, st, ops.seq_nth(E, st, zs, i))
        return t
    t = BE(zs)
    st.fact(t >= 0)
    st.fact(z3.Implies(z3.Length(zs) == 0, t == 0))
    for k in (1, 2, 4, 8, 12, 16, 20, 24, 28, 32, 48, 56, 57, 64, 66):
        st.fact(z3.Implies(z3.Length(zs) == k, t < 256 ** k))      # the value of k bytes is below 256**k
    if E.options.get('be_unfold'):
        # opt-in ground instances of the positional-notation definition of be():
        #   snoc (the recursive definition):  be(s) == be(s[:-1]) * 256 + s[-1]          for s != b''
        #   cons (lemma, by induction):       be(bytes([b]) + r) == b * 256**len(r) + be(r)
        ln = z3.Length(zs)
        if z3.is_app(zs) and zs.decl().kind() == z3.Z3_OP_SEQ_EXTRACT:
            prefix = z3.SubSeq(zs.arg(0), zs.arg(1), z3.simplify(zs.arg(2) - 1))
            # the last octet of an in-range slice, said directly (a true fact of seq.extract that z3 otherwise derives slowly)
            base_, off_, cnt_ = zs.arg(0), zs.arg(1), zs.arg(2)
            inr = z3.And(off_ >= 0, cnt_ >= 1, off_ + cnt_ <= z3.Length(base_))
            st.fact(z3.Implies(inr, z3.And(ln == cnt_, zs[ln - 1] == base_[z3.simplify(off_ + cnt_ - 1)])))
        else:
            prefix = z3.SubSeq(zs, 0, ln - 1)
        st.fact(z3.Implies(ln >= 1, t == BE(prefix) * 256 + z3.BV2Int(zs[ln - 1])))
        st.fact(BE(prefix) >= 0)
        if z3.is_app(zs) and zs.decl().kind() == z3.Z3_OP_SEQ_CONCAT and zs.num_args() >= 2:
            first = zs.arg(0)
            if z3.is_app(first) and first.decl().kind() == z3.Z3_OP_SEQ_UNIT:
                rest = zs.arg(1) if zs.num_args() == 2 else z3.Concat(*[zs.arg(i) for i in range(1, zs.num_args())])
                # (the tail's own instances too when it is again a cons: finite, the term gets smaller)
                rest_is_cons = (z3.is_app(rest) and rest.decl().kind() == z3.Z3_OP_SEQ_CONCAT and z3.is_app(rest.arg(0))
                                and rest.arg(0).decl().kind() == z3.Z3_OP_SEQ_UNIT)
                if rest_is_cons:
                    st.fact(be_value(E, st, rest) == BE(rest))
                st.fact(t == ops.byte_int(E, st, first.arg(0)) * ops.pow2(E, st, 8 * seq_length(E, st, rest)) + BE(rest))
                st.fact(BE(rest) >= 0)
                if E.options.get('be_range'):
                    # opt-in: range of the tail by its length, be(r) < 256**len(r) (the bound int_lemmas states for every be();
                    # here only for the tail of a cons instance, without the pairwise 2**x ordering facts of int_lemmas)
                    st.fact(BE(rest) < ops.pow2(E, st, 8 * seq_length(E, st, rest)))
    if E.options.get('int_lemmas') is not None:
        # opt-in ground facts of base-256 positional notation: range by length, lower bound by a non-zero leading
        # digit, and injectivity on strings of one length (i2osp is the left inverse of be)
        ln = z3.Length(zs)
        st.fact(t < ops.pow2(E, st, 8 * ln))
        st.fact(z3.Implies(z3.And(ln >= 1, zs[0] != 0), t >= ops.pow2(E, st, 8 * (ln - 1))))
        st.fact(z3.Implies(z3.And(ln >= 1, zs[0] == 0), t < ops.pow2(E, st, 8 * (ln - 1))))     # a zero leading digit
        st.fact(I2OSP(t, ln) == zs)
    return t


def le_value(E, st, zs):
    n = z3.simplify(z3.Length(zs))
    if z3.is_int_value(n) and n.as_long() <= 16:
        k = n.as_long()
        t = z3.IntVal(0)
        for i in range(k - 1, -1, -1):
            t = t * 256 + ops.byte_int(E, st, ops.seq_nth(E, st, zs, i))
        return t
    t = LE(zs)
    st.fact(t >= 0)
    return t


def i2osp_value(E, st, x, n, little=False):
    """caller guarantees 0 <= x < 256**n"""
    if isinstance(n, int) and n <= E.options.get('i2osp_explicit_max', 16):
        if n == 0:
            return z3.Empty(BYTES)
        units = [z3.Unit(z3.Int2BV((x / (256 ** (n - 1 - i))) % 256, 8)) for i in range(n)]
        if little:
            units.reverse()
        return units[0] if n == 1 else z3.Concat(*units)
    zn = zint(n)
    t = (I2LE if little else I2OSP)(x, zn)
    st.fact(z3.Length(t) == zn)
    st.fact((LE if little else BE)(t) == x)
    return t


# ---------------------------------------------------------------- isinstance

def _class_test(E, st, v, c):
    """python bool: is value v an instance of class value c"""
    from .interp import ClassV
    if isinstance(c, tuple):
        return any(_class_test(E, st, v, x) for x in c)
    if isinstance(c, PyClassV):
        py = c.py
        if py is object:
            return True
        if isinstance(v, bool) or isinstance(v, SBool):
            return py in (bool, int)
        if isinstance(v, int) or isinstance(v, SInt):
            return py is int
        if isinstance(v, bytes):
            return py is bytes
        if isinstance(v, SBytes):
            return py.__name__ == v.kind
        if isinstance(v, (str, SStr)):
            return py is str
        if v is None:
            return py is type(None)
        if isinstance(v, tuple):
            return py is tuple
        if isinstance(v, float):
            return py is float
        if isinstance(v, Ref):
            h = st.heap[v.oid]
            if h.kind in ('list', 'acc', 'pacc'):
                return py is list
            if h.kind == 'dict':
                return py is dict
            if h.kind == 'bytearray':
                return py is bytearray
            if h.cls is not None:
                return h.cls.is_subclass_of(py)
            return False
        if isinstance(v, ExcV):
            return isinstance(v.cls, PyClassV) and issubclass(v.cls.py, py)
        if isinstance(v, SUnionIB):
            raise Unsupported('class test of an unresolved int|bytes union')
        if isinstance(v, SOpaque):
            return False
        if isinstance(v, FrozenDict):
            return py is dict
        return False
    if isinstance(c, ClassV):
        if isinstance(v, Ref):
            h = st.heap[v.oid]
            return h.kind == 'obj' and h.cls is not None and h.cls.is_subclass_of(c.info)
        if isinstance(v, ExcV):
            return isinstance(v.cls, ClassV) and v.cls.info.is_subclass_of(c.info)
        return False
    raise Unsupported('isinstance against %r' % (c,))


def b_isinstance(E, st, args, kw):
    if len(args) == 2 and isinstance(args[0], SUnionIB):
        outs = []
        for s1, v1 in E.resolve_union(st, args[0]):
            outs += b_isinstance(E, s1, [v1, args[1]], kw)
        return outs
    return val(st, _class_test(E, st, args[0], args[1]))


def b_issubclass(E, st, args, kw):
    from .interp import ClassV
    a, b = args
    if isinstance(a, PyClassV) and isinstance(b, PyClassV):
        return val(st, issubclass(a.py, b.py))
    if isinstance(a, ClassV):
        return val(st, a.info.is_subclass_of(b.info if isinstance(b, ClassV) else b.py))
    return val(st, False)


def b_len(E, st, args, kw):
    v = args[0]
    if isinstance(v, (bytes, str, tuple, frozenset, range)):
        return val(st, len(v))
    if isinstance(v, SBytes):
        if E.options.get('ssize_len') and st.frames and not st.frame.spec_mode:
            # opt-in CPython fact: len() of an existing object is a Py_ssize_t, i.e. <= sys.maxsize == 2**63 - 1
            # (code only, never in spec mode: a specification string is a mathematical value, not an object)
            st.fact(z3.Length(v.t) <= 2 ** 63 - 1)
        return val(st, mk_int(seq_length(E, st, v.t)))
    if isinstance(v, SStrL1):
        return val(st, mk_int(seq_length(E, st, v.l1)))
    if isinstance(v, SStr):
        raise Unsupported('len of an unknown string')
    if isinstance(v, FrozenDict):
        return val(st, len(v.d))
    if isinstance(v, Ref):
        h = st.heap[v.oid]
        if h.kind in ('list', 'dict'):
            return val(st, len(h.items))
        if h.kind in ('acc', 'alist', 'pacc'):
            return val(st, h.items[0])
        if h.kind == 'bytearray':
            return b_len(E, st, [h.items], kw)
        f = h.cls.find_method('__len__') if h.cls else None
        if f is not None:
            from .interp import FuncV
            return E.call_function(FuncV(f), [v], {}, st)
        mv = object_len(E, st, v, h)
        if mv is not None:
            return mv
        gid = getattr(h, 'ghost_id', None)
        if h.kind == 'obj' and h.cls is None and gid and E.registry is not None:
            # abstract (native / opaque) object: len(obj) exists only as the contract / model  <class>.__len__
            hook = E.registry.call_hook(E, gid + '.__len__', st)
            if hook is not None:
                return list(hook(E, st, [v], {}))
            raise Unsupported('abstract object %s has no contract for len()' % gid)
    if isinstance(v, SRange):
        lo, hi = zint(v.lo), zint(v.hi)
        return val(st, mk_int(z3.If(hi > lo, (hi - lo + v.step - 1) / v.step, 0)))
    if isinstance(v, SOpaque):
        raise Unsupported('len of opaque value')
    return rz(st, TypeError, 'object has no len()')


def seq_length(E, st, t):
    """Length(t), written without the sequence operator where the path condition fixes it"""
    if z3.is_app(t):
        k = t.decl().kind()
        if k == z3.Z3_OP_SEQ_EXTRACT:
            s0, a, l = t.arg(0), t.arg(1), t.arg(2)
            if E.implied(st, z3.And(a >= 0, l >= 0, a + l <= z3.Length(s0))):
                return z3.simplify(l)
        elif k == z3.Z3_OP_SEQ_CONCAT:
            parts = [seq_length(E, st, c) for c in t.children()]
            r = parts[0]
            for x in parts[1:]:
                r = r + x
            return z3.simplify(r)
        elif k == z3.Z3_OP_SEQ_UNIT:
            return z3.IntVal(1)
        elif k == z3.Z3_OP_SEQ_EMPTY:
            return z3.IntVal(0)
        elif k == z3.Z3_OP_UNINTERPRETED and t.decl().name() in SEQ_LEN_ARG:
            # an uninterpreted byte-string symbol one of whose arguments IS its length (when non-negative), e.g. tape(id, pos, n)
            n = t.arg(SEQ_LEN_ARG[t.decl().name()])
            if E.implied(st, n >= 0):
                return z3.simplify(n)
    return z3.Length(t)


SEQ_LEN_ARG = {}      # name of an uninterpreted Seq-valued function -> index of the argument that equals its length


def object_len(E, st, v, h):
    return None


def b_hasattr(E, st, args, kw):
    v, name = args
    if not isinstance(name, str):
        raise Unsupported('hasattr with non-constant name')
    if isinstance(v, SUnionIB):
        outs = []
        for s1, v1 in E.resolve_union(st, v):
            outs += b_hasattr(E, s1, [v1, name], kw)
        return outs
    if isinstance(v, Ref):
        h = st.heap[v.oid]
        if h.kind == 'obj' and isinstance(h.fields.get(name), LazyUnion):
            outs = []
            for s1 in E.resolve_field(st, v, name):
                outs += b_hasattr(E, s1, args, kw)
            return outs
        if h.kind == 'obj':
            if name in h.fields:
                return val(st, True)
            if h.cls is not None:
                fm = h.cls.find_method(name)
                if (fm is not None and fm.kind == 'property') or \
                        (fm is None and h.cls.find_attr_node(name)[1] is None and h.cls.find_method('__getattr__') is not None):
                    # hasattr() runs the property / __getattr__: True when it returns, False when it raises AttributeError,
                    # any other exception propagates (CPython >= 3.2)
                    sink = []
                    outs = [('val', s1, True) for s1, _x in E.getattr(v, name, st, sink)]
                    for o in sink:
                        if o[0] == 'raise' and E.exc_matches(o[2], PyClassV(AttributeError), o[1]):
                            outs.append(('val', o[1], False))
                        else:
                            outs.append(o)
                    return outs
                if fm is not None or h.cls.find_attr_node(name)[1] is not None:
                    return val(st, True)
                return val(st, name in _object_extra_attrs(E, st, v, h))
            return val(st, False)
        py = {'list': list, 'dict': dict, 'bytearray': bytearray}[h.kind]
        return val(st, hasattr(py, name))
    from .interp import ModuleV
    if isinstance(v, ModuleV) and v.info is not None:
        # a module of the tree under verification: its attributes are its top-level definitions
        return val(st, name in v.info.defs)
    rep = _py_representative(v)
    if rep is not _MISSING:
        return val(st, hasattr(rep, name))
    raise Unsupported('hasattr on %r' % (v,))


def _object_extra_attrs(E, st, v, h):
    return ()


def _py_representative(v):
    if isinstance(v, (SInt,)):
        return 0
    if isinstance(v, SBool):
        return True
    if isinstance(v, SBytes):
        return {'bytes': b'', 'bytearray': bytearray(), 'memoryview': memoryview(b'')}[v.kind]
    if isinstance(v, SStr):
        return ''
    if _conc(v) and not isinstance(v, PyClassV):
        return v
    return _MISSING


def b_getattr(E, st, args, kw):
    v, name = args[0], args[1]
    if not isinstance(name, str):
        raise Unsupported('getattr with non-constant name')
    sink = []
    outs = [('val', s1, x) for s1, x in E.getattr(v, name, st, sink)]
    if len(args) == 3:
        res = list(outs)
        for o in sink:
            if o[0] == 'raise' and isinstance(o[2].cls, PyClassV) and issubclass(o[2].cls.py, AttributeError):
                res.append(('val', o[1], args[2]))
            else:
                res.append(o)
        return res
    return sink + outs


def b_setattr(E, st, args, kw):
    v, name, x = args
    if isinstance(v, Ref) and st.heap[v.oid].kind == 'obj' and isinstance(name, str):
        st.heap[v.oid].fields[name] = x
        st.writes.append((v.oid, name))
        return val(st, None)
    raise Unsupported('setattr')


def b_int(E, st, args, kw):
    if not args:
        return val(st, 0)
    v = args[0]
    if len(args) == 2 or 'base' in kw:
        base = args[1] if len(args) == 2 else kw['base']
        if isinstance(v, (str, bytes)) and isinstance(base, int):
            try:
                return val(st, int(v, base))
            except ValueError as ex:
                return rz(st, ValueError, str(ex))
        raise Unsupported('int(x, base) on symbolic value')
    if isinstance(v, bool):
        return val(st, int(v))
    if isinstance(v, int):
        return val(st, v)
    if isinstance(v, SInt):
        return val(st, v)
    if isinstance(v, SBool):
        return val(st, mk_int(zint(v)))
    if isinstance(v, (str, bytes, float)):
        try:
            return val(st, int(v))
        except ValueError as ex:
            return rz(st, ValueError, str(ex))
    if isinstance(v, Ref):
        h = st.heap[v.oid]
        if h.kind == 'obj' and h.cls is not None:
            from .interp import FuncV
            for nm in ('__int__', '__index__'):
                f = h.cls.find_method(nm)
                if f is not None:
                    return E.call_function(FuncV(f), [v], {}, st)
        mv = object_int(E, st, v, h)
        if mv is not None:
            return mv
        return rz(st, TypeError, 'int() argument')
    if v is None or isinstance(v, tuple):
        return rz(st, TypeError, 'int() argument must be a string, a bytes-like object or a real number')
    if isinstance(v, SBytes):
        # a byte string of decided length 1..4 whose bytes the path condition confines to ASCII digits: its decimal value (exact;
        # int() accepts leading zeros in strings).  Anything else (sign, blanks, underscores, other lengths): outside the subset
        n = seq_length(E, st, v.t)
        n = z3.simplify(n) if not isinstance(n, int) else n
        if z3.is_int_value(n) and 1 <= n.as_long() <= 4:
            ds = [z3.BV2Int(v.t[i]) for i in range(n.as_long())]
            if E.implied(st, z3.And([z3.And(d >= 48, d <= 57) for d in ds])):
                t = z3.IntVal(0)
                for d in ds:
                    t = t * 10 + (d - 48)
                return val(st, mk_int(t))
        raise Unsupported('int(symbolic bytes)')
    raise Unsupported('int(%r)' % (v,))


def object_int(E, st, v, h):
    return None


def b_bool(E, st, args, kw):
    if not args:
        return val(st, False)
    t = E.truth(args[0], st)
    return val(st, t if isinstance(t, bool) else mk_bool(t))


def byte_unit(E, st, zx, concrete=False):
    """Unit(Int2BV(zx, 8)) for an integer term known to lie in 0..255 on this path; compound terms are named first
    (see _bytes_from_iter)"""
    if not concrete and z3.is_app(zx) and zx.num_args() > 0 and zx.decl().kind() != z3.Z3_OP_UNINTERPRETED:
        names = E.__dict__.setdefault('_byte_names', {})
        if zx.get_id() not in names:
            names[zx.get_id()] = (E.fresh(INT, 'byte'), zx)
        v = names[zx.get_id()][0]
        st.fact(v == zx)
        zx = v
    if not concrete:
        E.__dict__.setdefault('_ranged_bytes', set()).add(zx.get_id())
    return z3.Unit(z3.Int2BV(zx, 8))


def _bytes_from_iter(E, st, items):
    outs = []
    units = []
    cur = st
    for x in items:
        if not is_intlike(x):
            return rz(cur, TypeError, 'an integer is required')
        zx = zint(x)
        bad, ok = E.split(cur, z3.Or(zx < 0, zx > 255))
        if bad is not None:
            outs.append(('raise', bad, exc(ValueError, 'bytes must be in range(0, 256)')))
        if ok is None:
            return outs
        cur = ok
        if E.options.get('int_bytes') and not isinstance(x, int) and z3.is_app(zx) and zx.num_args() > 0 and \
                zx.decl().kind() != z3.Z3_OP_UNINTERPRETED:
            # name a compound byte value: int->bitvector conversion of an arithmetic term is expensive for z3, while
            # equal terms then meet as equal variables (exact: v == the term, on this path)
            names = E.__dict__.setdefault('_byte_names', {})
            if zx.get_id() not in names:
                names[zx.get_id()] = (E.fresh(INT, 'byte'), zx)      # one name per term and proof
            v = names[zx.get_id()][0]
            cur.fact(v == zx)               # definition of a fresh name (conservative; survives spec-clause evaluation)
            zx = v
        units.append(z3.Unit(z3.Int2BV(zx, 8)))
        if not isinstance(x, int):
            # this byte term only exists on paths below `ok` (0 <= zx <= 255): byte_int() may read it back as zx
            E.__dict__.setdefault('_ranged_bytes', set()).add(zx.get_id())
        if not isinstance(x, int) and E.options.get('byte_roundtrip'):
            # opt-in ground instance of "int -> byte -> int is the identity on 0..255"
            cur.fact(z3.Implies(z3.And(zx >= 0, zx <= 255), z3.BV2Int(z3.Int2BV(zx, 8)) == zx))
    if all(isinstance(x, int) for x in items):
        outs.append(('val', cur, bytes(items)))
    else:
        outs.append(('val', cur, mk_bytes(units[0] if len(units) == 1 else z3.Concat(*units))))
    return outs


def b_bytes(E, st, args, kw, kind='bytes'):
    def wrap(outs):
        if kind == 'bytes':
            return outs
        res = []
        for o in outs:
            if o[0] == 'val':
                res.append(('val', o[1], o[1].alloc(HObj('bytearray', items=o[2]))))
            else:
                res.append(o)
        return res
    if not args:
        return wrap(val(st, b''))
    v = args[0]
    if isinstance(v, str):
        if len(args) < 2 and 'encoding' not in kw:
            return rz(st, TypeError, 'string argument without an encoding')
        enc = args[1] if len(args) > 1 else kw['encoding']
        try:
            return wrap(val(st, v.encode(enc)))
        except Exception as ex:      # noqa
            return rz(st, type(ex), str(ex))
    if isinstance(v, SStr):
        raise Unsupported('bytes(unknown str)')
    if isinstance(v, bytes):
        return wrap(val(st, v))
    if isinstance(v, SBytes):
        return wrap(val(st, SBytes(v.t, 'bytes')))
    if isinstance(v, bool) or isinstance(v, int):
        if v < 0:
            return rz(st, ValueError, 'negative count')
        return wrap(val(st, ops.replicate(E, b'\x00', int(v), st)))
    if isinstance(v, SInt):
        neg, ok = E.split(st, v.t < 0)
        outs = []
        if neg is not None:
            outs += rz(neg, ValueError, 'negative count')
        if ok is not None:
            outs += wrap(val(ok, ops.replicate(E, b'\x00', v, ok)))
        return outs
    if isinstance(v, Ref):
        h = st.heap[v.oid]
        if h.kind == 'bytearray':
            return wrap(val(st, h.items if not isinstance(h.items, SBytes) else SBytes(h.items.t, 'bytes')))
        if h.kind == 'list':
            return wrap(_bytes_from_iter(E, st, list(h.items)))
        if h.kind == 'acc':
            raise Unsupported('bytes(accumulator list)')
        mv = object_bytes(E, st, v, h)
        if mv is not None:
            return wrap(mv)
        return rz(st, TypeError, 'cannot convert object to bytes')
    if isinstance(v, (tuple, range)):
        return wrap(_bytes_from_iter(E, st, list(v)))
    if v is None:
        return rz(st, TypeError, "cannot convert 'NoneType' object to bytes")
    raise Unsupported('bytes(%r)' % (v,))


def object_bytes(E, st, v, h):
    return None


def b_bytearray(E, st, args, kw):
    return b_bytes(E, st, args, kw, kind='bytearray')


def b_memoryview(E, st, args, kw):
    v = args[0]
    if isinstance(v, bytes):
        return val(st, SBytes(bytes_const(v), 'memoryview'))
    if isinstance(v, SBytes):
        return val(st, SBytes(v.t, 'memoryview'))
    if isinstance(v, Ref) and st.heap[v.oid].kind == 'bytearray':
        raise Unsupported('memoryview over a mutable bytearray')
    return rz(st, TypeError, 'memoryview: a bytes-like object is required')


def b_range(E, st, args, kw):
    if all(isinstance(a, int) for a in args):
        try:
            return val(st, range(*args))
        except Exception as ex:      # noqa
            return rz(st, type(ex), str(ex))
    if not all(is_intlike(a) for a in args):
        return rz(st, TypeError, 'range() integer argument expected')
    if len(args) == 1:
        return val(st, SRange(0, args[0]))
    if len(args) == 2:
        return val(st, SRange(args[0], args[1]))
    if isinstance(args[2], int) and args[2] > 0:
        return val(st, SRange(args[0], args[1], args[2]))
    if not isinstance(args[2], int):
        # symbolic step: ValueError when zero; supported when the path condition makes it positive (step kept as a z3 term)
        zs = zint(args[2])
        outs = []
        zero, nz = E.split(st, zs == 0)
        if zero is not None:
            outs += rz(zero, ValueError, 'range() arg 3 must not be zero')
        if nz is not None:
            if not E.implied(nz, zs > 0):
                raise Unsupported('range with a possibly negative symbolic step')
            outs += val(nz, SRange(args[0], args[1], zs))
        return outs
    raise Unsupported('range with non-positive step')


def _minmax(E, st, args, kw, is_min):
    if len(args) == 1:
        args = E.iter_concrete(args[0], st)
        if not args:
            return rz(st, ValueError, 'empty sequence')
    if kw:
        raise Unsupported('min/max with key')
    if all(_conc(a) for a in args):
        try:
            return val(st, (min if is_min else max)(args))
        except TypeError as ex:
            return rz(st, TypeError, str(ex))
    if not all(is_intlike(a) for a in args):
        raise Unsupported('min/max of non-integers')
    t = zint(args[0])
    for a in args[1:]:
        za = zint(a)
        t = z3.If(za < t, za, t) if is_min else z3.If(za > t, za, t)
    return val(st, mk_int(t))


def b_min(E, st, args, kw):
    return _minmax(E, st, args, kw, True)


def b_max(E, st, args, kw):
    return _minmax(E, st, args, kw, False)


def b_abs(E, st, args, kw):
    v = args[0]
    if isinstance(v, (int, float)):
        return val(st, abs(v))
    if is_intlike(v):
        x = zint(v)
        return val(st, mk_int(z3.If(x < 0, -x, x)))
    if isinstance(v, Ref):
        h = st.heap[v.oid]
        f = h.cls.find_method('__abs__') if h.cls else None
        if f is not None:
            from .interp import FuncV
            return E.call_function(FuncV(f), [v], {}, st)
    raise Unsupported('abs')


def b_divmod(E, st, args, kw):
    sink = []
    outs = []
    for s1, q in ops.binop(E, ast.FloorDiv(), args[0], args[1], st, sink):
        for s2, r in ops.binop(E, ast.Mod(), args[0], args[1], s1, sink):
            outs.append(('val', s2, (q, r)))
    return sink + outs


def b_pow(E, st, args, kw):
    if len(args) == 2:
        sink = []
        outs = [('val', s1, v) for s1, v in ops.binop(E, ast.Pow(), args[0], args[1], st, sink)]
        return sink + outs
    b, e, m = args
    if any(isinstance(x, SUnionIB) for x in args):
        # int|bytes union operand: the Python type decides (bytes -> TypeError below)
        outs = []
        i = [k for k, x in enumerate(args) if isinstance(x, SUnionIB)][0]
        for s1, v1 in E.resolve_union(st, args[i]):
            outs += b_pow(E, s1, args[:i] + [v1] + args[i + 1:], kw)
        return outs
    if m is None:
        return b_pow(E, st, [b, e], kw)
    if all(isinstance(x, int) for x in args):
        try:
            return val(st, pow(b, e, m))
        except Exception as ex:      # noqa
            return rz(st, type(ex), str(ex))
    if isinstance(b, Ref) and st.heap[b.oid].kind == 'obj' and st.heap[b.oid].cls is not None:
        f = st.heap[b.oid].cls.find_method('__pow__')
        if f is not None:
            from .interp import FuncV
            return E.call_function(FuncV(f), [b, e, m], {}, st)
    if not all(is_intlike(x) for x in args):
        if any(isinstance(x, (Ref, SOpaque)) for x in args):
            raise Unsupported('3-argument pow() with an object operand')
        return rz(st, TypeError, 'unsupported operand type(s) for pow()')
    zb, ze, zm = zint(b), zint(e), zint(m)
    outs = []
    zero, nz = E.split(st, zm == 0)
    if zero is not None:
        outs += rz(zero, ValueError, 'pow() 3rd argument cannot be 0')
    if nz is not None:
        neg, ok = E.split(nz, ze < 0)
        if neg is not None:
            # modular inverse (python >= 3.8): pow(b, -1, m), m > 0, is the r in [0, m) with b*r == 1 (mod m);
            # ValueError iff gcd(b, m) != 1.  Only this form is modelled.
            # Any other negative exponent (m != 0): pow(inverse(b, m), -e, m): same ValueError condition, the value is the
            # uninterpreted modpow(b, e, m) with the range of a residue of m.
            g = gcd_value(E, neg, zb, zm)
            noinv, inv = E.split(neg, g != 1)
            if noinv is not None:
                outs += rz(noinv, ValueError, 'base is not invertible for the given modulus')
            if inv is not None:
                if isinstance(e, int) and e == -1 and E.implied(inv, zm > 0):
                    t = MODINV(zb, zm)
                    inv.fact(z3.And(t >= 0, t < zm))
                    inv.fact((zb * t - 1) % zm == 0)
                else:
                    t = MODPOW(zb, ze, zm)
                    inv.fact(z3.Implies(zm > 0, z3.And(t >= 0, t < zm)))
                    inv.fact(z3.Implies(zm < 0, z3.And(t <= 0, t > zm)))
                outs.append(('val', inv, mk_int(t)))
        if ok is not None:
            t = MODPOW(zb, ze, zm)
            ok.fact(z3.Implies(zm > 0, z3.And(t >= 0, t < zm)))
            ok.fact(z3.Implies(zm < 0, z3.And(t <= 0, t > zm)))
            if isinstance(e, int) and 0 <= e <= 2:
                # small constant exponent: the definition written out (positive modulus)
                ok.fact(z3.Implies(zm > 0, t == [z3.IntVal(1), zb, zb * zb][e] % zm))
            outs.append(('val', ok, mk_int(t)))
    return outs


MODINV = z3.Function('modinv', INT, INT, INT)
GCD = z3.Function('gcd', INT, INT, INT)


def gcd_value(E, st, a, b):
    """math.gcd(a, b): uninterpreted, with the ground instances of its defining properties (non-negative, common divisor,
    zero only for (0, 0), symmetric, sign-insensitive, gcd(a, 0) == |a|)"""
    t = GCD(a, b)
    st.fact(t >= 0)
    st.fact((t == 0) == z3.And(a == 0, b == 0))
    st.fact(z3.Implies(t > 0, z3.And(a % t == 0, b % t == 0)))
    st.fact(t == GCD(b, a))
    st.fact(t == GCD(z3.If(a < 0, -a, a), z3.If(b < 0, -b, b)))
    st.fact(z3.Implies(b == 0, t == z3.If(a < 0, -a, a)))
    st.fact(z3.Implies(a == 0, t == z3.If(b < 0, -b, b)))
    return t


def x_math_gcd(E, st, a, k):
    if len(a) != 2:
        raise Unsupported('math.gcd with %d arguments' % len(a))
    if all(isinstance(x, int) for x in a):
        import math as _math
        return val(st, _math.gcd(*a))
    if not all(is_intlike(x) for x in a):
        if any(isinstance(x, (Ref, SOpaque)) for x in a):
            raise Unsupported('math.gcd of an object (through __index__)')
        return rz(st, TypeError, 'object cannot be interpreted as an integer')
    return val(st, mk_int(gcd_value(E, st, zint(a[0]), zint(a[1]))))


def b_sum(E, st, args, kw):
    items = E.iter_concrete(args[0], st)
    acc = args[1] if len(args) > 1 else 0
    sink = []
    sts = [(st, acc)]
    for x in items:
        nxt = []
        for s0, a in sts:
            for s1, v in ops.binop(E, ast.Add(), a, x, s0, sink):
                nxt.append((s1, v))
        sts = nxt
    return sink + [('val', s, a) for s, a in sts]


def b_any(E, st, args, kw, is_any=True):
    items = E.iter_concrete(args[0], st)
    ts = [E.truth(x, st) for x in items]
    if any(t is True for t in ts) and is_any:
        return val(st, True)
    if any(t is False for t in ts) and not is_any:
        return val(st, False)
    zs = [t for t in ts if not isinstance(t, bool)]
    if not zs:
        return val(st, not is_any)
    return val(st, mk_bool(z3.Or(zs) if is_any else z3.And(zs)))


def b_all(E, st, args, kw):
    return b_any(E, st, args, kw, is_any=False)


def b_tuple(E, st, args, kw):
    if not args:
        return val(st, ())
    return val(st, tuple(E.iter_concrete(args[0], st)))


def b_list(E, st, args, kw):
    items = E.iter_concrete(args[0], st) if args else []
    return val(st, st.alloc(HObj('list', items=list(items))))


def b_dict(E, st, args, kw):
    d = {}
    if args:
        a = args[0]
        if isinstance(a, Ref) and st.heap[a.oid].kind == 'dict':
            d.update(st.heap[a.oid].items)
        elif isinstance(a, FrozenDict):
            d.update(a.d)
        else:
            for kv in E.iter_concrete(a, st):
                k, v = E.iter_concrete(kv, st) if not isinstance(kv, tuple) else kv
                d[k] = v
    d.update(kw)
    return val(st, st.alloc(HObj('dict', items=d)))


def b_set(E, st, args, kw):
    items = E.iter_concrete(args[0], st) if args else []
    if args and all(_conc(x) for x in items):
        return val(st, frozenset(items))
    # a mutable set (or one with symbolic members): heap cell of kind 'set' = the list of values added so far; exact for
    # add / `in` (membership = equality with one of them) / discard-free use; len and iteration are Unsupported
    return val(st, st.alloc(HObj('set', items=list(items))))


def b_sorted(E, st, args, kw):
    items = E.iter_concrete(args[0], st)
    if all(_conc(x) for x in items) and not kw:
        return val(st, st.alloc(HObj('list', items=sorted(items))))
    raise Unsupported('sorted of symbolic items')


def b_reversed(E, st, args, kw):
    return val(st, tuple(reversed(E.iter_concrete(args[0], st))))


class SEnumerate:
    """enumerate(b, start) over a byte string of symbolic length: only as the iterable of a `for` loop cut by an invariant"""

    def __init__(self, seq, start):
        self.seq, self.start = seq, start


def b_enumerate(E, st, args, kw):
    start = args[1] if len(args) > 1 else kw.get('start', 0)
    v = args[0]
    if isinstance(v, SBytes) and isinstance(start, int) and not z3.is_int_value(z3.simplify(z3.Length(v.t))):
        return val(st, SEnumerate(v, start))
    return val(st, tuple((start + i, x) for i, x in enumerate(E.iter_concrete(args[0], st))))


def b_zip(E, st, args, kw):
    return val(st, tuple(zip(*[E.iter_concrete(a, st) for a in args])))


class LazyMap(SOpaque):
    """the iterator returned by map(f, it...): nothing is called until it is consumed (Engine.iter_concrete)"""
    __slots__ = ('f', 'its')

    def __init__(self, t, f, its):
        SOpaque.__init__(self, t, 'lazy_map')
        self.f, self.its = f, its


def b_map(E, st, args, kw):
    # lazily evaluated in CPython: building the iterator calls nothing.  The result is an opaque object; consuming it by
    # iteration over concrete-length iterables is supported when every call has exactly one, normal, outcome (consume_map)
    if kw or len(args) < 2:
        return val(st, SOpaque(E.fresh(ANY, 'lazy_map'), 'lazy_map'))
    return val(st, LazyMap(E.fresh(ANY, 'lazy_map'), args[0], list(args[1:])))


def consume_map(E, st, m):
    """all items of a LazyMap, computed in order in state `st`.  Exact when every call f(x...) has a single normal outcome in
    the same state (no fork, no exception: then evaluating an element CPython would have left untouched, e.g. behind a shorter
    zip() partner, is unobservable apart from fresh allocations); anything else is outside the subset."""
    if id(m) in st.ghost.get('maps_done', frozenset()):
        return []               # an iterator is exhausted after its first traversal (recorded per state)
    cols = [E.iter_concrete(it, st) for it in m.its]
    out = []
    for xs in zip(*cols):
        outs = E.call(m.f, list(xs), {}, st)
        if len(outs) != 1 or outs[0][0] != 'val' or outs[0][1] is not st:
            raise Unsupported('map(): a call of the mapped function forks or raises')
        out.append(outs[0][2])
    st.ghost['maps_done'] = st.ghost.get('maps_done', frozenset()) | {id(m)}
    return out


def b_filter(E, st, args, kw):
    """filter(f, concrete-length iterable), evaluated eagerly (the predicate must be pure): forks on each element"""
    f, it = args
    items = E.iter_concrete(it, st)
    outs = []
    work = [(st, 0, [])]
    while work:
        s0, i, acc = work.pop()
        if i == len(items):
            outs.append(('val', s0, tuple(acc)))
            continue
        for o in (E.call(f, [items[i]], {}, s0) if f is not None else [('val', s0, items[i])]):
            if o[0] == 'raise':
                outs.append(o)
                continue
            a, b = E.split(o[1], E.truth(o[2], o[1]))
            if a is not None:
                work.append((a, i + 1, acc + [items[i]]))
            if b is not None:
                work.append((b, i + 1, acc))
    return outs


def b_str(E, st, args, kw):
    if not args:
        return val(st, '')
    v = args[0]
    if _conc(v) and not isinstance(v, PyClassV) and len(args) == 1:
        return val(st, str(v))
    return val(st, SStr('<str()>'))


def b_repr(E, st, args, kw):
    return val(st, SStr('<repr>'))


def b_ord(E, st, args, kw):
    v = args[0]
    if isinstance(v, (str, bytes)):
        try:
            return val(st, ord(v))
        except TypeError as ex:
            return rz(st, TypeError, str(ex))
    if isinstance(v, SBytes):
        bad, ok = E.split(st, z3.Length(v.t) != 1)
        outs = []
        if bad is not None:
            outs += rz(bad, TypeError, 'ord() expected a character')
        if ok is not None:
            outs += val(ok, mk_int(z3.BV2Int(v.t[0])))
        return outs
    return rz(st, TypeError, 'ord() expected string of length 1')


def b_chr(E, st, args, kw):
    if isinstance(args[0], int):
        try:
            return val(st, chr(args[0]))
        except Exception as ex:     # noqa
            return rz(st, type(ex), str(ex))
    return val(st, SStr('<chr>'))


def b_hex(E, st, args, kw):
    if isinstance(args[0], int):
        return val(st, hex(args[0]))
    return val(st, SStr('<hex>'))


def b_bin(E, st, args, kw):
    if isinstance(args[0], int):
        return val(st, bin(args[0]))
    raise Unsupported('bin(symbolic)')


def b_type(E, st, args, kw):
    from .interp import ClassV
    if len(args) == 3:
        # type(name, (), {const-name: concrete value}): the `enum(**enums)` idiom of the mode modules -> a namespace class
        # whose attributes are those constants
        name, bases, d = args
        items = st.heap[d.oid].items if isinstance(d, Ref) and st.heap[d.oid].kind == 'dict' else None
        if isinstance(name, str) and bases == () and items is not None and \
                all(isinstance(k, str) and isinstance(x, (int, str, bytes)) and not isinstance(x, SV) for k, x in items.items()):
            from . import loader
            E.counter += 1
            node = ast.ClassDef(name='%s#%d' % (name, E.counter), bases=[], keywords=[], decorator_list=[],
                                body=[ast.Assign(targets=[ast.Name(id=k, ctx=ast.Store())], value=ast.Constant(value=x))
                                      for k, x in items.items()])
            return val(st, ClassV(loader.ClassInfo(node, st.frame.module)))
        raise Unsupported('type() with three arguments')
    v = args[0]
    if isinstance(v, Ref):
        h = st.heap[v.oid]
        if h.kind == 'obj' and h.cls is not None:
            return val(st, ClassV(h.cls))
        return val(st, PyClassV({'list': list, 'dict': dict, 'bytearray': bytearray}[h.kind]))
    if isinstance(v, ExcV):
        return val(st, v.cls)
    rep = _py_representative(v)
    if rep is not _MISSING:
        return val(st, PyClassV(type(rep)))
    raise Unsupported('type(%r)' % (v,))


def b_callable(E, st, args, kw):
    from .interp import FuncV, BoundV, ClassV, BuiltinV
    v = args[0]
    if isinstance(v, (FuncV, BoundV, ClassV, BuiltinV, PyClassV)):
        return val(st, True)
    if isinstance(v, Ref):
        h = st.heap[v.oid]
        return val(st, bool(h.cls and h.cls.find_method('__call__')))
    if isinstance(v, SOpaque):
        return val(st, v.label.startswith('callable'))
    return val(st, False)


def b_print(E, st, args, kw):
    return val(st, None)


def b_id(E, st, args, kw):
    v = args[0]
    if isinstance(v, Ref):
        return val(st, 1000 + v.oid)
    raise Unsupported('id()')


def b_super(E, st, args, kw):
    fr = st.frame
    if args:
        cls, obj = args
        ci = cls.info
    else:
        ci = fr.cls
        a = fr.func.node.args
        obj = fr.env[(a.posonlyargs + a.args)[0].arg]
    if ci is None:
        raise Unsupported('super() outside class')
    return val(st, SuperV(ci, obj))


class SuperV:
    def __init__(self, ci, obj):
        self.ci, self.obj = ci, obj


def b_iter(E, st, args, kw):
    return val(st, tuple(E.iter_concrete(args[0], st)))


def b_object(E, st, args, kw):
    return val(st, st.alloc(HObj('obj', cls=None)))


def make_builtins(E):
    import builtins
    table = {}
    g = globals()
    for nm, fn in list(g.items()):
        if nm.startswith('b_') and callable(fn):
            table[nm[2:]] = BuiltinV(nm[2:], fn)
    for nm in ('int', 'bytes', 'bytearray', 'memoryview', 'str', 'bool', 'tuple', 'list', 'dict', 'object', 'type',
               'float', 'set', 'frozenset'):
        # class objects usable in isinstance() and callable through the table above
        table[nm] = PyClassV(getattr(builtins, nm))
    table['True'] = True
    table['False'] = False
    table['None'] = None
    table['NotImplemented'] = NotImplementedV
    table['__name__'] = '__verif__'
    return table


CLASS_CALLS = {'int': b_int, 'bytes': b_bytes, 'bytearray': b_bytearray, 'memoryview': b_memoryview, 'str': b_str,
               'bool': b_bool, 'tuple': b_tuple, 'list': b_list, 'dict': b_dict, 'object': b_object, 'type': b_type,
               'set': b_set, 'frozenset': b_set}


class _NotImplemented:
    def __repr__(self):
        return 'NotImplemented'


NotImplementedV = _NotImplemented()


# ---------------------------------------------------------------- attributes of plain values

def value_attr(E, st, base, attr):
    from .interp import BuiltinV
    if isinstance(base, SuperV):
        mro = None
        obj = base.obj
        if isinstance(obj, Ref) and st.heap[obj.oid].cls is not None:
            mro = st.heap[obj.oid].cls.mro()
        else:
            mro = base.ci.mro()
        if base.ci in mro:
            for c in mro[mro.index(base.ci) + 1:]:
                if attr in c.methods:
                    from .interp import FuncV, BoundV
                    return BoundV(obj, FuncV(c.methods[attr]))
        if attr == '__init__':
            return BuiltinV('object.__init__', lambda E, st, a, k: val(st, None))
        raise Unsupported('super().%s' % attr)
    if is_byteslike(base):
        if attr == 'readonly' and isinstance(base, SBytes) and base.kind == 'memoryview':
            return True     # a modelled memoryview is a view over immutable bytes (views over bytearrays are outside the subset)
        fn = _BYTES_METHODS.get(attr)
        if fn is not None:
            return BuiltinV('bytes.' + attr, lambda E, st, a, k, fn=fn, base=base: fn(E, st, base, a, k))
        if isinstance(base, bytes) and hasattr(base, attr):
            raise Unsupported('bytes.%s' % attr)
        return _MISSING
    if is_intlike(base):
        fn = _INT_METHODS.get(attr)
        if fn is not None:
            return BuiltinV('int.' + attr, lambda E, st, a, k, fn=fn, base=base: fn(E, st, base, a, k))
        return _MISSING
    if isinstance(base, str):
        if hasattr(base, attr):
            def strm(E, st, a, k, base=base, attr=attr):
                if attr == 'join':
                    items = E.iter_concrete(a[0], st)
                    if all(isinstance(x, str) for x in items):
                        return val(st, base.join(items))
                    if all(isinstance(x, (str, SStr)) for x in items):
                        return val(st, SStr('<join>'))
                    return rz(st, TypeError, 'sequence item: expected str instance')
                if attr == 'format':
                    return val(st, SStr('<format>'))
                if all(_conc(x) for x in a) and all(_conc(x) for x in k.values()):
                    try:
                        r = getattr(base, attr)(*a, **k)
                    except Exception as ex:      # noqa
                        return rz(st, type(ex), str(ex))
                    if isinstance(r, list):
                        r = st.alloc(HObj('list', items=r))
                    return val(st, r)
                raise Unsupported('str.%s with symbolic argument' % attr)
            return BuiltinV('str.' + attr, strm)
        return _MISSING
    if isinstance(base, SStrL1):
        def l1m(E, st, a, k, base=base, attr=attr):
            if attr == 'encode':
                enc = a[0] if a else k.get('encoding', 'utf-8')
                if isinstance(enc, str) and enc.lower().replace('_', '-') in ('latin-1', 'latin1', 'iso-8859-1', 'l1'):
                    return val(st, mk_bytes(base.l1))
                raise Unsupported('encode(%r) of a latin-1 decoded string' % (enc,))
            if attr in ('startswith', 'endswith') and len(a) == 1 and isinstance(a[0], str):
                try:
                    c = bytes_const(a[0].encode('latin-1'))
                except UnicodeEncodeError:
                    return val(st, False)
                return val(st, mk_bool(z3.PrefixOf(c, base.l1) if attr == 'startswith' else z3.SuffixOf(c, base.l1)))
            raise Unsupported('method %s of a latin-1 decoded string' % attr)
        return BuiltinV('str.' + attr, l1m)
    if isinstance(base, SStr):
        def sstrm(E, st, a, k):
            if attr in ('lower', 'upper', 'strip', 'format', 'replace'):
                return val(st, SStr('<%s>' % attr))
            raise Unsupported('method %s of unknown string' % attr)
        return BuiltinV('str.' + attr, sstrm)
    if isinstance(base, PyClassV):
        if base.py is int and attr == 'from_bytes':
            return BuiltinV('int.from_bytes', m_int_from_bytes)
        if base.py is bytes and attr == 'fromhex':
            return BuiltinV('bytes.fromhex', lambda E, st, a, k: val(st, bytes.fromhex(a[0])) if isinstance(a[0], str) else (_ for _ in ()).throw(Unsupported('fromhex')))
        if base.py is dict and attr == 'fromkeys':
            def fromkeys(E, st, a, k):
                # dict.fromkeys(iterable of constant keys, value): a NEW dict mapping every key to the same value
                if k or not 1 <= len(a) <= 2:
                    raise Unsupported('dict.fromkeys call shape')
                keys = E.iter_concrete(a[0], st)
                if not all(E.is_hashable_concrete(x) for x in keys):
                    raise Unsupported('dict.fromkeys with symbolic keys')
                v = a[1] if len(a) == 2 else None
                return val(st, st.alloc(HObj('dict', items={x: v for x in keys})))
            return BuiltinV('dict.fromkeys', fromkeys)
        if attr == '__name__':
            return base.py.__name__
        return _MISSING
    if isinstance(base, ExcV):
        if attr == 'args':
            return tuple(base.args)
        return _MISSING
    if isinstance(base, BuiltinV) and attr == '__name__':
        return base.name            # native function values (contracts/rawapi.py) carry their C name, as ctypes function pointers do
    if isinstance(base, FrozenDict):
        def fdm(E, st, a, k):
            if attr == 'get':
                return val(st, base.d.get(a[0], a[1] if len(a) > 1 else None))
            if attr == 'keys':
                return val(st, tuple(base.d.keys()))
            if attr == 'values':
                return val(st, tuple(base.d.values()))
            if attr == 'items':
                return val(st, tuple(base.d.items()))
            if attr == 'copy':
                return val(st, st.alloc(HObj('dict', items=dict(base.d))))
            raise Unsupported('constant dict .%s' % attr)
        return BuiltinV('dict.' + attr, fdm)
    if isinstance(base, frozenset) and attr in ('issubset', 'issuperset', 'isdisjoint', 'union', 'intersection', 'difference',
                                                'symmetric_difference', 'copy'):
        # concrete sets of constants (keyword-name checks): CPython decides; symbolic members are outside the subset
        def fsm(E, st, a, k, base=base, attr=attr):
            a2 = [frozenset(x) if isinstance(x, (tuple, list)) and _conc(tuple(x)) else x for x in a]
            if k or not all(isinstance(x, frozenset) for x in a2):
                raise Unsupported('frozenset.%s with a non-constant argument' % attr)
            return val(st, getattr(base, attr)(*a2))
        return BuiltinV('frozenset.' + attr, fsm)
    if isinstance(base, tuple):
        if attr == 'index':
            def tindex(E, st, a, k):
                if _conc(a[0]) and all(_conc(x) for x in base):
                    try:
                        return val(st, base.index(a[0]))
                    except ValueError as ex:
                        return rz(st, ValueError, str(ex))
                raise Unsupported('tuple.index symbolic')
            return BuiltinV('tuple.index', tindex)
        if attr == 'count' and all(_conc(x) for x in base):
            return BuiltinV('tuple.count', lambda E, st, a, k: val(st, base.count(a[0])))
        return _MISSING
    if isinstance(base, SOpaque):
        return opaque_attr(E, st, base, attr)
    if isinstance(base, (int, float)) or base is None:
        return _MISSING
    return _MISSING


def opaque_attr(E, st, base, attr):
    return _MISSING


def m_startswith(E, st, base, a, k):
    p = a[0]
    if isinstance(p, tuple):
        ts = [z3.PrefixOf(zbytes(x), zbytes(base)) for x in p]
        return val(st, mk_bool(z3.Or(ts)))
    if not is_byteslike(p):
        return rz(st, TypeError, 'startswith first arg must be bytes')
    if isinstance(base, bytes) and isinstance(p, bytes):
        return val(st, base.startswith(p))
    return val(st, mk_bool(z3.PrefixOf(zbytes(p), zbytes(base))))


def m_endswith(E, st, base, a, k):
    p = a[0]
    if not is_byteslike(p):
        return rz(st, TypeError, 'endswith first arg must be bytes')
    if isinstance(base, bytes) and isinstance(p, bytes):
        return val(st, base.endswith(p))
    return val(st, mk_bool(z3.SuffixOf(zbytes(p), zbytes(base))))


def m_find(E, st, base, a, k, last=False, must=False):
    sub = a[0]
    if is_intlike(sub):
        zsub = z3.Unit(z3.Int2BV(zint(sub), 8))
    elif is_byteslike(sub):
        zsub = zbytes(sub)
    else:
        return rz(st, TypeError, 'argument should be integer or bytes-like object')
    if len(a) > 1:
        if last:
            raise Unsupported('rfind with start')
        start = zint(a[1])
        if len(a) > 2:
            raise Unsupported('find with end')
    else:
        start = z3.IntVal(0)
    zs = zbytes(base)
    if isinstance(base, bytes) and isinstance(sub, (bytes, int)) and len(a) == 1:
        r = (base.rfind if last else base.find)(sub)
    else:
        if last:
            # uninterpreted symbol + the ground facts that define "last occurrence" (z3's seq.last_indexof is weak)
            t = RFIND(zs, zsub)
            n, m = z3.Length(zs), z3.Length(zsub)
            st.fact(t >= -1)
            st.fact(z3.Implies(t >= 0, z3.And(t + m <= n, z3.SubSeq(zs, t, m) == zsub)))
            st.fact(z3.Implies(t == -1, z3.Not(z3.Contains(zs, zsub))))
            st.fact(z3.Implies(t >= 0, z3.Not(z3.Contains(z3.SubSeq(zs, t + 1, n - t - 1), zsub))))
            r = mk_int(t)
        else:
            r = mk_int(z3.IndexOf(zs, zsub, start))
    if must:
        bad, ok = E.split(st, zint(r) < 0)
        outs = []
        if bad is not None:
            outs += rz(bad, ValueError, 'subsection not found')
        if ok is not None:
            outs += val(ok, r)
        return outs
    return val(st, r)


def m_rfind(E, st, base, a, k):
    return m_find(E, st, base, a, k, last=True)


def m_index(E, st, base, a, k):
    return m_find(E, st, base, a, k, must=True)


def pacc_joined(E, st, first, rest):
    """first ++ rest of a prepend accumulator; with the contract option pacc_be also the ground instance of positional notation
    be(first ++ rest) == be(first) * 256**len(rest) + be(rest)  (the fact every proof about such a list needs)"""
    j = z3.Concat(zbytes(first), zbytes(rest))
    if E.options.get('pacc_be'):
        lr = z3.simplify(seq_length(E, st, zbytes(rest)))
        lf = z3.simplify(seq_length(E, st, zbytes(first)))
        p = z3.IntVal(256 ** lr.as_long()) if z3.is_int_value(lr) and lr.as_long() <= 4096 else ops.pow2(E, st, 8 * lr)
        zf = zbytes(first)
        if z3.is_app(zf) and zf.decl().kind() == z3.Z3_OP_UNINTERPRETED:
            bf = BE(zf)                     # e.g. i2osp(x, k) from struct.pack under pack_uf: its value is a fact already
        elif z3.is_int_value(lf) and lf.as_long() <= 16:
            bf = z3.IntVal(0)
            for i in range(lf.as_long()):
                bf = bf * 256 + ops.byte_int(E, st, ops.seq_nth(E, st, zbytes(first), i))
        else:
            bf = be_value(E, st, zbytes(first))
        st.fact(be_value(E, st, j) == bf * p + be_value(E, st, zbytes(rest)))
        st.fact(z3.Length(j) == lf + lr)
    return mk_bytes(j)


def m_lstrip(E, st, base, a, k):
    """bytes.lstrip(b'\\x00'): uninterpreted, with the ground facts that define it: base == zeros ++ result, the result does not
    start with a zero byte, and (positional notation) it has the same big-endian value"""
    if len(a) != 1 or not (isinstance(a[0], bytes) and a[0] == b'\x00'):
        raise Unsupported('lstrip other than lstrip(b"\\x00")')
    if isinstance(base, bytes):
        return val(st, base.lstrip(b'\x00'))
    zs = zbytes(base)
    t = LSTRIP0(zs)
    ln, lt = z3.Length(zs), z3.Length(t)
    st.fact(z3.And(lt >= 0, lt <= ln))
    st.fact(zs == z3.Concat(ops.REP(z3.Unit(z3.BitVecVal(0, 8)), ln - lt), t))
    st.fact(z3.Length(ops.REP(z3.Unit(z3.BitVecVal(0, 8)), ln - lt)) == ln - lt)
    st.fact(z3.Or(lt == 0, t[0] != z3.BitVecVal(0, 8)))
    st.fact(be_value(E, st, t) == be_value(E, st, zs))
    return val(st, mk_bytes(t))


LSTRIP0 = z3.Function('lstrip0', BYTES, BYTES)


def m_join(E, st, base, a, k):
    if isinstance(a[0], Ref) and st.heap[a[0].oid].kind == 'pacc':
        if isinstance(base, bytes) and len(base) == 0:
            _c, first, rest = st.heap[a[0].oid].items
            return val(st, pacc_joined(E, st, first, rest))
        raise Unsupported('join of a prepend-accumulator list with a non-empty or symbolic separator')
    if isinstance(a[0], Ref) and st.heap[a[0].oid].kind == 'acc':
        # accumulator abstraction (count, last, joined): exact only for the empty separator
        if isinstance(base, bytes) and len(base) == 0:
            return val(st, st.heap[a[0].oid].items[2])
        raise Unsupported('join of an accumulator list with a non-empty or symbolic separator')
    items = E.iter_concrete(a[0], st)
    for x in items:
        if not is_byteslike(x) and not (isinstance(x, Ref) and st.heap[x.oid].kind == 'bytearray'):
            return rz(st, TypeError, 'sequence item: expected a bytes-like object')
    items = [st.heap[x.oid].items if isinstance(x, Ref) else x for x in items]
    if isinstance(base, bytes) and all(isinstance(x, bytes) for x in items):
        return val(st, base.join(items))
    if not items:
        return val(st, b'')
    parts = []
    for i, x in enumerate(items):
        if i and not (isinstance(base, bytes) and len(base) == 0):
            parts.append(zbytes(base))
        parts.append(zbytes(x))
    return val(st, mk_bytes(parts[0] if len(parts) == 1 else z3.Concat(*parts)))


def m_hex(E, st, base, a, k):
    if isinstance(base, bytes):
        return val(st, base.hex())
    return val(st, SStr('<hex>'))


def m_decode(E, st, base, a, k):
    if isinstance(base, bytes):
        try:
            return val(st, base.decode(*a, **k))
        except Exception as ex:      # noqa
            return rz(st, type(ex), str(ex))
    enc = a[0] if a else k.get('encoding', 'utf-8')
    if isinstance(enc, str) and enc.lower().replace('_', '-') in ('latin-1', 'latin1', 'iso-8859-1', 'l1') and len(a) <= 1 and \
            set(k) <= {'encoding'}:
        # latin-1 decoding is total (every octet is a code point): the string is represented by its encoding
        return val(st, SStrL1(zbytes(base)))
    raise Unsupported('decode of symbolic bytes')


def m_tobytes(E, st, base, a, k):
    if isinstance(base, bytes):
        return val(st, base)
    return val(st, SBytes(base.t, 'bytes'))


def m_count(E, st, base, a, k):
    if isinstance(base, bytes) and isinstance(a[0], (bytes, int)):
        return val(st, base.count(a[0]))
    raise Unsupported('count on symbolic bytes')


def m_strip_like(E, st, base, a, k):
    raise Unsupported('strip on bytes')


_BYTES_METHODS = {'startswith': m_startswith, 'endswith': m_endswith, 'find': m_find, 'rfind': m_rfind,
                  'index': m_index, 'join': m_join, 'hex': m_hex, 'decode': m_decode, 'tobytes': m_tobytes,
                  'count': m_count, 'lstrip': m_lstrip}


def m_bit_length(E, st, base, a, k):
    if isinstance(base, int):
        return val(st, int(base).bit_length())
    x = zint(base)
    t = BITLEN(x)
    st.fact(t >= 0)
    st.fact(z3.Implies(x == 0, t == 0))
    st.fact(z3.Implies(x != 0, t >= 1))
    if E.options.get('int_lemmas') is not None:
        # opt-in: the defining inequality of int.bit_length() (Python docs): 2**(k-1) <= abs(x) < 2**k for x != 0
        ax = z3.If(x < 0, -x, x)
        st.fact(z3.Implies(x != 0, z3.And(ops.pow2(E, st, t - 1) <= ax, ax < ops.pow2(E, st, t))))
    for kk in E.options.get('bitlen_thresholds') or ():
        # opt-in ground instances of the same definition at constant thresholds: bit_length(x) > k  <=>  abs(x) >= 2**k
        st.fact((t > kk) == (z3.If(x < 0, -x, x) >= 2 ** kk))
    return val(st, mk_int(t))


def m_to_bytes(E, st, base, a, k):
    length = a[0] if a else k.get('length', 1)
    order = a[1] if len(a) > 1 else k.get('byteorder', 'big')
    if k.get('signed'):
        raise Unsupported('to_bytes signed')
    if order not in ('big', 'little'):
        return rz(st, ValueError, "byteorder must be either 'little' or 'big'")
    if isinstance(base, int) and isinstance(length, int):
        try:
            return val(st, int(base).to_bytes(length, order))
        except Exception as ex:      # noqa
            return rz(st, type(ex), str(ex))
    x, n = zint(base), zint(length)
    outs = []
    negl, okl = E.split(st, n < 0)
    if negl is not None:
        outs += rz(negl, ValueError, 'length argument must be non-negative')
    if okl is None:
        return outs
    st = okl
    neg, ok = E.split(st, x < 0)
    if neg is not None:
        outs += rz(neg, OverflowError, "can't convert negative int to unsigned")
    if ok is None:
        return outs
    st = ok
    if isinstance(length, int):
        lim = z3.IntVal(256 ** length)
    else:
        lim = ops.pow2(E, st, 8 * n)
    big, fits = E.split(st, x >= lim)
    if big is not None:
        outs += rz(big, OverflowError, 'int too big to convert')
    if fits is not None:
        outs += val(fits, mk_bytes(i2osp_value(E, fits, x, length, little=(order == 'little'))))
    return outs


def m_int_from_bytes(E, st, a, k):
    data = a[0]
    order = a[1] if len(a) > 1 else k.get('byteorder', 'big')
    if k.get('signed'):
        raise Unsupported('from_bytes signed')
    if isinstance(data, Ref) and st.heap[data.oid].kind == 'bytearray':
        data = st.heap[data.oid].items
    if not is_byteslike(data):
        return rz(st, TypeError, 'cannot convert object to bytes')
    if isinstance(data, bytes):
        return val(st, int.from_bytes(data, order))
    zs = zbytes(data)
    return val(st, mk_int(be_value(E, st, zs) if order == 'big' else le_value(E, st, zs)))


_INT_METHODS = {'bit_length': m_bit_length, 'to_bytes': m_to_bytes}


# ---------------------------------------------------------------- heap containers

def container_attr(E, st, ref, h, attr):
    from .interp import BuiltinV
    if h.kind == 'list':
        def lm(E, st, a, k):
            h = st.heap[ref.oid]
            if attr == 'append':
                h.items.append(a[0])
            elif attr == 'extend':
                h.items.extend(E.iter_concrete(a[0], st))
            elif attr == 'insert':
                if not isinstance(a[0], int):
                    raise Unsupported('list.insert symbolic index')
                h.items.insert(a[0], a[1])
            elif attr == 'pop':
                if not h.items:
                    return rz(st, IndexError, 'pop from empty list')
                i = a[0] if a else -1
                if not isinstance(i, int):
                    raise Unsupported('list.pop symbolic index')
                try:
                    v = h.items.pop(i)
                except IndexError:
                    return rz(st, IndexError, 'pop index out of range')
                st.writes.append((ref.oid, '<items>'))
                return val(st, v)
            elif attr in ('popleft', 'appendleft'):
                # collections.deque (see x_deque): a heap list flagged as a deque; a plain list has no such method
                if getattr(h, 'ghost_id', None) != 'deque':
                    return rz(st, AttributeError, "'list' object has no attribute '%s'" % attr)
                if attr == 'appendleft':
                    h.items.insert(0, a[0])
                else:
                    if not h.items:
                        return rz(st, IndexError, 'pop from an empty deque')
                    v = h.items.pop(0)
                    st.writes.append((ref.oid, '<items>'))
                    return val(st, v)
            elif attr == 'reverse':
                h.items.reverse()
            elif attr == 'copy':
                return val(st, st.alloc(HObj('list', items=list(h.items))))
            elif attr == 'index':
                if _conc(a[0]) and all(_conc(x) for x in h.items):
                    try:
                        return val(st, h.items.index(a[0]))
                    except ValueError as ex:
                        return rz(st, ValueError, str(ex))
                raise Unsupported('list.index symbolic')
            elif attr == 'count':
                if _conc(a[0]) and all(_conc(x) for x in h.items):
                    return val(st, h.items.count(a[0]))
                raise Unsupported('list.count symbolic')
            elif attr == 'sort':
                if all(_conc(x) for x in h.items) and not k:
                    h.items.sort()
                else:
                    raise Unsupported('list.sort symbolic')
            elif attr == 'remove':
                if _conc(a[0]) and all(_conc(x) for x in h.items):
                    try:
                        h.items.remove(a[0])
                    except ValueError as ex:
                        return rz(st, ValueError, str(ex))
                else:
                    raise Unsupported('list.remove symbolic')
            elif attr == 'clear':
                del h.items[:]
            else:
                raise Unsupported('list.%s' % attr)
            st.writes.append((ref.oid, '<items>'))
            return val(st, None)
        return BuiltinV('list.' + attr, lm)
    if h.kind == 'set':
        if attr != 'add':
            raise Unsupported('set.%s' % attr)

        def sadd(E, st, a, k):
            st.heap[ref.oid].items.append(a[0])
            st.writes.append((ref.oid, '<items>'))
            return val(st, None)
        return BuiltinV('set.add', sadd)
    if h.kind == 'alist':
        if attr != 'append':
            raise Unsupported('counted list .%s' % attr)

        def alm(E, st, a, k):
            from .contracts import eval_clause
            h = st.heap[ref.oid]
            if len(a) != 1 or k:
                return rz(st, TypeError, 'append() takes exactly one argument')
            hook = h.fields.get('__hook__', '')
            for cl in (E.options.get('on_append_instances') or {}).get(hook, []):
                # lemma calls at the append (only calls of registered, separately proved spec lemmas)
                from .contracts import parse_clause, _as_z3
                import ast as _ast
                node = parse_clause(cl)
                if not (isinstance(node, _ast.Call) and _ast.unparse(node.func) in E.registry.lemmas):
                    raise Unsupported('lemma instance %r is not a call of a registered spec lemma' % cl)
                st.assume(_as_z3(eval_clause(E, cl, st, {'item': a[0]})))
            for cl in (E.options.get('on_append') or {}).get(hook, []):
                g = eval_clause(E, cl, st, {'item': a[0]})
                E.oblige(st, g, 'on_append', 'append to the %s list' % hook, {'clause': cl})
            h.items = [mk_int(zint(h.items[0]) + 1)]
            st.writes.append((ref.oid, '<items>'))
            return val(st, None)
        return BuiltinV('list.append', alm)
    if h.kind == 'pacc':
        # prepend accumulator (count, first, rest): only insert(0, x)
        if attr != 'insert':
            raise Unsupported('prepend-accumulator list .%s' % attr)

        def pm(E, st, a, k):
            h = st.heap[ref.oid]
            if len(a) != 2 or k or not (isinstance(a[0], int) and not isinstance(a[0], bool) and a[0] == 0):
                raise Unsupported('prepend-accumulator list: only insert(0, x)')
            if not is_byteslike(a[1]):
                raise Unsupported('prepend-accumulator list: insert of a non-bytes item')
            cnt, first, rest = h.items
            h.items = [mk_int(zint(cnt) + 1), a[1], pacc_joined(E, st, first, rest)]
            st.writes.append((ref.oid, '<items>'))
            return val(st, None)
        return BuiltinV('list.insert', pm)
    if h.kind == 'acc':
        # append-only accumulator abstraction of a list of byte strings: items = [count, last, joined]
        if attr != 'append':
            raise Unsupported('accumulator list .%s' % attr)

        def am(E, st, a, k):
            h = st.heap[ref.oid]
            if len(a) != 1 or k:
                return rz(st, TypeError, 'append() takes exactly one argument')
            if not is_byteslike(a[0]):
                raise Unsupported('accumulator list: append of a non-bytes item')
            cnt, _last, joined = h.items
            h.items = [mk_int(zint(cnt) + 1), a[0], mk_bytes(z3.Concat(zbytes(joined), zbytes(a[0])))]
            st.writes.append((ref.oid, '<items>'))
            return val(st, None)
        return BuiltinV('list.append', am)
    if h.kind == 'dict':
        def dm(E, st, a, k):
            h = st.heap[ref.oid]
            if a and attr == 'get' and isinstance(a[0], SStr) and not isinstance(a[0], SStrL1) and \
                    all(isinstance(x, (str, int, bytes, tuple, type(None))) for x in h.items):
                # an unknown string is by definition unequal to every string constant (and to every non-string key): absent
                return val(st, a[1] if len(a) > 1 else None)
            if a and not E.is_hashable_concrete(a[0]) and attr in ('get', 'pop', 'setdefault'):
                raise Unsupported('symbolic dict key')
            if attr == 'get':
                return val(st, h.items.get(a[0], a[1] if len(a) > 1 else None))
            if attr == 'pop':
                if a[0] in h.items:
                    st.writes.append((ref.oid, '<items>'))
                    return val(st, h.items.pop(a[0]))
                if len(a) > 1:
                    return val(st, a[1])
                return [('raise', st, exc(KeyError, a[0]))]
            if attr == 'setdefault':
                if a[0] not in h.items:
                    h.items[a[0]] = a[1] if len(a) > 1 else None
                    st.writes.append((ref.oid, '<items>'))
                return val(st, h.items[a[0]])
            if attr == 'keys':
                return val(st, tuple(h.items.keys()))
            if attr == 'values':
                return val(st, tuple(h.items.values()))
            if attr == 'items':
                return val(st, tuple(h.items.items()))
            if attr == 'copy':
                return val(st, st.alloc(HObj('dict', items=dict(h.items))))
            if attr == 'update':
                for x in a:
                    if isinstance(x, Ref) and st.heap[x.oid].kind == 'dict':
                        h.items.update(st.heap[x.oid].items)
                    elif isinstance(x, FrozenDict):
                        h.items.update(x.d)
                    else:
                        raise Unsupported('dict.update arg')
                h.items.update(k)
                st.writes.append((ref.oid, '<items>'))
                return val(st, None)
            if attr == 'clear':
                h.items.clear()
                st.writes.append((ref.oid, '<items>'))
                return val(st, None)
            raise Unsupported('dict.%s' % attr)
        return BuiltinV('dict.' + attr, dm)
    if h.kind == 'bytearray':
        fn = _BYTES_METHODS.get(attr)
        if fn is not None:
            return BuiltinV('bytearray.' + attr, lambda E, st, a, k: fn(E, st, st.heap[ref.oid].items, a, k))
        if attr == 'extend':
            def ext(E, st, a, k):
                h = st.heap[ref.oid]
                x = a[0]
                if isinstance(x, Ref) and st.heap[x.oid].kind == 'bytearray':
                    x = st.heap[x.oid].items
                h.items = mk_bytes(z3.Concat(zbytes(h.items), zbytes(x)))
                st.writes.append((ref.oid, '<data>'))
                return val(st, None)
            return BuiltinV('bytearray.extend', ext)
        if attr == 'reverse':
            def rev(E, st, a, k):
                h = st.heap[ref.oid]
                h.items = mk_bytes(ops.reverse_value(E, st, zbytes(h.items)))
                st.writes.append((ref.oid, '<data>'))
                return val(st, None)
            return BuiltinV('bytearray.reverse', rev)
    return _MISSING


# ---------------------------------------------------------------- external modules

def _struct_fields(fmt):
    order = '>'
    if fmt and fmt[0] in '<>!=@':
        order = fmt[0]
        fmt = fmt[1:]
    if order in '=@':
        raise Unsupported('native struct byte order')
    sizes = {'B': 1, 'H': 2, 'I': 4, 'L': 4, 'Q': 8, 'b': 1}
    fields = []
    cnt = ''
    for ch in fmt:
        if ch.isdigit():
            cnt += ch
            continue
        if ch not in sizes or ch == 'b':
            raise Unsupported('struct format %r' % ch)
        for _ in range(int(cnt) if cnt else 1):
            fields.append(sizes[ch])
        cnt = ''
    return ('little' if order == '<' else 'big'), fields


def x_struct_pack(E, st, a, k):
    fmt = a[0]
    if not isinstance(fmt, str):
        raise Unsupported('symbolic struct format')
    if all(isinstance(x, int) for x in a[1:]):
        try:
            return val(st, _struct.pack(fmt, *a[1:]))
        except _struct.error as ex:
            return [('raise', st, exc(_struct.error, str(ex)))]
    order, fields = _struct_fields(fmt)
    if len(fields) != len(a) - 1:
        return [('raise', st, exc(_struct.error, 'pack expected %d items' % len(fields)))]
    outs = []
    parts = []
    cur = st
    for size, v in zip(fields, a[1:]):
        if not is_intlike(v):
            return outs + [('raise', cur, exc(_struct.error, 'required argument is not an integer'))]
        x = zint(v)
        bad, ok = E.split(cur, z3.Or(x < 0, x >= 256 ** size))
        if bad is not None:
            outs.append(('raise', bad, exc(_struct.error, 'argument out of range')))
        if ok is None:
            return outs
        cur = ok
        if size == 1 and E.options.get('int_bytes'):
            parts.append(byte_unit(E, cur, x))
            continue
        if E.options.get('pack_uf') and order == 'big' and size > 1:
            # opt-in: the packed field as the uninterpreted i2osp(x, size) with its defining facts (length, big-endian value)
            # instead of `size` explicit digit terms: proofs that only need the VALUE of the chunk stay free of digit arithmetic
            t = I2OSP(x, z3.IntVal(size))
            cur.fact(z3.Length(t) == size)
            cur.fact(BE(t) == x)
            cur.fact(BE(t) >= 0)
            parts.append(t)
            continue
        parts.append(i2osp_value(E, cur, x, size, little=(order == 'little')))
    outs.append(('val', cur, mk_bytes(parts[0] if len(parts) == 1 else z3.Concat(*parts))))
    return outs


def x_struct_unpack(E, st, a, k):
    fmt, data = a
    if not isinstance(fmt, str):
        raise Unsupported('symbolic struct format')
    if isinstance(data, Ref) and st.heap[data.oid].kind == 'bytearray':
        data = st.heap[data.oid].items
    if isinstance(data, bytes):
        try:
            return val(st, _struct.unpack(fmt, data))
        except _struct.error as ex:
            return [('raise', st, exc(_struct.error, str(ex)))]
    if not is_byteslike(data):
        return rz(st, TypeError, 'a bytes-like object is required')
    order, fields = _struct_fields(fmt)
    zs = zbytes(data)
    total = sum(fields)
    outs = []
    bad, ok = E.split(st, z3.Length(zs) != total)
    if bad is not None:
        outs.append(('raise', bad, exc(_struct.error, 'unpack requires a buffer of %d bytes' % total)))
    if ok is not None:
        vals = []
        off = 0
        for size in fields:
            idxs = range(off, off + size) if order == 'big' else range(off + size - 1, off - 1, -1)
            t = z3.IntVal(0)
            for i in idxs:
                t = t * 256 + ops.byte_int(E, ok, ops.seq_nth(E, ok, zs, i))
            vals.append(mk_int(t))
            off += size
        outs.append(('val', ok, tuple(vals)))
    return outs


def x_struct_calcsize(E, st, a, k):
    return val(st, _struct.calcsize(a[0]))


def x_deque(E, st, a, k):
    """collections.deque(iterable) without maxlen: modelled as a heap list flagged 'deque' (append/pop/popleft/appendleft/len/iteration)"""
    if k or len(a) > 1:
        raise Unsupported('deque with maxlen')
    h = HObj('list', items=list(E.iter_concrete(a[0], st)) if a else [])
    h.ghost_id = 'deque'
    return val(st, st.alloc(h))


_EXTERNAL = {
    ('collections', 'deque'): BuiltinV('collections.deque', x_deque),
    ('struct', 'pack'): BuiltinV('struct.pack', x_struct_pack),
    ('struct', 'unpack'): BuiltinV('struct.unpack', x_struct_unpack),
    ('struct', 'calcsize'): BuiltinV('struct.calcsize', x_struct_calcsize),
    ('struct', 'error'): PyClassV(_struct.error),
    ('math', 'gcd'): BuiltinV('math.gcd', x_math_gcd),
    ('sys', 'maxsize'): 2 ** 63 - 1,
    ('sys', 'byteorder'): 'little',
    ('sys', 'version_info'): (3, 12, 1, 'final', 0),
    ('abc', 'ABC'): PyClassV(object),
}


def external_attr(E, modname, attr):
    v = _EXTERNAL.get((modname, attr), _MISSING)
    if v is not _MISSING:
        return v
    if E.registry is not None:
        v = E.registry.global_override(modname + '.' + attr)
        if v is not _MISSING:
            return v
    return _MISSING


# hooks that contracts may extend -------------------------------------------------

def object_attr(E, st, ref, h, attr):
    from .interp import BuiltinV, ClassV
    if attr == '__new__':
        # obj.__new__(Cls): a fresh instance of Cls without running __init__ (object.__new__; no class here defines __new__)
        def new(E, st, a, k):
            if len(a) != 1 or not isinstance(a[0], ClassV) or k or a[0].info.find_method('__new__') is not None:
                raise Unsupported('__new__ with these arguments')
            return val(st, st.alloc(HObj('obj', cls=a[0].info)))
        return BuiltinV('object.__new__', new)
    if attr == '__dict__':
        # read access: an immutable snapshot of the instance fields (FrozenDict has no mutators: a write through the live
        # view would be outside the subset, not silently lost); unresolved lazily typed fields stay shared
        return FrozenDict(dict(h.fields))
    return _MISSING


def call_object(E, st, ref, h, args, kwargs):
    # abstract (native / caller-supplied) callable object: its call exists only as the contract  <class>.__call__
    gid = getattr(h, 'ghost_id', None)
    if h.kind == 'obj' and h.cls is None and gid and E.registry is not None:
        hook = E.registry.call_hook(E, gid + '.__call__', st)
        if hook is not None:
            return list(hook(E, st, [ref] + list(args), dict(kwargs)))
    return _MISSING


def call_opaque(E, st, f, args, kwargs):
    hook = E.registry.opaque_call_hook if E.registry is not None else None
    if hook is not None:
        r = hook(E, st, f, args, kwargs)
        if r is not None:
            return r
    return _MISSING


def opaque_binop(E, op, a, b, st, sink):
    return None


def opaque_getitem(E, st, base, idx, sink):
    return None


def object_getitem(E, st, base, h, idx, sink):
    return None


def is_lock_like(E, st, v):
    return isinstance(v, SOpaque) and v.label.startswith('lock')


def lock_id(E, st, v):
    return v.label
