"""Binary operators and subscripting with CPython semantics, including their failure outcomes."""
import ast
import operator
import z3

from .values import *     # noqa
from .interp import exc, _conc, FrozenDict

_PYOPS = {ast.Add: operator.add, ast.Sub: operator.sub, ast.Mult: operator.mul, ast.FloorDiv: operator.floordiv,
          ast.Mod: operator.mod, ast.Pow: operator.pow, ast.BitAnd: operator.and_, ast.BitOr: operator.or_,
          ast.BitXor: operator.xor, ast.LShift: operator.lshift, ast.RShift: operator.rshift,
          ast.Div: operator.truediv}
_DUNDER = {ast.Add: 'add', ast.Sub: 'sub', ast.Mult: 'mul', ast.FloorDiv: 'floordiv', ast.Mod: 'mod', ast.Pow: 'pow',
           ast.BitAnd: 'and', ast.BitOr: 'or', ast.BitXor: 'xor', ast.LShift: 'lshift', ast.RShift: 'rshift',
           ast.Div: 'truediv', ast.MatMult: 'matmul'}

REP = z3.Function('rep', BYTES, INT, BYTES)          # bytes * int
REV = z3.Function('rev', BYTES, BYTES)               # bytes[::-1]
POW2 = z3.Function('pow2', INT, INT)                 # 2**n for symbolic n


def _type_name(v):
    if is_byteslike(v):
        return 'bytes'
    if is_intlike(v):
        return 'int'
    if v is None:
        return 'NoneType'
    if isinstance(v, (str, SStr)):
        return 'str'
    return type(v).__name__


def binop(E, op, a, b, st, sink):
    from .interp import FuncV
    if isinstance(a, SUnionIB) or isinstance(b, SUnionIB):
        # an operator needs the Python type of an int|bytes union: fork into the two cases
        for s1, a1 in (E.resolve_union(st, a) if isinstance(a, SUnionIB) else [(st, a)]):
            for s2, b1 in (E.resolve_union(s1, b) if isinstance(b, SUnionIB) else [(s1, b)]):
                for r in binop(E, op, a1, b1, s2, sink):
                    yield r
        return
    # --- fully concrete: CPython decides, including the exception type
    if _conc(a) and _conc(b) and not isinstance(a, PyClassV) and not isinstance(b, PyClassV):
        if isinstance(op, ast.Pow) and isinstance(b, int) and (b > 100000 or (isinstance(a, int) and abs(a) > 2 and b > 20000)):
            raise Unsupported('huge concrete power')
        if isinstance(op, ast.LShift) and isinstance(b, int) and b > 1000000:
            raise Unsupported('huge concrete shift')
        if isinstance(op, ast.Mult) and ((isinstance(a, (bytes, str, tuple)) and isinstance(b, int) and b > (1 << 20)) or
                                         (isinstance(b, (bytes, str, tuple)) and isinstance(a, int) and a > (1 << 20))):
            raise Unsupported('huge concrete repetition')
        try:
            yield st, _PYOPS[type(op)](a, b)
        except Exception as ex:       # noqa
            sink.append(('raise', st, exc(type(ex), str(ex))))
        return
    # --- user objects: dunder dispatch
    for v, w, refl in ((a, b, False), (b, a, True)):
        if isinstance(v, Ref) and st.heap[v.oid].kind == 'obj' and st.heap[v.oid].cls is not None:
            nm = '__%s%s__' % ('r' if refl else '', _DUNDER[type(op)])
            f = st.heap[v.oid].cls.find_method(nm)
            if f is not None:
                for o in E.call_function(FuncV(f), [v, w], {}, st):
                    if o[0] == 'raise':
                        sink.append(o)
                    elif _is_not_implemented(o[2]):
                        for r in _after_not_implemented(E, op, v, w, refl, o[1], sink):
                            yield r
                    else:
                        yield o[1], o[2]
                return
            if not refl and isinstance(w, Ref):
                continue
            if refl or not isinstance(w, Ref):
                sink.append(('raise', st, exc(TypeError, 'unsupported operand')))
                return
    # heap containers
    if isinstance(a, Ref) or isinstance(b, Ref):
        ha = st.heap[a.oid] if isinstance(a, Ref) else None
        hb = st.heap[b.oid] if isinstance(b, Ref) else None
        if ha is not None and ha.kind == 'list':
            if isinstance(op, ast.Add) and hb is not None and hb.kind == 'list':
                yield st, st.alloc(HObj('list', items=list(ha.items) + list(hb.items)))
                return
            if isinstance(op, ast.Mult) and isinstance(b, int):
                yield st, st.alloc(HObj('list', items=list(ha.items) * b))
                return
            if isinstance(op, ast.Add):
                sink.append(('raise', st, exc(TypeError, 'can only concatenate list')))
                return
        if (ha is not None and ha.kind == 'bytearray') or (hb is not None and hb.kind == 'bytearray'):
            a2 = ha.items if ha is not None and ha.kind == 'bytearray' else a
            b2 = hb.items if hb is not None and hb.kind == 'bytearray' else b
            if not isinstance(a2, Ref) and not isinstance(b2, Ref):
                res = []
                for s1, v in binop(E, op, a2, b2, st, sink):
                    if ha is not None and ha.kind == 'bytearray' and is_byteslike(v):
                        v = s1.alloc(HObj('bytearray', items=v))
                    res.append((s1, v))
                for r in res:
                    yield r
                return
        if isinstance(op, ast.Mod) and isinstance(a, (str, SStr)):
            yield st, SStr('<fmt>')
            return
        raise Unsupported('binop %s on heap values' % type(op).__name__)
    # --- strings (messages only)
    if isinstance(a, (str, SStr)):
        if isinstance(op, ast.Mod):
            yield st, SStr('<fmt>')
            return
        if isinstance(op, ast.Add):
            if isinstance(b, (str, SStr)):
                yield st, SStr('<cat>')
            elif isinstance(b, SOpaque):
                raise Unsupported('str + opaque')
            else:
                sink.append(('raise', st, exc(TypeError, 'can only concatenate str (not "%s") to str' % _type_name(b))))
            return
        if isinstance(op, ast.Mult) and is_intlike(b):
            yield st, SStr('<rep>')
            return
        sink.append(('raise', st, exc(TypeError, 'unsupported operand for str')))
        return
    if isinstance(b, (str, SStr)):
        if isinstance(op, ast.Mult) and is_intlike(a):
            yield st, SStr('<rep>')
            return
        if isinstance(op, ast.Mod) and is_byteslike(a):
            raise Unsupported('bytes formatting')
        if isinstance(a, SOpaque):
            raise Unsupported('opaque + str')
        sink.append(('raise', st, exc(TypeError, 'unsupported operand types: %s and str' % _type_name(a))))
        return
    # --- integers
    if is_intlike(a) and is_intlike(b):
        for r in int_binop(E, op, a, b, st, sink):
            yield r
        return
    # --- byte strings
    if is_byteslike(a) and is_byteslike(b):
        if isinstance(op, ast.Add):
            kind = a.kind if isinstance(a, SBytes) else 'bytes'
            if kind == 'memoryview':
                sink.append(('raise', st, exc(TypeError, 'unsupported operand memoryview +')))
                return
            za, zb = zbytes(a), zbytes(b)
            if E.options.get('pacc_be') and z3.is_app(za) and za.decl().kind() == z3.Z3_OP_UNINTERPRETED and za.decl().name() == 'rep' \
                    and z3.is_app(za.arg(0)) and za.arg(0).decl().kind() == z3.Z3_OP_SEQ_UNIT and z3.is_bv_value(za.arg(0).arg(0)) \
                    and za.arg(0).arg(0).as_long() == 0:
                # opt-in: zero padding on the left does not change the big-endian value (positional notation)
                from . import models
                st.fact(models.be_value(E, st, z3.Concat(za, zb)) == models.be_value(E, st, zb))
            yield st, mk_bytes(z3.Concat(za, zb), kind)
            return
        if isinstance(op, ast.Mod):
            raise Unsupported('bytes formatting')
        sink.append(('raise', st, exc(TypeError, 'unsupported operand for bytes')))
        return
    if (is_byteslike(a) and is_intlike(b)) or (is_intlike(a) and is_byteslike(b)):
        if isinstance(op, ast.Mult):
            s, n = (a, b) if is_byteslike(a) else (b, a)
            yield st, replicate(E, s, n, st)
            return
        if isinstance(op, ast.Mod) and is_byteslike(a):
            raise Unsupported('bytes formatting')
        sink.append(('raise', st, exc(TypeError, 'unsupported operand types: %s and %s' % (_type_name(a), _type_name(b)))))
        return
    if isinstance(a, tuple) and isinstance(b, tuple) and isinstance(op, ast.Add):
        yield st, a + b
        return
    if isinstance(a, tuple) and isinstance(b, int) and isinstance(op, ast.Mult):
        yield st, a * b
        return
    if isinstance(a, float) or isinstance(b, float):
        raise Unsupported('float arithmetic with symbolic operand')
    if isinstance(a, SOpaque) or isinstance(b, SOpaque):
        mv = E.models.opaque_binop(E, op, a, b, st, sink)
        if mv is not None:
            for r in mv:
                yield r
            return
        raise Unsupported('binop with opaque operand')
    # None, mixed types ...
    sink.append(('raise', st, exc(TypeError, 'unsupported operand types: %s and %s' % (_type_name(a), _type_name(b)))))


def _is_not_implemented(v):
    from . import models
    return v is models.NotImplementedV


def _after_not_implemented(E, op, v, w, refl, st, sink):
    """the binary dunder of `v` returned NotImplemented (operands v, w; refl: it was the reflected method of the right operand).
    CPython: after a forward method, try the reflected method of the right operand when the operand types differ; when
    nothing is left (or that also returns NotImplemented) the operator raises TypeError."""
    from .interp import FuncV
    if not refl and isinstance(w, Ref) and st.heap[w.oid].kind == 'obj' and st.heap[w.oid].cls is not None:
        cv, cw = st.heap[v.oid].cls, st.heap[w.oid].cls
        if cw is not cv:
            if cw.is_subclass_of(cv):
                raise Unsupported('binary operator: right operand of a subclass of the left operand (reflected method has priority)')
            f = cw.find_method('__r%s__' % _DUNDER[type(op)])
            if f is not None:
                for o in E.call_function(FuncV(f), [w, v], {}, st):
                    if o[0] == 'raise':
                        sink.append(o)
                    elif _is_not_implemented(o[2]):
                        sink.append(('raise', o[1], exc(TypeError, 'unsupported operand type(s)')))
                    else:
                        yield o[1], o[2]
                return
    elif not refl and not (is_intlike(w) or w is None):
        # sequences repeat through __index__ of the left operand, containers have their own reflected methods: not modelled
        raise Unsupported('NotImplemented from a binary dunder with a right operand %r' % (w,))
    sink.append(('raise', st, exc(TypeError, 'unsupported operand type(s)')))


def replicate(E, s, n, st):
    if isinstance(n, int) and not isinstance(n, bool) or isinstance(n, bool):
        n = int(n)
        if n <= 0:
            return b''
        if n <= 256 or isinstance(s, bytes):
            if isinstance(s, bytes) and n * len(s) <= 65536:
                return s * n
            if n <= 256:
                return mk_bytes(z3.Concat(*([zbytes(s)] * n)) if n > 1 else zbytes(s))
    zs, zn = zbytes(s), zint(n)
    t = REP(zs, zn)
    ls = z3.simplify(z3.Length(zs))
    st.fact(z3.Length(t) == z3.If(zn > 0, ls * zn, 0))
    st.ghost.setdefault('reps', [])
    st.ghost['reps'] = st.ghost['reps'] + [(zs, zn, t)]
    return mk_bytes(t)


def _floordiv(x, y):
    return z3.If(y > 0, x / y, (-x) / (-y))


def pow2(E, st, n):
    """2**n for symbolic n >= 0 (uninterpreted with ground facts)"""
    for (y, k) in st.ghost.get('enum_vals', ()):
        # exponent == (a shift count this path fixed to the constant k) + constant: fold (exact on this path, no solver call)
        d = z3.simplify(n - y)
        if z3.is_int_value(d) and 0 <= k + d.as_long() <= 4096:
            return z3.IntVal(2 ** (k + d.as_long()))
        d = z3.simplify(n + y)              # exponent == constant - (that shift count)
        if z3.is_int_value(d) and 0 <= d.as_long() - k <= 4096:
            return z3.IntVal(2 ** (d.as_long() - k))
    if E.options.get('pow2_consts') and not z3.is_int_value(z3.simplify(n)):
        # opt-in: when the path condition fixes the exponent to one small constant, 2**n is that constant power
        s = z3.Solver()
        s.set('timeout', 400)
        s.add(*st.pc)
        if s.check() == z3.sat:
            v = s.model().eval(n, model_completion=True)
            if z3.is_int_value(v) and 0 <= v.as_long() <= 4096 and E.implied(st, n == v):
                return z3.IntVal(2 ** v.as_long())
    t = POW2(n)
    st.fact(t >= 1)
    st.fact(z3.Implies(n == 0, t == 1))
    st.fact(z3.Implies(n >= 1, t == 2 * POW2(n - 1)))
    st.fact(z3.Implies(n >= 8, t == 256 * POW2(n - 8)))
    if E.options.get('int_lemmas') is not None:
        _pow2_order(E, st, n, t)
    return t


IPOW = z3.Function('ipow', INT, INT, INT)            # b**e for symbolic e >= 0


def ipow(E, st, b, e):
    """b**e for a symbolic exponent e >= 0: uninterpreted, with the ground instances of its recursive definition"""
    t = IPOW(b, e)
    st.fact(z3.Implies(e == 0, t == 1))
    st.fact(z3.Implies(e == 1, t == b))
    st.fact(z3.Implies(e >= 1, t == b * IPOW(b, e - 1)))
    st.fact(z3.Implies(z3.And(b == 0, e >= 1), t == 0))
    st.fact(z3.Implies(b == 1, t == 1))
    st.fact(z3.Implies(z3.And(b >= 0, e >= 0), t >= 0))
    return t


def _pow2_order(E, st, n, t):
    """opt-in (contract option int_lemmas=[constant exponents]): ground instances of the strict monotonicity of 2**n
    (0 <= a < b ==> 2 * 2**a <= 2**b) between this application and every other application / listed constant met in
    the proof of the function.  Each instance is a true arithmetic fact, whatever the arguments are."""
    reg = E.__dict__.setdefault('_pow2_terms', {})
    if not reg:
        for c in E.options.get('int_lemmas') or ():
            reg[('const', c)] = (z3.IntVal(c), z3.IntVal(2 ** c))
    key = n.get_id()
    reg[key] = (n, t)
    for k2, (m, w) in list(reg.items()):
        if k2 == key:
            continue
        st.fact(z3.Implies(z3.And(n >= 0, n < m), 2 * t <= w))
        st.fact(z3.Implies(z3.And(m >= 0, m < n), 2 * w <= t))
        st.fact(z3.Implies(n == m, t == w))


def int_binop(E, op, a, b, st, sink):
    x, y = zint(a), zint(b)
    if isinstance(op, ast.Add):
        yield st, mk_int(x + y)
    elif isinstance(op, ast.Sub):
        yield st, mk_int(x - y)
    elif isinstance(op, ast.Mult):
        yield st, mk_int(x * y)
    elif isinstance(op, (ast.FloorDiv, ast.Mod)):
        if isinstance(b, int) and not isinstance(b, bool):
            if b == 0:
                sink.append(('raise', st, exc(ZeroDivisionError)))
                return
            q = x / y if b > 0 else (-x) / (-y)
            yield st, mk_int(q if isinstance(op, ast.FloorDiv) else x - y * q)
            return
        zero, nz = E.split(st, y == 0)
        if zero is not None:
            sink.append(('raise', zero, exc(ZeroDivisionError)))
        if nz is not None:
            if E.implied(nz, y > 0):
                q = x / y
                yield nz, mk_int(q if isinstance(op, ast.FloorDiv) else x % y)
            else:
                q = _floordiv(x, y)
                yield nz, mk_int(q if isinstance(op, ast.FloorDiv) else x - y * q)
    elif isinstance(op, ast.Div):
        raise Unsupported('true division')
    elif isinstance(op, ast.Pow):
        if isinstance(b, int):
            if b < 0:
                raise Unsupported('negative power')
            if b > 64:
                raise Unsupported('large power of symbolic base')
            r = z3.IntVal(1)
            for _ in range(b):
                r = r * x
            yield st, mk_int(r)
        elif isinstance(a, int) and a > 0 and (a & (a - 1)) == 0:
            k = a.bit_length() - 1           # a == 2**k
            neg, ok = E.split(st, y < 0)
            if neg is not None:
                raise Unsupported('possibly negative symbolic exponent')
            yield ok, mk_int(pow2(E, ok, k * y))
        else:
            neg, ok = E.split(st, y < 0)
            if neg is not None:
                raise Unsupported('possibly negative symbolic exponent (float result)')
            yield ok, mk_int(ipow(E, ok, x, y))
    elif isinstance(op, ast.LShift):
        if isinstance(b, int):
            if b < 0:
                sink.append(('raise', st, exc(ValueError, 'negative shift count')))
            else:
                yield st, mk_int(x * (1 << b))
        else:
            neg, ok = E.split(st, y < 0)
            if neg is not None:
                sink.append(('raise', neg, exc(ValueError, 'negative shift count')))
            if ok is not None:
                small = _small_shift_cases(E, ok, y)
                if small is not None:
                    for s1, k in small:
                        yield s1, mk_int(x * (1 << k))
                else:
                    yield ok, mk_int(x * pow2(E, ok, y))
    elif isinstance(op, ast.RShift):
        if isinstance(b, int):
            if b < 0:
                sink.append(('raise', st, exc(ValueError, 'negative shift count')))
            else:
                yield st, mk_int(x / (1 << b))
        else:
            neg, ok = E.split(st, y < 0)
            if neg is not None:
                sink.append(('raise', neg, exc(ValueError, 'negative shift count')))
            if ok is not None:
                small = _small_shift_cases(E, ok, y)
                if small is not None:
                    for s1, k in small:
                        yield s1, mk_int(x / (1 << k))
                else:
                    yield ok, mk_int(x / pow2(E, ok, y))
    elif isinstance(op, (ast.BitAnd, ast.BitOr, ast.BitXor)):
        if isinstance(a, (bool, SBool)) and isinstance(b, (bool, SBool)):
            # bool & | ^ bool is a bool in Python (`fmt_error |= cond`): exact on truth values, no bit-vector needed
            ta, tb = zbool(a), zbool(b)
            yield st, mk_bool(z3.simplify({ast.BitAnd: z3.And(ta, tb), ast.BitOr: z3.Or(ta, tb), ast.BitXor: z3.Xor(ta, tb)}[type(op)]))
            return
        if isinstance(a, int) and not isinstance(b, int):
            a, b, x, y = b, a, y, x
        if isinstance(b, int) and int(b) == 1 and E.options.get('bit_arith') and _visibly_bit(x):
            # opt-in: bit op with the constant 1 on a value that is visibly 0 or 1: the result stays visibly a bit
            yield st, mk_int({ast.BitAnd: x, ast.BitOr: z3.IntVal(1), ast.BitXor: z3.If(x == 1, 0, 1)}[type(op)])
            return
        if isinstance(b, int):
            m = int(b)
            if m < 0:
                # x & m == x - (x & ~m);  x | m == ~(~x & ~m) ; handle via complement mask
                nm = ~m                     # >= 0
                andn = _and_const(x, nm)    # x & ~m
                if isinstance(op, ast.BitAnd):
                    yield st, mk_int(x - andn)
                elif isinstance(op, ast.BitOr):
                    # x | m = m + (x & ~m)
                    yield st, mk_int(z3.IntVal(m) + andn)
                else:
                    # x ^ m = (x | m) - (x & m) = m + andn - (x - andn)
                    yield st, mk_int(z3.IntVal(m) + andn - (x - andn))
                return
            andv = _and_const(x, m)
            if isinstance(op, ast.BitAnd):
                yield st, mk_int(andv)
            elif isinstance(op, ast.BitOr):
                yield st, mk_int(x + m - andv)
            else:
                yield st, mk_int(x + m - 2 * andv)
            return
        if E.options.get('bit_arith'):
            # opt-in: one operand is provably a single bit (0 or 1): exact arithmetic forms, valid for every python int x
            #   x & b == (x % 2 if b else 0);   x | b == (x - x % 2 + 1 if b else x);   x ^ b == (x + 1 - 2 * (x % 2) if b else x)
            xs, ys = _visibly_bit(x), _visibly_bit(y)
            # (when exactly one operand is visibly a bit the single-bit form below needs no solver call at all)
            xb = xs or (not ys and E.implied(st, z3.And(x >= 0, x <= 1)))
            yb = ys or (not xs and E.implied(st, z3.And(y >= 0, y <= 1)))
            if xb and yb:
                # both are bits: the result is visibly a bit again
                r = {ast.BitAnd: z3.If(z3.And(x == 1, y == 1), 1, 0), ast.BitOr: z3.If(z3.Or(x == 1, y == 1), 1, 0),
                     ast.BitXor: z3.If(x == y, 0, 1)}[type(op)]
                yield st, mk_int(r)
                return
            for u, v, vb in ((x, y, yb), (y, x, xb)):
                if vb:
                    r = {ast.BitAnd: z3.If(v == 1, u % 2, 0), ast.BitOr: z3.If(v == 1, u - u % 2 + 1, u),
                         ast.BitXor: z3.If(v == 1, u + 1 - 2 * (u % 2), u)}[type(op)]
                    yield st, mk_int(r)
                    return
        # one operand is visibly a power of two 2**n or a low mask 2**n - 1 (from `1 << n`, `2 ** n`, `(1 << n) - 1`): exact
        # arithmetic forms, valid for every python int x (infinite two's complement) and n >= 0:
        #   x & (2**n - 1) == x mod 2**n;    x | 2**n == x + 2**n if bit n of x is clear else x;   x & 2**n == that bit * 2**n
        if E.bv_width is None:
            for u, v in ((x, y), (y, x)):
                p = _visibly_pow2(v)
                if p is not None and isinstance(op, ast.BitOr):
                    yield st, mk_int(z3.If((u / p) % 2 == 0, u + p, u))
                    return
                if p is not None and isinstance(op, ast.BitAnd):
                    yield st, mk_int(((u / p) % 2) * p)
                    return
                p = _visibly_pow2(z3.simplify(v + 1))
                if p is not None and isinstance(op, ast.BitAnd):
                    yield st, mk_int(u % p)
                    return
        # one operand is visibly a single bit in position k (`bit * 2**k` with a numeral 2**k and a visible 0/1 factor, e.g.
        # `(x & 1) << 7`): exact arithmetic forms, valid for every python int u (no solver call, no int<->bit-vector conversion)
        for u, v in ((x, y), (y, x)):
            bk = _visibly_bit_at(v)
            if bk is not None:
                t, c = bk
                bit_u = (u / c) % 2
                r = {ast.BitOr: z3.If(t == 1, z3.If(bit_u == 0, u + c, u), u),
                     ast.BitAnd: z3.If(t == 1, bit_u * c, z3.IntVal(0)),
                     ast.BitXor: z3.If(t == 1, z3.If(bit_u == 0, u + c, u - c), u)}[type(op)]
                yield st, mk_int(r)
                return
        # both symbolic: bit-vector mode with a "no bit is lost" side obligation
        W = E.bv_width
        if W is None and E.options.get('bitops') == 'uf':
            # opt-in: python's & | ^ on two unbounded symbolic integers (infinite two's complement) as uninterpreted
            # symbols with a few ground facts; contracts then speak of bitand()/bitor()/bitxor() of the same operands
            yield st, mk_int(bitop_value(E, st, type(op), x, y))
            return
        if W is None:
            raise Unsupported('bitwise operator on two symbolic integers (no bv_width in contract)')
        lim = z3.IntVal(1 << W)
        in_range = z3.And(x >= 0, x < lim, y >= 0, y < lim)
        bx, by = z3.Int2BV(x, W), z3.Int2BV(y, W)
        r = {ast.BitAnd: bx & by, ast.BitOr: bx | by, ast.BitXor: bx ^ by}[type(op)]
        if st.frames and st.frame.spec_mode:
            # in a spec expression the operator is total: exact on W-bit operands, an uninterpreted value otherwise
            uf = z3.Function('bitop_%s' % type(op).__name__, INT, INT, INT)
            yield st, mk_int(z3.If(in_range, z3.BV2Int(r), uf(x, y)))
        else:
            E.oblige(st, in_range, 'bv_range', 'operands of %s fit %d bits' % (type(op).__name__, W))
            yield st, mk_int(z3.BV2Int(r))
    else:
        raise Unsupported('int op ' + type(op).__name__)


def _visibly_pow2(t):
    """the term itself when it is syntactically pow2(n) (possibly as 1*pow2(n)); else None.  pow2(n) >= 1 is a fact of
    every application, and it denotes 2**n for n >= 0 (the only way the engine builds it)"""
    t = z3.simplify(t)
    if z3.is_app(t) and t.decl().kind() == z3.Z3_OP_UNINTERPRETED and t.decl().name() == 'pow2':
        return t
    if z3.is_app(t) and t.decl().kind() == z3.Z3_OP_MUL and t.num_args() == 2:
        a, b = t.arg(0), t.arg(1)
        if z3.is_int_value(a) and a.as_long() == 1:
            return _visibly_pow2(b)
    return None


def _small_shift_cases(E, st, y):
    """opt-in (contract option enum_shift=N): when the path condition confines a symbolic shift count to 0..N, split into
    one path per feasible value (an exact case analysis; each path then shifts by a constant)"""
    n = E.options.get('enum_shift')
    if not n or not E.implied(st, z3.And(y >= 0, y <= n)):
        return None
    ks = [k for k in range(n + 1) if E.feasible(st, y == k)]
    out = []
    for i, k in enumerate(ks):
        s1 = st if i == len(ks) - 1 else st.fork()
        s1.pc.append(y == k)
        s1.trace.append(('shift', k))
        s1.ghost['enum_vals'] = tuple(s1.ghost.get('enum_vals', ())) + ((y, k),)
        out.append((s1, k))
    return out


BITOPS = {ast.BitAnd: z3.Function('bitand', INT, INT, INT), ast.BitOr: z3.Function('bitor', INT, INT, INT),
          ast.BitXor: z3.Function('bitxor', INT, INT, INT)}


def bitop_value(E, st, opt, x, y):
    f = BITOPS[opt]
    t = f(x, y)
    st.fact(t == f(y, x))
    nonneg = z3.And(x >= 0, y >= 0)
    if opt is ast.BitAnd:
        st.fact(z3.Implies(nonneg, z3.And(t >= 0, t <= x, t <= y)))
        st.fact(z3.Implies(y == 0, t == 0))
        st.fact(z3.Implies(y == 1, t == x % 2))
        st.fact(z3.Implies(x == y, t == x))
    elif opt is ast.BitOr:
        st.fact(z3.Implies(nonneg, z3.And(t >= x, t >= y, t <= x + y)))
        st.fact(z3.Implies(y == 0, t == x))
        st.fact(z3.Implies(y == 1, t == x - x % 2 + 1))
        st.fact(z3.Implies(x == y, t == x))
    else:
        st.fact(z3.Implies(nonneg, z3.And(t >= 0, t <= x + y)))
        st.fact(z3.Implies(y == 0, t == x))
        st.fact(z3.Implies(x == y, t == 0))
        st.fact(z3.Implies(t == 0, x == y))                # a ^ b == 0 only for a == b
    for k in (8, 16, 32, 64, 128, 256):
        # operands below 2**k give a result below 2**k
        st.fact(z3.Implies(z3.And(nonneg, x < (1 << k), y < (1 << k)), t < (1 << k)))
    return t


def _visibly_bit(t):
    """t is 0 or 1 by its shape (no solver call): a numeral 0/1, `e mod 2`, or an if-then-else of such"""
    if z3.is_int_value(t):
        return t.as_long() in (0, 1)
    if z3.is_app(t) and t.decl().kind() == z3.Z3_OP_MOD and z3.is_int_value(t.arg(1)) and t.arg(1).as_long() == 2:
        return True
    if z3.is_app(t) and t.decl().kind() == z3.Z3_OP_ITE:
        return _visibly_bit(t.arg(1)) and _visibly_bit(t.arg(2))
    return False


def _visibly_bit_at(t):
    """(bit, 2**k) when t is syntactically `bit * 2**k` / `2**k * bit` with a numeral power of two and a visible 0/1 factor"""
    if z3.is_app(t) and t.decl().kind() == z3.Z3_OP_MUL and t.num_args() == 2:
        for a, b in ((t.arg(0), t.arg(1)), (t.arg(1), t.arg(0))):
            if z3.is_int_value(a) and a.as_long() >= 1 and (a.as_long() & (a.as_long() - 1)) == 0 and _visibly_bit(b):
                return b, a
    return None


def _and_const(x, m):
    """x & m for a non-negative constant mask m, exact on all integers (two's complement)"""
    if m == 0:
        return z3.IntVal(0)
    terms = []
    i = 0
    while (m >> i):
        if (m >> i) & 1:
            j = i
            while (m >> j) & 1:
                j += 1
            part = x if i == 0 else x / (1 << i)
            terms.append((part % (1 << (j - i))) * (1 << i) if i else (part % (1 << (j - i))))
            i = j
        else:
            i += 1
    r = terms[0]
    for t in terms[1:]:
        r = r + t
    return r


# ---------------------------------------------------------------- subscripts

def _clamp(i, n):
    return z3.If(i < 0, z3.If(i + n < 0, 0, i + n), z3.If(i > n, n, i))


def byte_int(E, st, bv):
    """integer value of a byte term.  Default: BV2Int(bv).  Opt-in (contract option int_bytes): a named integer x with the
    defining facts 0 <= x <= 255 and Int2BV(x, 8) == bv (one name per term and proof) -- arithmetic over bytes then stays in
    linear integer arithmetic, which z3 decides far faster than through bv2int"""
    if not E.options.get('int_bytes'):
        # exact, no solver: the byte made from x % 256 has the integer value x % 256 (z3 does not see through bv2int(int2bv(.)))
        if z3.is_app(bv) and bv.decl().kind() == z3.Z3_OP_INT2BV and bv.size() == 8:
            a = bv.arg(0)
            if z3.is_app(a) and a.decl().kind() == z3.Z3_OP_MOD and z3.is_int_value(a.arg(1)) and a.arg(1).as_long() == 256:
                return a
        return z3.BV2Int(bv)
    bv = z3.simplify(bv)
    if z3.is_bv_value(bv):
        return z3.IntVal(bv.as_long())
    if z3.is_app(bv) and bv.decl().kind() == z3.Z3_OP_INT2BV and (
            bv.arg(0).get_id() in E.__dict__.get('_ranged_bytes', ()) or E.implied(st, z3.And(bv.arg(0) >= 0, bv.arg(0) <= 255))):
        return bv.arg(0)
    memo = E.__dict__.setdefault('_byte_ints', {})
    key = bv.get_id()
    if key not in memo:
        memo[key] = (E.fresh(INT, 'byteval'), bv)
    x, bv0 = memo[key]
    st.fact(z3.And(x >= 0, x <= 255))
    st.fact(z3.Int2BV(x, 8) == bv0)
    return x


def seq_nth(E, st, zs, j):
    """the element term zs[j] (0 <= j < len assumed by the caller); extract(s0, a, l)[j] is written s0[a + j] when the path
    condition puts the slice in bounds -- the same element, in the one shape every producer (subscripts, be(), le(), struct) uses"""
    if z3.is_app(zs) and zs.decl().kind() == z3.Z3_OP_SEQ_EXTRACT:
        s0, a, l = zs.arg(0), zs.arg(1), zs.arg(2)
        jz = j if z3.is_expr(j) else z3.IntVal(j)
        inb = z3.And(a >= 0, l >= 0, a + l <= z3.Length(s0), jz >= 0, jz < l)
        # the bridge between the two spellings, as a fact (true of seq.extract): a term built where the bounds were not yet known
        # and one built where they were must not cost a sequence-theory proof to be identified
        st.fact(z3.Implies(inb, zs[jz] == s0[z3.simplify(a + jz)]))
        if E.implied(st, inb):
            return seq_nth(E, st, s0, z3.simplify(a + jz))
    return zs[j]


def reverse_value(E, st, zs):
    """s[::-1]: explicit for short constant lengths, otherwise uninterpreted with the ground facts that define reversal
    at this instance (length, involution, first/last element, big-endian value of the reverse == little-endian value)"""
    n = z3.simplify(z3.Length(zs))
    if z3.is_int_value(n) and n.as_long() <= 16:
        k = n.as_long()
        if k == 0:
            return z3.Empty(BYTES)
        units = [z3.Unit(zs[i]) for i in range(k - 1, -1, -1)]
        return units[0] if k == 1 else z3.Concat(*units)
    from . import models
    t = REV(zs)
    ln = z3.Length(zs)
    st.fact(z3.Length(t) == ln)
    st.fact(REV(t) == zs)
    st.fact(z3.Implies(ln >= 1, z3.And(t[0] == zs[ln - 1], t[ln - 1] == zs[0])))
    st.fact(models.LE(t) == models.BE(zs))
    st.fact(models.BE(t) == models.LE(zs))
    return t


def slice_bytes(E, base, sl, st, sink):
    zs = zbytes(base)
    kind = base.kind if isinstance(base, SBytes) else 'bytes'
    n = z3.Length(zs)
    step = sl.step
    if step is not None and step != 1:
        if step == -1 and sl.start is None and sl.stop is None:
            return mk_bytes(reverse_value(E, st, zs), kind)
        raise Unsupported('slice step')
    for b in (sl.start, sl.stop):
        if b is not None and not is_intlike(b):
            sink.append(('raise', st, exc(TypeError, 'slice indices must be integers')))
            return None
    # bounds: use the clamped CPython formula only when the path condition does not already fix the case
    def bound(b, default_hi):
        if b is None:
            return n if default_hi else z3.IntVal(0)
        zb = zint(b)
        if isinstance(b, int) and b == 0:
            return z3.IntVal(0)
        if E.implied(st, z3.And(zb >= 0, zb <= n)):
            return zb
        if E.implied(st, z3.And(zb < 0, zb + n >= 0)):
            return zb + n
        if E.implied(st, zb >= n):
            return n
        return _clamp(zb, n)
    lo = bound(sl.start, False)
    hi = bound(sl.stop, True)
    if sl.stop is None and z3.is_int_value(lo) and lo.as_long() == 0:
        return base if isinstance(base, SBytes) else mk_bytes(zs, kind)      # s[0:] is s
    if sl.stop is None or E.implied(st, hi >= lo):
        ln = hi - lo
    else:
        ln = z3.If(hi - lo < 0, 0, hi - lo)
    # extract(extract(s0, a, l), lo, ln) == extract(s0, a + lo, ln) when the inner slice is in bounds
    if z3.is_app(zs) and zs.decl().kind() == z3.Z3_OP_SEQ_EXTRACT:
        s0, a, l = zs.arg(0), zs.arg(1), zs.arg(2)
        if E.implied(st, z3.And(a >= 0, l >= 0, a + l <= z3.Length(s0), lo >= 0, ln >= 0, lo + ln <= l)):
            return mk_bytes(z3.SubSeq(s0, z3.simplify(a + lo), z3.simplify(ln)), kind)
    cs = _concat_slice(E, st, zs, lo, ln)
    if cs is not None:
        return mk_bytes(cs, kind)
    t = z3.SubSeq(zs, z3.simplify(lo), z3.simplify(ln))
    return mk_bytes(t, kind)


def _known_length(st, c):
    """concrete length of a sequence term if it is syntactically evident or stated by a path-condition entry `Length(c) == k`"""
    if z3.is_app(c):
        k = c.decl().kind()
        if k == z3.Z3_OP_SEQ_UNIT:
            return 1
        if k == z3.Z3_OP_SEQ_EMPTY:
            return 0
    lc = z3.Length(c)
    for t in st.pc:
        if z3.is_app(t) and t.decl().kind() == z3.Z3_OP_EQ and t.num_args() == 2:
            a, b = t.arg(0), t.arg(1)
            if z3.is_int_value(b) and a.eq(lc):
                return b.as_long()
            if z3.is_int_value(a) and b.eq(lc):
                return a.as_long()
    return None


def _concat_slice(E, st, zs, lo, ln):
    """s[lo:lo+ln] of a concatenation s = c1 ++ ... ++ ck whose members have known lengths and whose bounds fall on member boundaries
    is the concatenation of the members in between (exact; avoids a sequence-solver proof for `b'\\x04' + x + y` style encodings)"""
    if not (z3.is_app(zs) and zs.decl().kind() == z3.Z3_OP_SEQ_CONCAT):
        return None
    lo_s, ln_s = z3.simplify(lo), z3.simplify(ln)
    if not (z3.is_int_value(lo_s) and z3.is_int_value(ln_s)):
        return None
    lo_i, hi_i = lo_s.as_long(), lo_s.as_long() + ln_s.as_long()
    kids = []

    def flat(x):
        if z3.is_app(x) and x.decl().kind() == z3.Z3_OP_SEQ_CONCAT:
            for y in x.children():
                flat(y)
        else:
            kids.append(x)
    flat(zs)
    pos, picked, inside = 0, [], False
    for c in kids:
        n = _known_length(st, c)
        if n is None:
            return None
        if pos == lo_i and not inside:
            inside = True
        if inside and pos < hi_i:
            if pos + n > hi_i:
                return None                 # the upper bound cuts a member
            picked.append(c)
        elif not inside and pos < lo_i < pos + n:
            return None                     # the lower bound cuts a member
        pos += n
        if inside and pos >= hi_i:
            break
    if not inside or pos < hi_i:
        return None
    if lo_i == hi_i:
        return z3.Empty(BYTES)
    return picked[0] if len(picked) == 1 else z3.Concat(*picked)


def subscript(E, base, idx, st, sink):
    from .interp import FuncV
    if isinstance(base, Ref):
        h = st.heap[base.oid]
        if h.kind == 'list':
            for r in _seq_index(E, list(h.items), idx, st, sink, aslist=True):
                yield r
            return
        if h.kind == 'dict':
            if not E.is_hashable_concrete(idx):
                raise Unsupported('symbolic dict key')
            if idx in h.items:
                yield st, h.items[idx]
            else:
                sink.append(('raise', st, exc(KeyError, idx)))
            return
        if h.kind == 'pacc':
            # prepend accumulator (count, first, rest): only t[0]
            if not (isinstance(idx, int) and not isinstance(idx, bool) and idx == 0):
                raise Unsupported('prepend-accumulator list: only [0] is supported')
            empty, ok = E.split(st, zint(h.items[0]) <= 0)
            if empty is not None:
                sink.append(('raise', empty, exc(IndexError, 'list index out of range')))
            if ok is not None:
                yield ok, ok.heap[base.oid].items[1]
            return
        if h.kind == 'acc':
            # accumulator abstraction (count, last, joined): only t[-1]
            if not (isinstance(idx, int) and not isinstance(idx, bool) and idx == -1):
                raise Unsupported('accumulator list: only [-1] is supported')
            empty, ok = E.split(st, zint(h.items[0]) <= 0)
            if empty is not None:
                sink.append(('raise', empty, exc(IndexError, 'list index out of range')))
            if ok is not None:
                yield ok, ok.heap[base.oid].items[1]
            return
        if h.kind == 'bytearray':
            for s1, v in subscript(E, h.items if not isinstance(h.items, bytes) else h.items, idx, st, sink):
                if isinstance(idx, slice) and is_byteslike(v):
                    v = s1.alloc(HObj('bytearray', items=v))
                yield s1, v
            return
        f = h.cls.find_method('__getitem__') if h.cls else None
        if f is not None:
            if isinstance(idx, slice):
                raise Unsupported('slice through __getitem__')
            for o in E.call_function(FuncV(f), [base, idx], {}, st):
                if o[0] == 'raise':
                    sink.append(o)
                else:
                    yield o[1], o[2]
            return
        mv = E.models.object_getitem(E, st, base, h, idx, sink)
        if mv is not None:
            for r in mv:
                yield r
            return
        gid = getattr(h, 'ghost_id', None)
        if h.kind == 'obj' and h.cls is None and gid and E.registry is not None:
            # abstract (native / opaque) object: obj[idx] exists only as the contract / model  <class>.__getitem__
            hook = E.registry.call_hook(E, gid + '.__getitem__', st)
            if hook is not None:
                for o in hook(E, st, [base, idx], {}):
                    if o[0] == 'raise':
                        sink.append(o)
                    else:
                        yield o[1], o[2]
                return
            raise Unsupported('abstract object %s has no contract for [...]' % gid)
        sink.append(('raise', st, exc(TypeError, 'object is not subscriptable')))
        return
    if isinstance(base, FrozenDict):
        if not E.is_hashable_concrete(idx):
            raise Unsupported('symbolic dict key')
        if idx in base.d:
            yield st, base.d[idx]
        else:
            sink.append(('raise', st, exc(KeyError, idx)))
        return
    if isinstance(base, (tuple, str, range)) or (isinstance(base, bytes) and (_conc(idx) if not isinstance(idx, slice) else all(_conc(x) for x in (idx.start, idx.stop, idx.step)))):
        if isinstance(base, (tuple,)):
            for r in _seq_index(E, base, idx, st, sink, aslist=False):
                yield r
            return
        try:
            yield st, base[idx]
        except Exception as ex:       # noqa
            if isinstance(idx, SV) or (isinstance(idx, slice) and any(isinstance(x, SV) for x in (idx.start, idx.stop, idx.step))):
                raise Unsupported('symbolic index into str/range')
            sink.append(('raise', st, exc(type(ex), str(ex))))
        return
    if is_byteslike(base):
        if isinstance(idx, slice):
            r = slice_bytes(E, base, idx, st, sink)
            if r is not None:
                yield st, r
            return
        if not is_intlike(idx):
            if isinstance(idx, SOpaque):
                raise Unsupported('opaque index')
            sink.append(('raise', st, exc(TypeError, 'byte indices must be integers')))
            return
        zs = zbytes(base)
        n = z3.Length(zs)
        i = zint(idx)
        bad, ok = E.split(st, z3.Or(i >= n, i < -n))
        if bad is not None:
            sink.append(('raise', bad, exc(IndexError, 'index out of range')))
        if ok is not None:
            if isinstance(idx, int) and idx >= 0:
                j = z3.IntVal(idx)
            elif isinstance(idx, int):
                j = n + idx
            elif E.implied_arith(ok, i >= 0):
                j = i                                   # a non-negative index needs no normalisation (simpler term, same value)
            else:
                j = z3.If(i < 0, i + n, i)
            yield ok, mk_int(byte_int(E, ok, seq_nth(E, ok, zs, j)))
        return
    if base is None or is_intlike(base):
        sink.append(('raise', st, exc(TypeError, 'object is not subscriptable')))
        return
    if isinstance(base, SOpaque):
        mv = E.models.opaque_getitem(E, st, base, idx, sink)
        if mv is not None:
            for r in mv:
                yield r
            return
    raise Unsupported('subscript of %r' % (base,))


def _seq_index(E, items, idx, st, sink, aslist):
    if isinstance(idx, slice):
        if not all(_conc(x) for x in (idx.start, idx.stop, idx.step)):
            raise Unsupported('symbolic slice of list/tuple')
        r = items[idx]
        yield st, (st.alloc(HObj('list', items=list(r))) if aslist else tuple(r))
        return
    if isinstance(idx, (int, bool)) and not isinstance(idx, SV):
        try:
            yield st, items[idx]
        except IndexError:
            sink.append(('raise', st, exc(IndexError, 'index out of range')))
        return
    if isinstance(idx, (SInt, SBool)):
        # symbolic index into a sequence of concrete length: case split
        i = zint(idx)
        n = len(items)
        bad, ok = E.split(st, z3.Or(i >= n, i < -n))
        if bad is not None:
            sink.append(('raise', bad, exc(IndexError, 'index out of range')))
        if ok is not None:
            if n <= 64 and all(is_intlike(x) for x in items):
                j = z3.If(i < 0, i + n, i)
                t = zint(items[-1])
                for k in range(n - 2, -1, -1):
                    t = z3.If(j == k, zint(items[k]), t)
                yield ok, mk_int(t)
            else:
                for k in range(-n, n):
                    s2 = ok.fork()
                    if E.feasible(s2, i == k):
                        s2.assume(i == k)
                        yield s2, items[k]
        return
    sink.append(('raise', st, exc(TypeError, 'indices must be integers')))


def store_subscript(E, base, idx, v, st, sink):
    """returns list of states"""
    from .interp import FuncV
    if isinstance(base, Ref):
        h = st.heap[base.oid]
        if h.kind == 'pacc':
            if not (isinstance(idx, int) and not isinstance(idx, bool) and idx == 0) or not is_byteslike(v):
                raise Unsupported('prepend-accumulator list: only t[0] = <bytes> is supported')
            empty, ok = E.split(st, zint(h.items[0]) <= 0)
            if empty is not None:
                sink.append(('raise', empty, exc(IndexError, 'list assignment index out of range')))
            if ok is None:
                return []
            h = ok.heap[base.oid]
            h.items = [h.items[0], v, h.items[2]]
            ok.writes.append((base.oid, '<items>'))
            return [ok]
        if h.kind == 'list':
            if isinstance(idx, slice):
                if not all(_conc(x) for x in (idx.start, idx.stop, idx.step)):
                    raise Unsupported('symbolic list slice store')
                h.items[idx] = E.iter_concrete(v, st)
            elif isinstance(idx, int):
                try:
                    h.items[idx] = v
                except IndexError:
                    sink.append(('raise', st, exc(IndexError, 'list assignment index out of range')))
                    return []
            elif isinstance(idx, (SInt, SBool)) and len(h.items) <= 64 and is_intlike(v) and all(is_intlike(x) for x in h.items):
                # symbolic index into a list of integers of concrete length: every cell becomes "v if it is the cell else itself"
                i = zint(idx)
                n = len(h.items)
                bad, ok = E.split(st, z3.Or(i >= n, i < -n))
                if bad is not None:
                    sink.append(('raise', bad, exc(IndexError, 'list assignment index out of range')))
                if ok is None:
                    return []
                st = ok
                h = st.heap[base.oid]
                j = z3.If(i < 0, i + n, i)
                h.items = [mk_int(z3.If(j == k, zint(v), zint(x))) for k, x in enumerate(h.items)]
            else:
                raise Unsupported('symbolic list index store')
            st.writes.append((base.oid, '<items>'))
            return [st]
        if h.kind == 'dict':
            if not E.is_hashable_concrete(idx):
                raise Unsupported('symbolic dict key store')
            h.items[idx] = v
            st.writes.append((base.oid, '<items>'))
            return [st]
        if h.kind == 'bytearray':
            zs = zbytes(h.items)
            n = z3.Length(zs)
            if isinstance(idx, slice):
                if idx.step is not None:
                    raise Unsupported('bytearray slice step store')
                def _bound(b):
                    # the clamped CPython formula only when the path condition does not already fix the case (as in slice_bytes)
                    zb = zint(b)
                    if E.implied(st, z3.And(zb >= 0, zb <= n)):
                        return zb
                    if E.implied(st, z3.And(zb < 0, zb + n >= 0)):
                        return zb + n
                    if E.implied(st, zb >= n):
                        return n
                    return _clamp(zb, n)
                lo = z3.IntVal(0) if idx.start is None else _bound(idx.start)
                hi = n if idx.stop is None else _bound(idx.stop)
                if not E.implied(st, hi >= lo):
                    hi = z3.If(hi < lo, lo, hi)
                lo, hi = z3.simplify(lo), z3.simplify(hi)
                if isinstance(v, Ref):
                    v = st.heap[v.oid].items
                parts = [z3.SubSeq(zs, 0, lo), zbytes(v), z3.SubSeq(zs, hi, n - hi)]
                if idx.stop is None:
                    parts.pop()                 # b[lo:] = v : nothing of the old data follows
                if idx.start is None:
                    parts.pop(0)                # b[:hi] = v : nothing precedes
                h.items = mk_bytes(parts[0] if len(parts) == 1 else z3.Concat(*parts))
                st.writes.append((base.oid, '<data>'))
                return [st]
            if isinstance(v, Ref) and st.heap[v.oid].kind == 'obj' and st.heap[v.oid].cls is not None and \
                    st.heap[v.oid].cls.find_method('__index__') is not None:
                # bytearray[i] = obj: CPython converts through obj.__index__() (Integer objects)
                outs = []
                for o in E.call_function(FuncV(st.heap[v.oid].cls.find_method('__index__')), [v], {}, st):
                    if o[0] == 'raise':
                        sink.append(o)
                    else:
                        outs.extend(store_subscript(E, base, idx, o[2], o[1], sink))
                return outs
            i = zint(idx)
            outs = []
            bad, ok = E.split(st, z3.Or(i >= n, i < -n))
            if bad is not None:
                sink.append(('raise', bad, exc(IndexError, 'bytearray index out of range')))
            if ok is not None:
                h = ok.heap[base.oid]
                zs = zbytes(h.items)
                j = z3.If(i < 0, i + n, i)
                b, okv = E.split(ok, z3.Or(zint(v) < 0, zint(v) > 255))
                if b is not None:
                    sink.append(('raise', b, exc(ValueError, 'byte must be in range(0, 256)')))
                if okv is not None:
                    h = okv.heap[base.oid]
                    h.items = mk_bytes(z3.Concat(z3.SubSeq(zs, 0, j), z3.Unit(z3.Int2BV(zint(v), 8)), z3.SubSeq(zs, j + 1, n - j - 1)))
                    okv.writes.append((base.oid, '<data>'))
                    outs.append(okv)
            return outs
        f = h.cls.find_method('__setitem__') if h.cls else None
        if f is not None:
            outs = []
            for o in E.call_function(FuncV(f), [base, idx, v], {}, st):
                if o[0] == 'raise':
                    sink.append(o)
                else:
                    outs.append(o[1])
            return outs
    if is_byteslike(base) or isinstance(base, (tuple, str)):
        sink.append(('raise', st, exc(TypeError, 'object does not support item assignment')))
        return []
    raise Unsupported('subscript store on %r' % (base,))
