"""Native replay of a counter-model: rebuild the arguments from the witness, call the REAL function of the
current tree under CPython, and evaluate the violated clause on the concrete pre/post states."""
import copy
import importlib
import sys
import z3

from .values import *      # noqa
from .interp import Engine, State, Frame
from .contracts import eval_clause, resolve_exc, Contract
from . import loader


def _from_json(x):
    if isinstance(x, dict):
        if '__bytes__' in x:
            return bytes.fromhex(x['__bytes__'])
        if '__bytearray__' in x:
            return bytearray.fromhex(x['__bytearray__'])
        if '__memoryview__' in x:
            return memoryview(bytes.fromhex(x['__memoryview__']))
        if '__int__' in x:
            return int(x['__int__'])
        return {k: _from_json(v) for k, v in x.items()}
    if isinstance(x, list):
        return [_from_json(v) for v in x]
    return x


class NotReplayable(Exception):
    pass


def build_native(w):
    """witness value -> real python object"""
    if isinstance(w, dict) and '__class__' in w:
        q = w['__class__']
        modname, clsname = q.rsplit('.', 1)
        try:
            mod = importlib.import_module(modname)
            cls = getattr(mod, clsname)
        except Exception as ex:      # noqa
            raise NotReplayable('cannot import %s: %s' % (q, ex))
        obj = object.__new__(cls)
        for k, v in w.items():
            if k == '__class__':
                continue
            if k.startswith('g_'):
                raise NotReplayable('object has ghost state')
            object.__setattr__(obj, k, build_native(v))
        return obj
    if isinstance(w, dict):
        return {k: build_native(v) for k, v in w.items()}
    if isinstance(w, list):
        return [build_native(v) for v in w]
    if isinstance(w, tuple):
        return tuple(build_native(v) for v in w)
    if isinstance(w, str) and w.startswith('<') and w.endswith('>'):
        raise NotReplayable('opaque value in witness: ' + w)
    return w


def reflect(E, st, x, memo):
    """python object -> engine value in state st"""
    if isinstance(x, (bool, int, bytes, str, float)) or x is None:
        return x
    if id(x) in memo:
        return memo[id(x)]
    if isinstance(x, bytearray):
        r = st.alloc(HObj('bytearray', items=bytes(x)))
        memo[id(x)] = r
        return r
    if isinstance(x, memoryview):
        return SBytes(bytes_const(bytes(x)), 'memoryview')
    if isinstance(x, tuple):
        return tuple(reflect(E, st, v, memo) for v in x)
    if isinstance(x, list):
        r = st.alloc(HObj('list', items=[]))
        memo[id(x)] = r
        st.heap[r.oid].items = [reflect(E, st, v, memo) for v in x]
        return r
    if isinstance(x, dict):
        r = st.alloc(HObj('dict', items={}))
        memo[id(x)] = r
        st.heap[r.oid].items = {k: reflect(E, st, v, memo) for k, v in x.items()}
        return r
    cls = type(x)
    q = cls.__module__ + '.' + cls.__name__
    try:
        ci = loader.find_class(q)
    except Exception:      # noqa
        raise NotReplayable('cannot reflect object of class ' + q)
    r = st.alloc(HObj('obj', cls=ci))
    memo[id(x)] = r
    for k, v in getattr(x, '__dict__', {}).items():
        st.heap[r.oid].fields[k] = reflect(E, st, v, memo)
    return r


def _const_value(t):
    """python value of a constant z3 term (int, bool, byte string), or raise KeyError"""
    t = z3.simplify(t)
    if z3.is_int_value(t):
        return t.as_long()
    if z3.is_true(t):
        return True
    if z3.is_false(t):
        return False
    if z3.is_seq(t):
        out = bytearray()

        def walk(x):
            k = x.decl().kind() if z3.is_app(x) else None
            if k == z3.Z3_OP_SEQ_EMPTY:
                return
            if k == z3.Z3_OP_SEQ_UNIT and z3.is_bv_value(x.arg(0)):
                out.append(x.arg(0).as_long())
                return
            if k == z3.Z3_OP_SEQ_CONCAT:
                for y in x.children():
                    walk(y)
                return
            raise KeyError('not a constant sequence')
        walk(t)
        return bytes(out)
    raise KeyError('not a constant')


def _native_table():
    """executable interpretations of uninterpreted spec primitives, used ONLY to evaluate a clause on concrete states during a native
    replay (never in a proof): spec modules may define NATIVE = {'name': python function}"""
    import importlib
    import pkgutil
    import math
    # the engine's own uninterpreted symbols (definitions of the notations they stand for)
    tab = {'be': lambda b: int.from_bytes(b, 'big'), 'le': lambda b: int.from_bytes(b, 'little'),
           'i2osp': lambda x, n: x.to_bytes(n, 'big'), 'i2le': lambda x, n: x.to_bytes(n, 'little'),
           'pow2': lambda n: 2 ** n if 0 <= n <= 1 << 20 else (_ for _ in ()).throw(ValueError()),
           'ipow': lambda b, e: b ** e if 0 <= e <= 1 << 16 else (_ for _ in ()).throw(ValueError()),
           'modpow': lambda b, e, m: pow(b, e, m), 'bitlen': lambda x: x.bit_length(), 'gcd': lambda a, b: math.gcd(a, b),
           'modinv': lambda a, m: pow(a, -1, m), 'rev': lambda b: b[::-1], 'rep': lambda b, n: b * n if n <= 1 << 20 else (_ for _ in ()).throw(ValueError()),
           'lstrip0': lambda b: b.lstrip(b'\x00'), 'bitand': lambda a, b: a & b, 'bitor': lambda a, b: a | b, 'bitxor': lambda a, b: a ^ b,
           'bitop_BitAnd': lambda a, b: a & b, 'bitop_BitOr': lambda a, b: a | b, 'bitop_BitXor': lambda a, b: a ^ b}
    try:
        import spec
        for m in pkgutil.iter_modules(spec.__path__):
            try:
                mod = importlib.import_module('spec.' + m.name)
            except Exception:      # noqa
                continue
            for k, fn in (getattr(mod, 'NATIVE', None) or {}).items():
                tab['%s.%s' % (m.name, k)] = fn
    except Exception:      # noqa
        pass
    return tab


_NATIVE = None


def _fold_natives(g):
    """replace applications of uninterpreted spec primitives to constant arguments by their native value, to a fixed point"""
    global _NATIVE
    if _NATIVE is None:
        _NATIVE = _native_table()
    if not _NATIVE:
        return g
    for _ in range(50):
        subs = []
        seen = set()
        todo = [g]
        while todo:
            x = todo.pop()
            if x.get_id() in seen or not z3.is_app(x):
                continue
            seen.add(x.get_id())
            if x.decl().kind() == z3.Z3_OP_UNINTERPRETED and x.num_args() > 0 and x.decl().name() in _NATIVE:
                try:
                    args = [_const_value(a) for a in x.children()]
                except KeyError:
                    todo.extend(x.children())
                    continue
                try:
                    v = _NATIVE[x.decl().name()](*args)
                except Exception:      # noqa  (outside the primitive's domain: leave it uninterpreted)
                    continue
                if isinstance(v, bool):
                    subs.append((x, z3.BoolVal(v)))
                elif isinstance(v, int):
                    subs.append((x, z3.IntVal(v)))
                elif isinstance(v, (bytes, bytearray)):
                    subs.append((x, bytes_const(bytes(v))))
                continue
            todo.extend(x.children())
        if not subs:
            return g
        g = z3.simplify(z3.substitute(g, *subs))
    return g


def _concrete_bool(g):
    """the clause evaluated on concrete pre/post states must fold to a truth value; otherwise (uninterpreted primitive, symbol
    that has no executable definition) the replay cannot decide"""
    if isinstance(g, bool):
        return g
    g = z3.simplify(g)
    if not (z3.is_true(g) or z3.is_false(g)):
        g = _fold_natives(g)
    if z3.is_true(g):
        return True
    if z3.is_false(g):
        return False
    s = z3.Solver()
    s.set('timeout', 5000)
    s.add(g)
    r1 = s.check()
    s2 = z3.Solver()
    s2.set('timeout', 5000)
    s2.add(z3.Not(g))
    r2 = s2.check()
    if r1 == z3.unsat and r2 != z3.unsat:
        return False
    if r2 == z3.unsat and r1 != z3.unsat:
        return True
    raise NotReplayable('the clause does not evaluate to a truth value on the concrete states (uninterpreted symbol)')


def replay_violation(reg, c, d):
    """d: result dict with 'witness'. sets d['replayed'] (bool) and d['replay'] (description).  Spec functions are evaluated REVEALED
    (with their executable definitions) here, whatever the proof kept opaque."""
    saved = reg.opaque_now
    reg.opaque_now = set()
    try:
        return _replay_violation(reg, c, d)
    finally:
        reg.opaque_now = saved


def _replay_violation(reg, c, d):
    """d: result dict with 'witness'. sets d['replayed'] (bool) and d['replay'] (description)."""
    w = d.get('witness')
    if not w:
        d['replayed'] = False
        return
    if c.replay is not None:
        ok, desc = c.replay(_from_json(w), d)
        d['replayed'] = bool(ok)
        d['replay'] = desc
        return
    if d['kind'] not in ('raises_only', 'raises_iff', 'ensures', 'on_raise'):
        # inner obligations (call-site preconditions, loop invariants, lemmas, frames) are not observable from outside
        raise NotReplayable('obligation kind %s concerns an inner state' % d['kind'])
    w = _from_json(w)
    fi = loader.find_function(c.target)
    a = fi.node.args
    pnames = [x.arg for x in a.posonlyargs + a.args] + [x.arg for x in a.kwonlyargs]
    if a.vararg or a.kwarg:
        raise NotReplayable('varargs')
    native_args = {nm: build_native(w[nm]) for nm in pnames}
    # locate the real callable
    mod = importlib.import_module(fi.module.name)
    if fi.cls is not None:
        fn = getattr(getattr(mod, fi.cls.name), fi.name)
        if fi.kind == 'staticmethod':
            pass
        elif isinstance(fn, property):
            fn = fn.fget
    else:
        fn = getattr(mod, fi.name)
    E = Engine(reg, {})
    pre = State()
    memo = {}
    env0 = {nm: reflect(E, pre, copy.deepcopy(native_args[nm]) if not isinstance(native_args[nm], (int, bytes, str, type(None), memoryview)) else native_args[nm], {}) for nm in pnames}
    # reflect twice: `pre` is built from a deep copy taken before the call
    pre.frames.append(Frame(dict(env0), fi.module, fi, fi.cls))
    raised = None
    result = None
    try:
        result = fn(**native_args)
    except Exception as ex:      # noqa
        raised = ex
    post = State()
    post.next_oid = 100000
    env1 = {nm: reflect(E, post, native_args[nm], memo) for nm in pnames}
    post.frames.append(Frame(dict(env1), fi.module, fi, fi.cls))
    post.snap = pre
    desc = {'call': c.target, 'args': {k: repr(v)[:200] for k, v in w.items()},
            'native_outcome': ('raise ' + type(raised).__name__ + ': ' + str(raised)[:100]) if raised is not None else 'return ' + repr(result)[:200]}
    kind = d['kind']
    confirmed = False
    if kind == 'raises_only':
        if raised is not None:
            allowed = False
            for en in c.raises:
                pc = resolve_exc(E, en, fi.module)
                if isinstance(pc, PyClassV) and isinstance(raised, pc.py):
                    allowed = True
                elif not isinstance(pc, PyClassV) and type(raised).__name__ == pc.info.name:
                    allowed = True
            confirmed = not allowed
    elif kind == 'raises_iff':
        en = d['id'].split('.raises_iff.')[1].rsplit('.', 1)[0]
        spec = c.raises[en]
        cond = spec[1] if isinstance(spec, tuple) else spec
        pre2 = pre.fork()
        pre2.snap = pre
        g = _concrete_bool(eval_clause(E, cond, pre2))
        pcv = resolve_exc(E, en, fi.module)
        did = raised is not None and isinstance(pcv, PyClassV) and isinstance(raised, pcv.py)
        confirmed = (did != g)
    elif kind in ('ensures', 'on_raise'):
        if (kind == 'ensures') == (raised is None):
            post.frame.env['result'] = reflect(E, post, result, memo)
            cl = d['clause']
            confirmed = not _concrete_bool(eval_clause(E, cl, post))
    d['replayed'] = bool(confirmed)
    d['replay'] = desc
