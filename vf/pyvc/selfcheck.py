"""CPython cross-check of the engine's semantic models (DESIGN.md 2.3 "Soundness guard for the encoder itself").
For every snippet of spec/_selfcheck.py and random/boundary inputs: run natively; run symbolically with fully symbolic
parameters constrained to the same values; exactly one outcome must be feasible and it must agree with CPython (value or
exception type).  A disagreement is an engine defect."""
import importlib
import inspect
import os
import random
import sys
import z3

from .values import *      # noqa
from .interp import Engine, State, Frame
from .verify import concretize
from . import loader


def _sym(E, st, v, name):
    if isinstance(v, bool):
        s = E.fresh_bool(name)
        st.assume(s.t == v)
        return s
    if isinstance(v, int):
        s = E.fresh_int(name)
        st.assume(s.t == v)
        return s
    if isinstance(v, bytes):
        s = E.fresh_bytes(name)
        st.assume(s.t == bytes_const(v))
        return s
    raise TypeError(v)


def _gen(rnd, kind):
    if kind == 'b':
        return bytes(rnd.randrange(256) for _ in range(rnd.choice([0, 1, 2, 3, 5, 8, 16, 17])))
    if kind == 'byte':
        return rnd.randrange(256)
    if kind == 'small':
        return rnd.choice([-9, -3, -1, 0, 1, 2, 3, 7, 8, 16, 17, 255, 256])
    if kind == 'pos':
        return rnd.choice([1, 2, 3, 7, 8, 16, 255])
    if kind == 'nat':
        return rnd.choice([0, 1, 2, 5, 127, 128, 255, 256, 65535, 65536, 2 ** 32 - 1, 2 ** 32, 2 ** 40 + 12345])
    return rnd.choice([-2 ** 70, -65537, -256, -129, -128, -1, 0, 1, 127, 128, 255, 256, 257, 65535, 2 ** 31, 2 ** 64 - 1, 2 ** 64, 2 ** 70 + 99,
                       rnd.randrange(-10 ** 6, 10 ** 6)])


SIGS = {'s_slice': ('b', 'small', 'small'), 's_index': ('b', 'small'), 's_neg_slice': ('b', 'small'), 's_floordiv': ('int', 'small'),
        's_divmod': ('int', 'small'), 's_and_mask': ('int',), 's_neg_mask': ('int',), 's_to_bytes': ('nat', 'small'), 's_from_bytes': ('b',),
        's_pack': ('nat', 'nat'), 's_unpack': ('b',), 's_find': ('b', 'byte'), 's_minmax': ('int', 'int', 'int'), 's_bytes_ctor': ('int',),
        's_mul_bytes': ('b', 'small'), 's_cmp_chain': ('int', 'int', 'int'), 's_len_arith': ('b', 'pos'), 's_ifexp': ('int', 'int'),
        's_try': ('b', 'small'), 's_while': ('nat',), 's_tuple_unpack': ('int', 'int'), 's_bool_ops': ('b',),
        's_int_conv': ('int',), 's_pow': ('small',), 's_bit_at': ('int', 'int')}


def _one(name, args):
    """one case: ('ok'|'bad'|'incomplete', detail)"""
    native = importlib.import_module('spec._selfcheck')
    mod = loader.load_module('spec._selfcheck')
    fi = mod.get_func(name)
    fn = getattr(native, name)
    try:
        want = ('val', fn(*args))
    except Exception as ex:      # noqa
        want = ('raise', type(ex).__name__)
    E = Engine(None, {'unroll_limit': 200})
    st = State()
    env = {}
    st.frames.append(Frame(env, mod, fi, None))
    for p, a in zip([x.arg for x in fi.node.args.args], args):
        env[p] = _sym(E, st, a, p)
    try:
        outs = E.run_body(fi, st)
    except Unsupported as ex:
        return 'bad', 'unsupported: %s' % ex

    # soundness: CPython's outcome must be POSSIBLE under the engine's semantics (else the engine excludes real behaviour:
    # unsound); completeness: it should also be FORCED (else some uninterpreted symbol is under-constrained: incomplete,
    # which costs proofs / yields spurious counter-models that the native replay refutes, but never a wrong proof)
    def eq(v, c):
        if isinstance(c, tuple):
            if not isinstance(v, tuple) or len(v) != len(c):
                return z3.BoolVal(False)
            return z3.And([eq(a, b) for a, b in zip(v, c)]) if c else z3.BoolVal(True)
        if isinstance(c, bool):
            return zbool(v) == c if isinstance(v, (bool, SBool)) else z3.BoolVal(False)
        if isinstance(c, int):
            return zint(v) == c if is_intlike(v) and not isinstance(v, (bool, SBool)) else z3.BoolVal(False)
        if isinstance(c, bytes):
            return zbytes(v) == bytes_const(c) if is_byteslike(v) else z3.BoolVal(False)
        return z3.BoolVal(v is c or v == c)
    possible = False
    forced = True
    for o in outs:
        sol = z3.Solver()
        sol.set('timeout', 20000)
        sol.add(*o[1].pc)
        if o[0] == 'raise':
            same = want[0] == 'raise' and o[2].name() == want[1]
            r = sol.check()
            if r == z3.unsat:
                continue
            if same:
                possible = True
            else:
                forced = False
        else:
            v = o[2] if o[0] == 'ret' else None
            if want[0] != 'val':
                if sol.check() != z3.unsat:
                    forced = False
                continue
            e = eq(v, want[1])
            sol.push()
            sol.add(e)
            if sol.check() != z3.unsat:
                possible = True
            sol.pop()
            sol.add(z3.Not(e))
            if sol.check() != z3.unsat:
                forced = False
    if not possible:
        return 'bad', 'UNSOUND: native outcome %r is excluded by the engine' % (want,)
    return ('ok', '') if forced else ('incomplete', '')


def _child(conn, name, args):
    try:
        conn.send(_one(name, args))
    except Exception as ex:      # noqa
        conn.send(('bad', 'checker error: %r' % ex))
    conn.close()


def run(n_per=25, seed=0, verbose=False, case_timeout=90, jobs=8):
    """every case runs in its own forked child: z3 does not always honour its time-out on long sequence terms, and a case the solver
    does not answer within case_timeout counts as incomplete (undecided), never as sound"""
    import multiprocessing as mp
    import time
    sys.path.insert(0, loader.VERIF_ROOT)
    importlib.import_module('spec._selfcheck')
    rnd = random.Random(seed)
    cases = [(name, [_gen(rnd, k) for k in kinds]) for name, kinds in SIGS.items() for _ in range(n_per)]
    ctx = mp.get_context('fork')
    bad, incomplete, total = [], [], 0
    running = []
    todo = list(cases)
    while todo or running:
        while todo and len(running) < jobs:
            name, args = todo.pop(0)
            a, b = ctx.Pipe(duplex=False)
            pr = ctx.Process(target=_child, args=(b, name, args))
            pr.start()
            b.close()
            running.append((pr, a, name, args, time.time()))
        time.sleep(0.05)
        for it in list(running):
            pr, a, name, args, t0 = it
            res = None
            if a.poll():
                try:
                    res = a.recv()
                except EOFError:
                    res = ('bad', 'checker error: child died')
            elif not pr.is_alive():
                res = ('bad', 'checker error: child died')
            elif time.time() - t0 > case_timeout:
                pr.kill()
                res = ('incomplete', 'solver did not answer in %d s' % case_timeout)
            if res is None:
                continue
            pr.join(1)
            running.remove(it)
            total += 1
            if verbose:
                print('case', name, repr(args)[:160], res, flush=True)
            if res[0] == 'bad':
                bad.append((name, args, res[1]))
            elif res[0] == 'incomplete':
                incomplete.append((name, args))
    return total, bad, incomplete


if __name__ == '__main__':
    t, bad, inc = run(int(os.environ.get('N', '25')), int(os.environ.get('VERIF_SEED', '0') or 0), verbose='-v' in sys.argv)
    print('cross-check: %d cases, %d unsound/unsupported, %d incomplete (under-constrained symbols: %s)' % (t, len(bad), len(inc), sorted({n for n, _ in inc})))
    for b in bad[:40]:
        print('  ', b)
    sys.exit(3 if bad else 0)
