"""Back ends: z3 (primary) and cvc5 on z3's `unknown`s (DESIGN.md 2.7)."""
import os
import shutil
import subprocess
import re
import subprocess
import tempfile
import time
import z3

DEFAULT_TIMEOUT_MS = int(os.environ.get('VERIF_QUERY_TIMEOUT_MS', '30000'))
CVC5 = '/usr/bin/cvc5'


def _z3_check(pc, goal, timeout_ms, seed=0):
    s = z3.Solver()
    s.set('timeout', timeout_ms)
    if seed:
        s.set('random_seed', seed)
    s.add(*pc)
    s.add(z3.Not(goal) if not isinstance(goal, bool) else z3.BoolVal(not goal))
    t0 = time.time()
    r = s.check()
    return r, time.time() - t0, s


def _symbols(t, acc=None, seen=None):
    acc = set() if acc is None else acc
    seen = set() if seen is None else seen
    todo = [t]
    while todo:
        x = todo.pop()
        if x.get_id() in seen:
            continue
        seen.add(x.get_id())
        if z3.is_app(x):
            d = x.decl()
            if d.kind() == z3.Z3_OP_UNINTERPRETED:
                acc.add(d.name())
            todo.extend(x.children())
        elif z3.is_quantifier(x):
            todo.append(x.body())
    return acc


_SYM_CACHE = {}


def _symbols_cached(t):
    k = t.get_id()
    v = _SYM_CACHE.get(k)
    if v is None:
        v = _symbols(t)
        if len(_SYM_CACHE) > 200000:
            _SYM_CACHE.clear()
        _SYM_CACHE[k] = v
    return v


def check_valid(pc, goal, timeout_ms=None, use_cvc5=True, seed=0, facts=None):
    """is  /\\ pc => goal  valid?  returns dict(status='unsat'|'sat'|'unknown', backend, seconds, model).
    Ladder: z3 on the full hypothesis set; on `unknown`, z3 on weakened hypothesis sets (dropping hypotheses is
    sound for validity: an `unsat` there is still a proof; a `sat` there is NOT a counterexample and is ignored);
    then cvc5 on the full set."""
    timeout_ms = timeout_ms or DEFAULT_TIMEOUT_MS
    if isinstance(goal, bool):
        goal = z3.BoolVal(goal)
    # first attempt on the full hypothesis set; the weakened sets are only built when that does not decide
    r0, dt0, s0 = _z3_check(pc, goal, min(2500, timeout_ms), seed)
    if r0 == z3.unsat:
        return {'status': 'unsat', 'backend': 'z3', 'seconds': dt0, 'model': None}
    if r0 == z3.sat:
        return {'status': 'sat', 'backend': 'z3', 'seconds': dt0, 'model': s0.model()}
    variants = [('z3', pc)]
    if facts:
        sub = [c for c in pc if c.get_id() not in facts]
        if len(sub) != len(pc):
            variants.append(('z3/no-uf-facts', sub))
    gs = _symbols(goal)
    sub = [c for c in pc if _symbols_cached(c) <= gs]
    if len(sub) != len(pc):
        variants.append(('z3/goal-symbols-only', sub))
    for k in (8, 24):
        # only the most recent hypotheses (e.g. the exit lemmas just proved): sound like every weakened variant
        if len(pc) > k:
            variants.append(('z3/tail%d' % k, pc[-k:]))
    total = dt0
    reason = s0.reason_unknown()
    full_smt2 = None
    first_round = True
    # short attempts on every variant first, then longer ones: cheap proofs stay cheap, and no verdict depends
    # on one long query surviving a loaded machine
    for budget in (min(2500, timeout_ms), max(2500, timeout_ms // 3)):
        for name, hyps in variants:
            if first_round and name == 'z3':
                continue          # already tried above with the short budget
            r, dt, s = _z3_check(hyps, goal, budget, seed)
            total += dt
            if r == z3.unsat:
                return {'status': 'unsat', 'backend': name, 'seconds': total, 'model': None}
            if name == 'z3':
                if r == z3.sat:
                    return {'status': 'sat', 'backend': 'z3', 'seconds': total, 'model': s.model()}
                reason = s.reason_unknown()
                if full_smt2 is None:
                    full_smt2 = s.to_smt2()
        first_round = False
    if use_cvc5 and os.path.exists(CVC5):
        r3 = run_cvc5(full_smt2, timeout_ms)
        total += r3['seconds']
        r3['seconds'] = total
        if r3['status'] != 'unknown':
            return r3
    r, dt, s = _z3_check(pc, goal, timeout_ms, seed + 7)
    total += dt
    if r == z3.unsat:
        return {'status': 'unsat', 'backend': 'z3/seed2', 'seconds': total, 'model': None}
    if r == z3.sat:
        return {'status': 'sat', 'backend': 'z3', 'seconds': total, 'model': s.model()}
    # last resort: a small portfolio of the z3 command-line solver on the full query with different seeds (the sequence solver's run
    # time varies several-fold with the seed; three seeds side by side make the verdict of a slow-but-provable obligation independent of
    # the one seed the harness happens to pass).  Only `unsat` is taken from it (a proof); anything else leaves the obligation undecided.
    if full_smt2 is not None and os.environ.get('VERIF_PORTFOLIO', '1') != '0':
        t0 = time.time()
        if _portfolio_unsat(full_smt2, max(20, int(2 * timeout_ms / 1000)), seed):
            return {'status': 'unsat', 'backend': 'z3/portfolio', 'seconds': total + time.time() - t0, 'model': None}
        total += time.time() - t0
    return {'status': 'unknown', 'backend': 'z3', 'seconds': total, 'model': None, 'reason': reason}


Z3_CLI = shutil.which('z3-new') or shutil.which('z3')


def _portfolio_unsat(smt2, seconds, seed):
    if not Z3_CLI:
        return False
    import tempfile
    fd, path = tempfile.mkstemp(suffix='.smt2', prefix='pyvc_')
    procs = []
    try:
        with os.fdopen(fd, 'w') as f:
            f.write(smt2)
            if '(check-sat)' not in smt2:
                f.write('\n(check-sat)\n')
        for k in (seed + 11, seed + 23, seed + 37):
            procs.append(subprocess.Popen([Z3_CLI, '-T:%d' % seconds, 'smt.random_seed=%d' % k, 'sat.random_seed=%d' % k, path],
                                          stdout=subprocess.PIPE, stderr=subprocess.DEVNULL, text=True))
        deadline = time.time() + seconds + 5
        pending = list(procs)
        while pending and time.time() < deadline:
            for pr in list(pending):
                if pr.poll() is not None:
                    pending.remove(pr)
                    out = (pr.stdout.read() or '').strip().split('\n')[0].strip()
                    if out == 'unsat':
                        return True
            time.sleep(0.1)
        return False
    finally:
        for pr in procs:
            if pr.poll() is None:
                pr.kill()
        try:
            os.unlink(path)
        except OSError:
            pass


def _to_cvc5(smt2):
    s = smt2
    s = s.replace('ubv_to_int', 'bv2nat').replace('bv2int', 'bv2nat').replace('int_to_bv', 'int2bv')
    s = re.sub(r'\(declare-fun ([^ ]+) \(\) \(Seq \(_ BitVec 8\)\)\)', r'(declare-fun \1 () (Seq (_ BitVec 8)))', s)
    s = s.replace('(as seq.empty (Seq (_ BitVec 8)))', '(as seq.empty (Seq (_ BitVec 8)))')
    s = s.replace('seq.last_indexof', 'seq.last_indexof')   # not supported by cvc5 1.0: query stays unknown
    return '(set-logic ALL)\n' + s


def run_cvc5(smt2, timeout_ms):
    t0 = time.time()
    txt = _to_cvc5(smt2)
    if 'seq.last_indexof' in txt or 'seq.foldl' in txt:
        return {'status': 'unknown', 'backend': 'cvc5', 'seconds': 0.0, 'model': None, 'reason': 'operator not supported by cvc5'}
    with tempfile.NamedTemporaryFile('w', suffix='.smt2', delete=False) as f:
        f.write(txt)
        path = f.name
    try:
        p = subprocess.run([CVC5, '--strings-exp', '--tlimit=%d' % timeout_ms, path], capture_output=True, text=True,
                           timeout=timeout_ms / 1000 + 10)
        out = p.stdout.strip().split('\n')[0] if p.stdout.strip() else ''
    except subprocess.TimeoutExpired:
        out = 'timeout'
    finally:
        os.unlink(path)
    dt = time.time() - t0
    if out == 'unsat':
        return {'status': 'unsat', 'backend': 'cvc5', 'seconds': dt, 'model': None}
    if out == 'sat':
        return {'status': 'sat', 'backend': 'cvc5', 'seconds': dt, 'model': None}
    return {'status': 'unknown', 'backend': 'cvc5', 'seconds': dt, 'model': None, 'reason': out[:200]}


def satisfiable(pc, timeout_ms=10000):
    s = z3.Solver()
    s.set('timeout', timeout_ms)
    s.add(*pc)
    r = s.check()
    return str(r), (s.model() if r == z3.sat else None)
