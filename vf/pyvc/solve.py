"""Back ends: z3 (primary) and cvc5 on z3's `unknown`s (DESIGN.md 2.7)."""
import os
import re
import subprocess
import tempfile
import time
import z3

DEFAULT_TIMEOUT_MS = int(os.environ.get('VERIF_QUERY_TIMEOUT_MS', '30000'))
CVC5 = '/usr/bin/cvc5'


def check_valid(pc, goal, timeout_ms=None, use_cvc5=True, seed=0):
    """is  /\\ pc => goal  valid?  returns dict(status='unsat'|'sat'|'unknown', backend, seconds, model)"""
    timeout_ms = timeout_ms or DEFAULT_TIMEOUT_MS
    s = z3.Solver()
    s.set('timeout', timeout_ms)
    if seed:
        s.set('random_seed', seed)
    s.add(*pc)
    s.add(z3.Not(goal) if not isinstance(goal, bool) else z3.BoolVal(not goal))
    t0 = time.time()
    r = s.check()
    dt = time.time() - t0
    if r == z3.unsat:
        return {'status': 'unsat', 'backend': 'z3', 'seconds': dt, 'model': None}
    if r == z3.sat:
        return {'status': 'sat', 'backend': 'z3', 'seconds': dt, 'model': s.model()}
    reason = s.reason_unknown()
    if use_cvc5 and os.path.exists(CVC5):
        r2 = run_cvc5(s.to_smt2(), timeout_ms)
        r2['seconds'] += dt
        if r2['status'] != 'unknown':
            return r2
    return {'status': 'unknown', 'backend': 'z3', 'seconds': dt, 'model': None, 'reason': reason}


def _to_cvc5(smt2):
    s = smt2
    s = s.replace('ubv_to_int', 'bv2nat').replace('bv2int', 'bv2nat').replace('int_to_bv', 'int2bv')
    s = re.sub(r'\(declare-fun ([^ ]+) \(\) \(Seq \(_ BitVec 8\)\)\)', r'(declare-fun \1 () (Seq (_ BitVec 8)))', s)
    s = s.replace('(as seq.empty (Seq (_ BitVec 8)))', '(as seq.empty (Seq (_ BitVec 8)))')
    s = s.replace('seq.last_indexof', 'seq.last_indexof')   # not supported by cvc5 1.0: query stays unknown
    return '(set-logic ALL)\n' + s


def run_cvc5(smt2, timeout_ms):
    t0 = time.time()
    txt = _to_cvc5(smt2)
    if 'seq.last_indexof' in txt or 'seq.foldl' in txt:
        return {'status': 'unknown', 'backend': 'cvc5', 'seconds': 0.0, 'model': None, 'reason': 'operator not supported by cvc5'}
    with tempfile.NamedTemporaryFile('w', suffix='.smt2', delete=False) as f:
        f.write(txt)
        path = f.name
    try:
        p = subprocess.run([CVC5, '--strings-exp', '--tlimit=%d' % timeout_ms, path], capture_output=True, text=True,
                           timeout=timeout_ms / 1000 + 10)
        out = p.stdout.strip().split('\n')[0] if p.stdout.strip() else ''
    except subprocess.TimeoutExpired:
        out = 'timeout'
    finally:
        os.unlink(path)
    dt = time.time() - t0
    if out == 'unsat':
        return {'status': 'unsat', 'backend': 'cvc5', 'seconds': dt, 'model': None}
    if out == 'sat':
        return {'status': 'sat', 'backend': 'cvc5', 'seconds': dt, 'model': None}
    return {'status': 'unknown', 'backend': 'cvc5', 'seconds': dt, 'model': None, 'reason': out[:200]}


def satisfiable(pc, timeout_ms=10000):
    s = z3.Solver()
    s.set('timeout', timeout_ms)
    s.add(*pc)
    r = s.check()
    return str(r), (s.model() if r == z3.sat else None)
