"""Value model of PYVC (see DESIGN.md 2.3).

Concrete Python values (int, bool, bytes, str, None, tuple, float) are kept as
themselves and folded with CPython; symbolic values are thin wrappers over z3
terms.  Mutable things (objects, lists, dicts, bytearrays) live in the state's
heap and are designated by Ref.
"""
import z3

BV8 = z3.BitVecSort(8)
BYTES = z3.SeqSort(BV8)
INT = z3.IntSort()
ANY = z3.DeclareSort('PyAny')          # opaque Python objects


class Unsupported(Exception):
    """Construct outside the supported subset -> the obligation is undecided."""


class SV:
    __slots__ = ('t',)

    def __init__(self, t):
        self.t = t

    def __repr__(self):
        return '%s(%s)' % (type(self).__name__, self.t)


class SInt(SV):
    pass


class SBool(SV):
    pass


class SBytes(SV):
    """immutable byte sequence; `kind` remembers bytes/bytearray/memoryview for isinstance"""
    __slots__ = ('t', 'kind')

    def __init__(self, t, kind='bytes'):
        self.t = t
        self.kind = kind


class SOpaque(SV):
    """an unknown Python object (not None, not a number, not a byte string, not a str)"""
    __slots__ = ('t', 'label')

    def __init__(self, t, label='any'):
        self.t = t
        self.label = label


class SUnionIB(SOpaque):
    """a value that is EITHER an int (`iv`) OR a byte string (`bv`), decided by the symbolic selector `is_int`: an element of a
    decoded DER SEQUENCE.  Truth value and == are exact without forking; an operation that needs the Python type forks
    (Engine.resolve_union).  It is never None, a str or an object."""
    __slots__ = ('is_int', 'iv', 'bv')

    def __init__(self, t, is_int, iv, bv):
        SOpaque.__init__(self, t, 'union:int|bytes')
        self.is_int, self.iv, self.bv = is_int, iv, bv


class SStr:
    """a string that is not equal to any string constant of interest (e.g. formatted text)"""
    __slots__ = ('label',)

    def __init__(self, label='<str>'):
        self.label = label

    def __repr__(self):
        return 'SStr(%s)' % self.label


class SStrL1(SStr):
    """a str all of whose code points are < 256, given by its latin-1 encoding `l1` (z3 byte sequence): the result of
    bytes.decode('latin-1').  Equality with string constants and with other such strings is exact."""
    __slots__ = ('l1',)

    def __init__(self, l1):
        SStr.__init__(self, '<latin-1>')
        self.l1 = l1


class Ref:
    __slots__ = ('oid',)

    def __init__(self, oid):
        self.oid = oid

    def __repr__(self):
        return 'Ref(%d)' % self.oid

    def __eq__(self, o):
        return isinstance(o, Ref) and o.oid == self.oid

    def __hash__(self):
        return hash(('ref', self.oid))


class LazyUnion:
    """a field of a symbolic entry object whose type is a union / optional: resolved (by forking) on first read.
    alts: list of (type text, value | ABSENT)"""
    __slots__ = ('alts', 'name', 'sel')

    def __init__(self, alts, name, sel):
        self.alts = alts
        self.name = name
        self.sel = sel        # z3 Int: which alternative holds (sel == i); keeps unresolved reads guarded

    def __repr__(self):
        return 'LazyUnion(%s)' % ','.join(str(a[0]) for a in self.alts)


class _Absent:
    def __repr__(self):
        return '<absent>'


ABSENT = _Absent()


class FuncV:
    def __init__(self, info):
        self.info = info            # loader.FuncInfo

    def __repr__(self):
        return 'FuncV(%s)' % self.info.qualname


class BoundV:
    def __init__(self, selfv, func):
        self.selfv = selfv
        self.func = func            # FuncV | BuiltinV

    def __repr__(self):
        return 'BoundV(%r,%r)' % (self.selfv, self.func)


class ClassV:
    def __init__(self, info):
        self.info = info            # loader.ClassInfo

    def __repr__(self):
        return 'ClassV(%s)' % self.info.qualname


class PyClassV:
    """a builtin Python class (exception classes, int, bytes, ...)"""

    def __init__(self, py):
        self.py = py

    def __repr__(self):
        return 'PyClassV(%s)' % self.py.__name__

    def __eq__(self, o):
        return isinstance(o, PyClassV) and o.py is self.py

    def __hash__(self):
        return hash(self.py)


class BuiltinV:
    def __init__(self, name, fn):
        self.name = name
        self.fn = fn                # fn(engine, st, args, kwargs) -> outcomes

    def __repr__(self):
        return 'BuiltinV(%s)' % self.name


class ModuleV:
    def __init__(self, name, info=None):
        self.name = name
        self.info = info            # loader.ModuleInfo for repo modules

    def __repr__(self):
        return 'ModuleV(%s)' % self.name


class StateGlobal:
    """registry override for a module-level OBJECT of the tree (e.g. `_curves = _Curves()`): the object lives in the heap of
    each state and is created on first use by `build(engine, state) -> Ref` (remembered in st.ghost['globals'])"""

    def __init__(self, key, build):
        self.key = key
        self.build = build

    def get(self, E, st):
        g = st.ghost.get('globals', {})
        if self.key not in g:
            ref = self.build(E, st)
            g = dict(st.ghost.get('globals', {}))
            g[self.key] = ref
            st.ghost['globals'] = g
        return g[self.key]


class ExcV:
    """an exception instance"""

    def __init__(self, cls, args=()):
        self.cls = cls              # PyClassV | ClassV
        self.args = tuple(args)

    def name(self):
        return self.cls.py.__name__ if isinstance(self.cls, PyClassV) else self.cls.info.name

    def __repr__(self):
        return 'ExcV(%s)' % self.name()


class HObj:
    """heap cell. kind: 'obj' (fields), 'list' (items), 'dict' (items: dict), 'bytearray' (data: z3 seq / bytes)"""
    __slots__ = ('kind', 'cls', 'fields', 'items', 'ghost_id')

    def __init__(self, kind, cls=None, fields=None, items=None):
        self.kind = kind
        self.cls = cls
        self.fields = fields if fields is not None else {}
        self.items = items

    def copy(self):
        h = HObj(self.kind, self.cls, dict(self.fields),
                 (list(self.items) if isinstance(self.items, list) else
                  dict(self.items) if isinstance(self.items, dict) else self.items))
        gid = getattr(self, 'ghost_id', None)
        if gid is not None:
            h.ghost_id = gid
        return h


# ---------------------------------------------------------------- lifting helpers

def is_sym(v):
    return isinstance(v, SV)


def is_intlike(v):
    return isinstance(v, (SInt, SBool)) or (isinstance(v, (int, bool)))


def is_byteslike(v):
    return isinstance(v, (SBytes, bytes, bytearray))


def bytes_const(b):
    if len(b) == 0:
        return z3.Empty(BYTES)
    units = [z3.Unit(z3.BitVecVal(x, 8)) for x in b]
    return units[0] if len(units) == 1 else z3.Concat(*units)


def zint(v):
    if isinstance(v, SInt):
        return v.t
    if isinstance(v, SBool):
        return z3.If(v.t, z3.IntVal(1), z3.IntVal(0))
    if isinstance(v, bool):
        return z3.IntVal(1 if v else 0)
    if isinstance(v, int):
        return z3.IntVal(v)
    raise Unsupported('not an integer: %r' % (v,))


def zbytes(v):
    if isinstance(v, SBytes):
        return v.t
    if isinstance(v, (bytes, bytearray)):
        return bytes_const(bytes(v))
    raise Unsupported('not a byte string: %r' % (v,))


def zbool(v):
    if isinstance(v, SBool):
        return v.t
    if isinstance(v, bool):
        return z3.BoolVal(v)
    raise Unsupported('not a bool: %r' % (v,))


def mk_int(t):
    """wrap a z3 Int term, folding constants back to Python ints"""
    if isinstance(t, int):
        return t
    t = z3.simplify(t) if z3.is_app(t) and t.num_args() and all(z3.is_int_value(a) for a in t.children()) else t
    if z3.is_int_value(t):
        return t.as_long()
    return SInt(t)


def mk_bool(t):
    if isinstance(t, bool):
        return t
    if z3.is_true(t):
        return True
    if z3.is_false(t):
        return False
    return SBool(t)


def mk_bytes(t, kind='bytes'):
    return SBytes(t, kind)


def seq_to_py(t):
    """if the z3 sequence term is a constant byte string return it as bytes, else None"""
    t = z3.simplify(t)
    out = []

    def walk(x):
        if z3.is_app(x):
            k = x.decl().kind()
            if k == z3.Z3_OP_SEQ_EMPTY:
                return True
            if k == z3.Z3_OP_SEQ_UNIT:
                a = x.arg(0)
                if z3.is_bv_value(a):
                    out.append(a.as_long())
                    return True
                return False
            if k == z3.Z3_OP_SEQ_CONCAT:
                return all(walk(c) for c in x.children())
        return False
    return bytes(out) if walk(t) else None
