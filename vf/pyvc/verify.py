"""Verification of one function of the current tree against its sidecar contract."""
import itertools
import os
import time
import traceback
import z3

from .values import *       # noqa
from .interp import Engine, State, Frame, exc, FuncV, ClassV, _EXC_CLASSES
from .contracts import (Contract, ClassContract, Registry, split_union, fresh_typed, fresh_object, object_alternatives,
                        eval_clause, resolve_exc, _as_z3, assume_instances)
from . import loader, solve


def concretize(model, v, st, depth=0):
    """python value of a symbolic value under a model (for replay files)"""
    if isinstance(v, SInt):
        r = model.eval(v.t, model_completion=True)
        return r.as_long() if z3.is_int_value(r) else str(r)
    if isinstance(v, SBool):
        return z3.is_true(model.eval(v.t, model_completion=True))
    if isinstance(v, SBytes):
        r = model.eval(v.t, model_completion=True)
        b = seq_to_py(r)
        if b is None:
            return str(r)
        return memoryview(b) if v.kind == 'memoryview' else bytearray(b) if v.kind == 'bytearray' else b
    if isinstance(v, SOpaque):
        return '<opaque %s>' % model.eval(v.t, model_completion=True)
    if isinstance(v, SStr):
        return v.label
    if isinstance(v, tuple):
        return tuple(concretize(model, x, st, depth + 1) for x in v)
    if isinstance(v, Ref):
        if depth > 4:
            return '<ref>'
        h = st.heap.get(v.oid)
        if h is None:
            return '<dangling>'
        if h.kind == 'obj':
            d = {'__class__': h.cls.qualname if h.cls else getattr(h, 'ghost_id', 'object')}
            for k, x in h.fields.items():
                if isinstance(x, LazyUnion):
                    x = x.alts[0][1]
                    if x is ABSENT:
                        continue
                d[k] = concretize(model, x, st, depth + 1)
            return d
        if h.kind == 'list':
            return [concretize(model, x, st, depth + 1) for x in h.items]
        if h.kind == 'dict':
            return {k: concretize(model, x, st, depth + 1) for k, x in h.items.items()}
        if h.kind == 'bytearray':
            r = concretize(model, h.items, st, depth + 1)
            return bytearray(r) if isinstance(r, bytes) else r
    if isinstance(v, (int, bool, bytes, str, float)) or v is None:
        return v
    return repr(v)


def jsonable(x):
    if isinstance(x, bytearray):
        return {'__bytearray__': bytes(x).hex()}
    if isinstance(x, memoryview):
        return {'__memoryview__': bytes(x).hex()}
    if isinstance(x, bytes):
        return {'__bytes__': x.hex()}
    if isinstance(x, dict):
        return {str(k): jsonable(v) for k, v in x.items()}
    if isinstance(x, (list, tuple)):
        return [jsonable(v) for v in x]
    if isinstance(x, (int, bool, str, float)) or x is None:
        if isinstance(x, int) and abs(x) > 2 ** 62:
            return {'__int__': str(x)}
        return x
    return repr(x)


class Result:
    def __init__(self, oid, kind, clause, status, backend='', seconds=0.0, detail='', witness=None, path=None, size=0):
        self.oid = oid
        self.kind = kind
        self.clause = clause
        self.status = status          # discharged | violated | undecided
        self.backend = backend
        self.seconds = seconds
        self.detail = detail
        self.witness = witness
        self.path = path
        self.size = size
        self.replayed = None
        self.replay = None
        self.needs_reveal = False

    def as_dict(self):
        return {'id': self.oid, 'kind': self.kind, 'clause': self.clause, 'status': self.status, 'backend': self.backend,
                'seconds': round(self.seconds, 3), 'detail': self.detail, 'witness': jsonable(self.witness), 'path': self.path,
                'replayed': self.replayed, 'replay': self.replay}


def _exc_name(ev):
    return ev.name()


def _match_raises(E, c, ev, module):
    """name of the raises-entry the exception instance falls under, or None"""
    for ename in c.raises:
        cls = resolve_exc(E, ename, module)
        if E.exc_matches(ev, cls, None):
            return ename
    return None


def verify_contract(reg, c, timeout_ms=None, seed=0, collect_paths=False, budget_s=None):
    """returns dict: function info + list of Result"""
    t_start = time.time()
    info = {'target': c.target, 'results': [], 'paths': 0, 'status': 'ok', 'assumed': c.assumed}
    results = info['results']
    short = c.target.replace('Crypto.', '')
    try:
        fi = loader.find_function(c.target)
    except KeyError as ex:
        info['status'] = 'undecided'
        info['reason'] = str(ex)
        results.append(Result(short + '.exists', 'structure', 'function under contract exists in the current tree', 'undecided', detail=str(ex)))
        return info
    info['source'] = fi.source_id()
    E = Engine(reg, dict(c.options, bv_width=c.bv_width))
    if c.loops:
        E.loop_specs[fi.qualname] = c.loops
    for q, ls in c.options.get('callee_loops', {}).items():
        E.loop_specs[q] = ls
    reg.force_inline = set(c.inline) | {c.target}
    reg.opaque_now = set(c.opaque)
    reg.active = c
    E.deadline = time.time() + float(budget_s or os.environ.get('VERIF_UNIT_BUDGET_S', '900'))
    a = fi.node.args
    pnames = [x.arg for x in a.posonlyargs + a.args] + [x.arg for x in a.kwonlyargs]
    if a.vararg:
        pnames.append(a.vararg.arg)
    if a.kwarg:
        pnames.append(a.kwarg.arg)
    ptypes = {}
    for nm in pnames:
        if nm in c.params:
            ptypes[nm] = c.params[nm]
        elif nm == 'self' and fi.cls is not None:
            ptypes[nm] = c.self_type or ('obj:' + fi.cls.qualname)
        else:
            info['status'] = 'undecided'
            info['reason'] = 'parameter %s of %s has no declared type in the contract (signature changed?)' % (nm, c.target)
            results.append(Result(short + '.signature', 'structure', 'contract parameters match the signature', 'undecided', detail=info['reason']))
            return info
    # alternatives per parameter
    alt_lists = []
    for nm in pnames:
        alts = []
        for t in split_union(ptypes[nm]):
            if isinstance(t, str) and t.startswith('obj:'):
                for oa in object_alternatives(E, t[4:]):
                    alts.append((t, oa))
            else:
                alts.append((t, None))
        alt_lists.append(alts)
    n_entry = 0
    n_sat_entry = 0
    try:
        for combo in itertools.product(*alt_lists):
            st = State()
            env = {}
            st.frames.append(Frame(env, fi.module, fi, fi.cls))
            if c.options.get('spec_target'):
                st.frame.spec_mode = True       # the target is itself a spec function (a lemma): lazy `implies`, total spec forms
            desc = []
            for nm, (t, oa) in zip(pnames, combo):
                if isinstance(t, str) and t.startswith('obj:'):
                    env[nm] = fresh_object(E, st, t[4:], nm, oa)
                    if oa:
                        desc.append('%s:{%s}' % (nm, ','.join('%s=%s' % kv for kv in oa.items())))
                elif a.vararg and nm == a.vararg.arg:
                    env[nm] = fresh_typed(E, st, t, nm)
                else:
                    env[nm] = fresh_typed(E, st, t, nm)
                    if len(split_union(ptypes[nm])) > 1:
                        desc.append('%s:%s' % (nm, t if isinstance(t, str) else (t[2] if len(t) > 2 else repr(t[1]))))
            # object invariants of parameters + requires
            for nm in pnames:
                if isinstance(env[nm], Ref) and c.options.get('assume_valid', True):
                    st.assume(_as_z3(eval_clause(E, 'valid(%s)' % nm, st)))
            for cl in c.requires:
                st.assume(_as_z3(eval_clause(E, cl, st)))
            assume_instances(E, c, st, 'entry')
            n_entry += 1
            r, _m = solve.satisfiable(st.pc)
            if r == 'unsat':
                continue
            n_sat_entry += 1
            st.snap = st.fork()
            st.snap.snap = None
            entry_oid = st.next_oid
            st.writes = []
            E.obligations = []
            E.truncated = []
            outs = E.run_body(fi, st)
            info['paths'] += len(outs)
            for why in sorted(set(E.truncated)):
                results.append(Result(short + '.explore', 'structure', 'every path of the function is explored', 'undecided', detail=why))
            _collect(E, c, fi, outs, results, short, ','.join(desc), env, entry_oid, timeout_ms, seed, pnames)
    except Unsupported as ex:
        info['status'] = 'undecided'
        info['reason'] = 'outside the supported subset: %s' % ex
        results.append(Result(short + '.translate', 'structure', 'function is within the PYVC subset', 'undecided', detail=str(ex)))
    except Exception as ex:      # engine defect: never a verdict about /repo
        info['status'] = 'error'
        info['reason'] = 'engine exception: %s\n%s' % (ex, traceback.format_exc()[-1500:])
        results.append(Result(short + '.engine', 'structure', 'engine ran', 'undecided', detail=info['reason']))
    finally:
        reg.force_inline = set()
        reg.opaque_now = set()
        reg.active = None
    # vacuity guards
    if info['status'] == 'ok':
        if n_sat_entry == 0:
            info['status'] = 'error'
            info['reason'] = 'vacuous: no satisfiable entry state (requires/valid contradictory)'
            results.append(Result(short + '.vacuity', 'vacuity', 'precondition satisfiable', 'undecided', detail=info['reason']))
        elif not results:
            info['status'] = 'error'
            info['reason'] = 'no obligation generated (vacuous contract or no terminal path)'
            results.append(Result(short + '.vacuity', 'vacuity', 'at least one obligation is generated', 'undecided', detail=info['reason']))
    info['entry_states'] = n_sat_entry
    info['seconds'] = time.time() - t_start
    info['engine_stats'] = dict(E.stats)
    return info


def _collect(E, c, fi, outs, results, short, altdesc, env0, entry_oid, timeout_ms, seed, pnames):
    module = fi.module
    reg_c = (E.registry, c)
    pending = []          # (id, kind, clause, pc, goal, state)

    def add(kind, name, clause, st, goal):
        pending.append(('%s.%s.%s' % (short, kind, name), kind, clause, list(st.pc), goal, st))

    # obligations generated during execution
    for ob in E.obligations:
        nm = ob.info.get('clause', ob.where) if ob.info else ob.where
        pending.append(('%s.%s.%s' % (short, ob.kind, _slug(nm)), ob.kind, '%s: %s' % (ob.where, nm), ob.pc, ob.goal, ob.state))
    normal_seen = False
    raised_seen = set()
    for k, o in enumerate(outs):
        st = o[1]
        # in clauses a parameter name denotes the value passed at entry (the body may rebind the local)
        if st.snap is not None:
            for nm in pnames:
                if nm in st.snap.frame.env:
                    st.frame.env[nm] = st.snap.frame.env[nm]
        if o[0] in ('fall', 'ret'):
            normal_seen = True
            rv = o[2] if o[0] == 'ret' else None
            st.frame.env['result'] = rv
            # restore parameter names for clause evaluation (locals may have been rebound; contracts speak of entry values through old())
            for ename, spec in c.raises.items():
                mode, cond = spec if isinstance(spec, tuple) else ('only_if', spec)
                if mode == 'iff':
                    g = eval_clause(E, 'not (old(%s))' % cond, st)
                    add('raises_iff', ename + '.if', 'returns normally, so the %s condition must be false: %s' % (ename, cond), st, g)
            assume_instances(E, c, st, 'exit')
            # stepwise proof: each exit lemma is its own obligation and is then available to the clauses after it
            for nm, cl in (c.lemmas.get('exit') or {}).items():
                g = eval_clause(E, cl, st)
                add('lemma', nm, cl, st, g)
                st.assume(_as_z3(g))
            for nm, cl in c.ensures.items():
                g = eval_clause(E, cl, st)
                add('ensures', nm, cl, st, g)
            if c.modifies is not None:
                _frame_obligations(E, c, st, entry_oid, add, 'modifies')
        elif o[0] == 'raise':
            ev = o[2]
            ename = _match_raises(E, c, ev, module)
            if ename is None:
                add('raises_only', _exc_name(ev), 'no exception other than %s may escape (got %s)' % (sorted(c.raises) or 'none', _exc_name(ev)), st, z3.BoolVal(False))
                continue
            raised_seen.add(ename)
            spec = c.raises[ename]
            mode, cond = spec if isinstance(spec, tuple) else ('only_if', spec)
            if cond not in (None, True, 'True'):
                g = eval_clause(E, 'old(%s)' % cond, st)
                add('raises_iff', ename + '.only_if', '%s is raised only if: %s' % (ename, cond), st, g)
            for cl in _aslist(c.on_raise.get(ename, [])) + _aslist(c.on_raise.get('*', [])):
                g = eval_clause(E, cl, st)
                add('on_raise', ename + '.' + _slug(cl), cl, st, g)
            unch = c.unchanged_on_raise
            if unch and (unch is True or ename in unch):
                _frame_obligations(E, Contract(c.target, modifies=[]), st, entry_oid, add, 'unchanged_on_' + ename)
        else:
            raise Unsupported('break/continue escaping function body')
    # discharge
    for (oid, kind, clause, pc, goal, st) in pending:
        if altdesc:
            oid_full = oid
        r = solve.check_valid(pc, goal, timeout_ms, seed=seed, facts=st.facts)
        _dbg = os.environ.get('VERIF_DUMP_OBL')
        if _dbg and _dbg in oid and (r['status'] != 'unsat' or os.environ.get('VERIF_DUMP_ALL')):
            # developer aid: the query as SMT-LIB
            _s = z3.Solver()
            _s.add(*pc)
            _s.add(z3.Not(goal) if not isinstance(goal, bool) else z3.BoolVal(not goal))
            _dn = os.environ.get('VERIF_DUMP_DIR', '/root/verif_scratch')
            open(os.path.join(_dn, 'obl_%s_%d.smt2' % (oid[-60:].replace('/', '_'), len(results))), 'w').write(_s.to_smt2())
        if r['status'] == 'unsat':
            results.append(Result(oid, kind, clause, 'discharged', r['backend'], r['seconds'], path=altdesc))
        elif r['status'] == 'sat':
            results.append(_triage_sat(reg_c, oid, kind, clause, pc, goal, st, r, pnames, altdesc, timeout_ms, seed))
        else:
            results.append(Result(oid, kind, clause, 'undecided', r['backend'], r['seconds'], path=altdesc,
                                  detail='solver: %s' % r.get('reason', 'unknown')))


def _entry_terms(v, st, acc, depth=0):
    """z3 terms of the symbolic entry values reachable from v (for blocking a refuted counter-model)"""
    if isinstance(v, (SInt, SBool, SBytes)):
        acc.append(v.t)
    elif isinstance(v, tuple):
        for x in v:
            _entry_terms(x, st, acc, depth + 1)
    elif isinstance(v, Ref) and depth < 4 and v.oid in st.heap:
        h = st.heap[v.oid]
        vals = list(h.fields.values())
        if isinstance(h.items, list):
            vals += h.items
        elif isinstance(h.items, dict):
            vals += list(h.items.values())
        elif h.items is not None:
            vals.append(h.items)
        for x in vals:
            if isinstance(x, LazyUnion):
                for _t, a in x.alts:
                    if a is not ABSENT:
                        _entry_terms(a, st, acc, depth + 1)
            else:
                _entry_terms(x, st, acc, depth + 1)


def _triage_sat(reg_c, oid, kind, clause, pc, goal, st, r, pnames, altdesc, timeout_ms, seed):
    """a solver `sat` is a candidate counterexample.  It is replayed against the REAL function under CPython:
       confirmed  -> violated, replayed (the witness breaks the clause natively);
       refuted    -> the model is spurious (it exploits an under-constrained uninterpreted symbol: be(), pow2(), an opaque spec
                     function, an assumed callee contract): block it and ask for another one; if every model found is refuted the
                     obligation is NOT proved and NOT refuted: undecided;
       not replayable (ghost state, abstract objects, inner state) -> violated, no failing input found."""
    from . import replay as rp
    reg, c = reg_c
    snap = st.snap if st.snap is not None else st
    model = r['model']
    cur_pc = list(pc)
    total = r['seconds']
    refuted = 0
    last_wit = None
    while True:
        wit = None
        if model is not None:
            wit = {}
            for nm in pnames:
                if nm in snap.frame.env:
                    try:
                        wit[nm] = concretize(model, snap.frame.env[nm], snap)
                    except Exception as ex:     # noqa
                        wit[nm] = '<%s>' % ex
        last_wit = wit
        d = {'id': oid, 'kind': kind, 'clause': clause, 'witness': jsonable(wit)}
        verdict = None
        if wit is not None and st.ghost.get('abstract_choices'):
            # the path depends on choices made by abstract callee MODELS (a decode() that may or may not raise, an arbitrary member of
            # a decoded structure ...): they are not inputs, so running the real function on the entry values says nothing about
            # this counter-model (DESIGN 2.7: inner state / callee havoc -> reported, no failing input found)
            d['replay_error'] = 'the path depends on choices of abstract callee models (%s), which are not inputs' % st.ghost['abstract_choices']
        elif wit is not None:
            try:
                rp.replay_violation(reg, c, d)
                verdict = True if d.get('replayed') else (False if d.get('replay') is not None else None)
            except Exception as ex:      # noqa  not replayable
                d['replay_error'] = str(ex)[:300]
                verdict = None
        if verdict is True:
            res = Result(oid, kind, clause, 'violated', r['backend'], total, witness=wit, path=altdesc,
                         detail='counter-model found and confirmed by native replay')
            res.replayed, res.replay = True, d.get('replay')
            return res
        if verdict is False and c.opaque:
            # this proof keeps spec functions opaque: the model interprets them arbitrarily, so its input is not meaningful and a
            # native refutation of THAT input says nothing about the obligation.  The obligation held on the unchanged tree and
            # now has a counter-model: violated; a concrete failing input is searched afterwards with the spec functions revealed
            # (vf/pyunit.py reveal_search)
            res = Result(oid, kind, clause, 'violated', r['backend'], total, witness=None, path=altdesc,
                         detail='counter-model found (spec functions opaque in this proof: the model is not a concrete input)')
            res.replayed, res.replay = False, None
            res.needs_reveal = True
            return res
        if verdict is None:
            res = Result(oid, kind, clause, 'violated', r['backend'], total, witness=wit, path=altdesc,
                         detail='counter-model found' + ('' if model is not None else ' (cvc5, no model extracted)') +
                                '; native replay not possible: %s' % d.get('replay_error', 'no concrete input'))
            res.replayed, res.replay = False, None
            return res
        # refuted natively: spurious model
        refuted += 1
        terms = []
        for nm in pnames:
            if nm in snap.frame.env:
                _entry_terms(snap.frame.env[nm], snap, terms)
        if refuted >= 5 or not terms:
            break
        block = z3.Or([t != model.eval(t, model_completion=True) for t in terms])
        cur_pc.append(block)
        r2 = solve.check_valid(cur_pc, goal, min(timeout_ms or 30000, 15000), use_cvc5=False, seed=seed, facts=st.facts)
        total += r2['seconds']
        if r2['status'] != 'sat' or r2['model'] is None:
            break
        model = r2['model']
    res = Result(oid, kind, clause, 'undecided', r['backend'], total, witness=last_wit, path=altdesc,
                 detail='%d counter-model(s) found, every one REFUTED by native replay on the real function (spurious: an uninterpreted '
                        'symbol or assumed callee contract is under-constrained); not proved, not refuted' % refuted)
    res.replayed, res.replay = False, None
    return res


def _aslist(x):
    return [x] if isinstance(x, str) else list(x)


def _slug(s):
    import re
    s = re.sub(r'[^A-Za-z0-9_]+', '_', str(s)).strip('_')
    return s[:48]


def _frame_obligations(E, c, st, entry_oid, add, kind):
    """every heap location of a pre-existing object written on this path and not listed in `modifies`
    must hold its old value again"""
    allowed = set()
    mods = c.modifies if c.modifies is not None else []
    snap = st.snap
    for path in (mods.keys() if isinstance(mods, dict) else mods):
        if '.' in path:
            base, fld = path.rsplit('.', 1)
            import ast as _ast
            sink = []
            s0 = snap.fork()
            s0.frame.spec_mode = True          # the base of a frame path is a spec expression (spec forms allowed)
            r = list(E.ev(_ast.parse(base, mode='eval').body, s0, sink))
            if len(r) == 1 and isinstance(r[0][1], Ref):
                allowed.add((r[0][1].oid, fld))
                if fld == '*':
                    allowed.add((r[0][1].oid, None))
        else:
            v = snap.frame.env.get(path)
            if isinstance(v, Ref):
                allowed.add((v.oid, None))
    seen = set()
    for (oid, fld) in st.writes:
        if oid >= entry_oid or (oid, fld) in seen:
            continue
        seen.add((oid, fld))
        if (oid, fld) in allowed or (oid, None) in allowed:
            continue
        old_h = snap.heap.get(oid)
        new_h = st.heap.get(oid)
        name = 'obj%d.%s' % (oid, fld)
        if old_h is None or new_h is None:
            continue
        if fld in ('<items>', '<data>'):
            same = _same_value(E, old_h.items, new_h.items, st)
        else:
            if (fld in old_h.fields) != (fld in new_h.fields):
                same = False
            elif fld not in old_h.fields:
                same = True
            else:
                same = _same_value(E, old_h.fields[fld], new_h.fields[fld], st)
        add(kind, name, 'field %s is outside the frame and must be unchanged' % fld, st,
            same if not isinstance(same, bool) else z3.BoolVal(same))


def _same_value(E, a, b, st):
    if a is b:
        return True
    if isinstance(a, list) and isinstance(b, list):
        if len(a) != len(b):
            return False
        rs = [_same_value(E, x, y, st) for x, y in zip(a, b)]
        if any(r is False for r in rs):
            return False
        zs = [r for r in rs if r is not True]
        return z3.And(zs) if zs else True
    if isinstance(a, dict) and isinstance(b, dict):
        if set(a) != set(b):
            return False
        return _same_value(E, [a[k] for k in sorted(a, key=repr)], [b[k] for k in sorted(b, key=repr)], st)
    if isinstance(a, Ref) or isinstance(b, Ref):
        return isinstance(a, Ref) and isinstance(b, Ref) and a.oid == b.oid
    sink = []
    rs = list(E.equal(a, b, st.fork(), sink))
    if len(rs) != 1:
        return False
    r = rs[0][1]
    return r if isinstance(r, bool) else zbool(r)
