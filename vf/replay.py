"""./verify replay <file>: re-runs the unit that produced the violation on the current tree and reports whether the
same obligation still fails (exit 1) or not (exit 0).  The file itself carries the witness and, when the native
replay succeeded, the concrete call and its outcome."""
import json
import os
import sys


def main(path):
    d = json.load(open(path))
    print(json.dumps({k: d.get(k) for k in ('property', 'obligation', 'clause', 'witness', 'replay', 'replayed')}, indent=1, default=str)[:4000])
    from vf import core
    os.environ.setdefault('VERIF_EVIDENCE_DIR', '/tmp/verif_replay_evidence_%d' % os.getpid())
    import io
    import contextlib
    buf = io.StringIO()
    with contextlib.redirect_stdout(buf):
        code = core.run_check(d['property'], os.environ.get('VERIF_TIER', 'quick'), 0, None, [d['unit']])
    out = buf.getvalue()
    still = ('failed obligation %s:' % d['obligation']) in out
    print('obligation %s on the current tree: %s' % (d['obligation'], 'STILL VIOLATED' if still else 'not violated'))
    import shutil
    shutil.rmtree(os.environ['VERIF_EVIDENCE_DIR'], ignore_errors=True)
    return 1 if still else 0
