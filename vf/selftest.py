"""./verify selftest [--only substr]: not part of any verdict.
 1. engine cross-check against CPython (vf/pyvc/selfcheck.py): exit 3 on an unsound model;
 2. every confirmed property-breaking change under seeded/<id>/ is applied to a scratch copy of /repo (tools/seeded.py) and the check
    of its property must exit 1;
 3. every benign refactoring under selftest/benign/<name>.diff (first line: `# props: C13 C10`) must NOT give exit 1 (0, or 2 =
    "proof needs maintenance", is tolerated and counted)."""
import glob
import json
import os
import subprocess
import sys

ROOT = os.path.dirname(os.path.dirname(os.path.abspath(__file__)))


def main(only=None):
    bad = 0
    r = subprocess.run([sys.executable, '-m', 'vf.pyvc.selfcheck'], cwd=ROOT, env=dict(os.environ, N=os.environ.get('N', '6')))
    if r.returncode:
        bad += 1
    for meta in sorted(glob.glob(os.path.join(ROOT, 'seeded', '*', 'meta.json'))):
        d = os.path.dirname(meta)
        m = json.load(open(meta))
        name = os.path.basename(d)
        if only and not any(o in name for o in only):
            continue
        if m.get('missed'):
            print('%-45s breaks %s  recorded as MISSED (not re-run)' % (name, m['property']))
            continue
        for prop in (m.get('checked_props') or [m['property']]):
            args = [sys.executable, os.path.join(ROOT, 'tools', 'seeded.py'), os.path.join(d, 'patch.diff'), prop]
            if m.get('only'):
                # the units that reported this change when it was last validated in full (tools/seed_units.py)
                args += ['--'] + sum((['--only', o] for o in m['only']), [])
            r = subprocess.run(args, capture_output=True, text=True)
            ok = r.returncode == 1
            print('%-45s breaks %s  check %s exit %d  %s' % (name, m['property'], prop, r.returncode, 'DETECTED' if ok else 'MISSED'), flush=True)
            if not ok:
                bad += 1
    for diff in sorted(glob.glob(os.path.join(ROOT, 'selftest', 'benign', '*.diff'))):
        name = os.path.basename(diff)
        if only and not any(o in name for o in only):
            continue
        first = open(diff).readline()
        props = first.split(':', 1)[1].split() if first.startswith('# props:') else []
        for prop in props:
            r = subprocess.run([os.path.join(ROOT, 'tools', 'seeded.py'), diff, prop], capture_output=True, text=True)
            print('%-28s benign  check %s exit %d  %s' % (name, prop, r.returncode, 'FALSE ALARM' if r.returncode == 1 else 'ok'))
            if r.returncode == 1:
                bad += 1
    return 1 if bad else 0
