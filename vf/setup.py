"""./verify setup: nothing to build ahead of time (sources are re-read on every run); verifies the tool chain is present."""
import shutil
import sys


def main():
    ok = True
    try:
        import z3
        print('z3', z3.get_version_string())
    except Exception as ex:      # noqa
        print('z3 python API missing:', ex)
        ok = False
    for tool in ('cvc5', 'clang-14', 'gcc', 'lean'):
        p = shutil.which(tool)
        print('%-8s %s' % (tool, p or 'MISSING'))
    try:
        import Crypto
        print('Crypto from', Crypto.__file__)
    except Exception as ex:      # noqa
        print('cannot import Crypto:', ex)
        ok = False
    return 0 if ok else 1


if __name__ == '__main__':
    sys.exit(main())
